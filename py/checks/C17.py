"""C17: TimingAnalysis / critical_path / max_freq / paths / fanout of the real
pyrtl.analysis versus (a) the Coq model (Analysis/Timing.v, Paths.v, Fanout.v,
Gen/TimingFormula.v) evaluated on the NLX dump of the same block -- the tie --
and (b) an independent brute-force enumeration of paths in plain Python on the
graph read directly from block.logic -- the search (implementation vs the
graph-theoretic definition in the property text)."""
import contextlib
import itertools
import math
import io
import os
from fractions import Fraction

import pyrtl
from pyrtl.analysis import TimingAnalysis
import pyrtl.analysis as pa

import gen_designs
import nlx

RULE = ('random API-built designs from gen_designs (3..16 ops, registers, memories, ROMs) plus '
        'hand-shaped families (F18 three-net reconvergence, diamonds of depth 2..5, register rings, '
        'register self-loops through the queried wire, memory write->read loops with 1..2 ports, '
        'memories with 1..3 read and 1..3 write ports under every limited/unlimited max_read_ports/'
        'max_write_ports declaration, SYNCHRONOUS memories/ROMs indexed by registers/inputs through 0..3 levels '
        'of w/s/c wiring nets with a write port and register feedback, balanced equal-delay trees that hit '
        'cp_limit) x integer gate_delay_funcs tables '
        '(unit / random constant / width-dependent / free wires; r and @ negative), each used as is and '
        'scaled by 2**-40, 2**-20, 2**20 (exact dyadic floats, results unscaled exactly) x cp_limit in '
        '{1,2,3,100} x tech/ffoverhead x up to 10 (quick) or 30 (thorough) (src,dst) queries per design '
        '(Input->Output, reachable pairs, src=dst loops, unreachable pairs), each asked as a single pair AND '
        'through every other argument kind of paths(): list/set/tuple/frozenset/dict_keys collections and one-shot '
        'iterables (generator, iter(), map) of sources and destinations, chosen independently for src and dst '
        '(the loop sources are also destinations), paths(), paths(src) and paths(dst=) defaults; every entry '
        '[s][d] is compared with the independent simple-path enumeration.  The default delay table is compared '
        'numerically with the documented per-op formulas (memory read: bits and max(#read nets,#write nets)).  '
        'FLOAT delays, compared EXACTLY (==): every case is also analysed with the default table and with a custom '
        'table of awkward floats (0.1, 1/3, 1e-9, 1e16 absorbing small delays, 0.1*width); timing_map must equal '
        'the max over explicitly enumerated source paths of the left-to-right float sum, every critical path must '
        'sum to max_length, and timing_map / max_length / critical_path must equal the generic Coq model '
        '(Analysis/TimingOrd.v) evaluated at D = binary64 with Coq primitive floats on the same per-net delays.  '
        'Every other case is analysed '
        'while its Block is NOT the working block (working block reset and an unrelated decoy design '
        're-using its input names built first; block= passed, fanout(w) on the foreign wires), the others '
        'through the default working-block route; every 4th query passes dst_nets.  A case is one design + '
        'table; distinct by (nets, table, queries); non-trivial when the design has >= 3 combinational '
        'nets, max_length > 0 and at least one query has a path')
IMPORTS = 'From PyRTL Require Import Analysis.C17Harness.'
IMPORTS_FREQ = ('From Coq Require Import ZArith QArith.\n'
                'From PyRTL Require Import Gen.TimingFormula.')
COQ_TARGETS = ['theories/Analysis/C17Harness.vo', 'theories/Gen/TimingFormula.vo']
TRUSTED = ['standard-library declarations listed by coqchk -o for Props/C17 (and for no other property): the primitive '
           'constants of Coq.Floats.PrimFloat and Coq.Numbers.Cyclic.Int63.PrimInt63 and the Uint63.*_spec / of_to_Z axioms '
           'about primitive 63-bit integers, loaded by the evaluated float instance (imports PrimFloat, SpecFloat, FloatOps, '
           'Uint63; not Floats, so no FloatAxioms and no real-number axioms); no theorem depends on them',
           'Analysis/PathSpec.v: cpath/wsum/is_longest (maximum over register-free paths from an Input/Const/'
           'Register of the summed delays), chain/visits/simple_path (net paths incl. the memory write->read '
           'hop; no net and no wire repeated), reads/fanout_is (cardinality of the set of argument positions)',
           'Analysis/PathSpecOrd.v: gcpath/gsum/g_is_longest (the same over an arbitrary delay domain, delays '
           'summed LEFT TO RIGHT from the source) and ordered_delays/eq_agrees (what is required of the domain)',
           'IEEE-754: round-to-nearest addition of finite binary64 numbers is monotone in its left argument and '
           '<= is a total preorder on them (so Python floats are an instance of ordered_delays; not proved in '
           'Coq); Coq primitive floats and Python floats are the same binary64 arithmetic',
           'py/checks/C17.py brute-force enumerators (all_path_sums, float_path_sums, max_paths, simple_paths, '
           'position count) and default_delay (the documented default per-op delay constants, hand-copied)']
ASSUMPTIONS = ['delays are finite non-NaN numbers (a NaN or infinite gate delay is outside ordered_delays)',
               'custom gate_delay_funcs give a negative delay exactly to r and @ (a negative delay on a '
               'combinational gate makes TimingAnalysis raise KeyError at the first reader)',
               'max_freq: float arithmetic read as exact rational arithmetic (relative tolerance 1e-12)',
               'critical_path COMPLETENESS (C17_critical_paths_complete/_exact) is proved for integer delays '
               'only: it needs strictly monotone addition, which float absorption (1e16 + 1 == 1e16) breaks; '
               'soundness (every returned path sums to max_length) is proved for every ordered domain',
               'mem.readport_nets equals the set of m-nets of that memory in the block (no pass has '
               'rewritten the block)']

OPS = 'w~&|^n+-*<>=xcsrm@'
SRC_TYPES = (pyrtl.Input, pyrtl.Const, pyrtl.Register)


# ----------------------------------------------------------------------------
# delay tables

def make_table(rng):
    style = rng.choice(['unit', 'rand', 'rand', 'width', 'freewires'])
    tab = {}
    for ch in OPS:
        if ch in 'r@':
            tab[ch] = (rng.choice([-1, -1, -5]), rng.choice([0, 0, -1]))
        elif style == 'unit':
            tab[ch] = (1, 0)
        elif style == 'rand':
            tab[ch] = (rng.randint(0, 9), 0)
        elif style == 'width':
            tab[ch] = (rng.randint(0, 5), rng.randint(0, 2))
        else:
            tab[ch] = (0, 0) if ch in 'wcs' else (rng.randint(1, 6), rng.choice([0, 0, 1]))
    return style, tab


def delay_funcs(tab, k=0):
    """gate_delay_funcs for the table; k != 0 scales every delay by 2**k (exact in floats: the
    integer delays and all path sums are small integers, so every value is an exact dyadic)"""
    scale = 1 if k == 0 else 2.0 ** k
    f = {}
    for ch, (a, b) in tab.items():
        if ch == 'm':
            f[ch] = (lambda mem, a=a, b=b: (a + b * mem.id) * scale)
        else:
            f[ch] = (lambda width, a=a, b=b: (a + b * width) * scale)
    return f


def gate_delay(tab, n):
    a, b = tab[n.op]
    return a + b * (n.op_param[1].id if n.op == 'm' else len(n.args[0]))


def coq_table(tab):
    return '[' + '; '.join('(%d, (%s, %s))' % (i, nlx.zlit(tab[ch][0]), nlx.zlit(tab[ch][1]))
                           for i, ch in enumerate(OPS)) + ']'


# ----------------------------------------------------------------------------
# hand-shaped designs

BIN = ['&', '|', '^', '+', '-', 'n']


def binop(rng, a, b, w):
    op = rng.choice(BIN)
    if op == '&':
        r = a & b
    elif op == '|':
        r = a | b
    elif op == '^':
        r = a ^ b
    elif op == '+':
        r = a + b
    elif op == '-':
        r = a - b
    else:
        r = a.nand(b)
    return r[:w] if len(r) > w else (r if len(r) == w else r.zero_extended(w))


def shaped(rng, kind):
    pyrtl.reset_working_block()
    w = rng.choice([1, 1, 2, 3])
    if kind == 'f18':
        a = pyrtl.Input(1, 'a')
        o = pyrtl.Output(1, 'o')
        b = ~a
        c = a & b
        o <<= c
    elif kind == 'diamond':
        x = pyrtl.Input(w, 'x')
        y = pyrtl.Input(w, 'y')
        cur = x
        for _ in range(rng.randint(1, 4)):
            left = ~cur if rng.random() < 0.4 else binop(rng, cur, y, w)
            if rng.random() < 0.3:
                left = binop(rng, left, y, w)
            right = cur if rng.random() < 0.5 else binop(rng, cur, y, w)
            cur = binop(rng, left, right, w)
        o = pyrtl.Output(w, 'o')
        o <<= cur
    elif kind == 'ring':
        k = rng.randint(1, 4)
        i = pyrtl.Input(w, 'i')
        regs = [pyrtl.Register(w, 'r%d' % j) for j in range(k)]
        for j in range(k):
            prev = regs[j - 1]
            v = binop(rng, prev, i, w)
            if rng.random() < 0.5:
                v = binop(rng, v, regs[j], w)
            regs[j].next <<= v
        o = pyrtl.Output(w, 'o')
        o <<= binop(rng, regs[-1], regs[0], w)
    elif kind == 'srcloop':
        i = pyrtl.Input(w, 'i')
        r = pyrtl.Register(w, 'r')
        s = binop(rng, r, i, w)
        r.next <<= s if rng.random() < 0.5 else binop(rng, s, r, w)
        o = pyrtl.Output(w, 'o')
        o <<= (~r if rng.random() < 0.5 else binop(rng, r, s, w))
    elif kind == 'memloop':
        aw = rng.choice([1, 2])
        i = pyrtl.Input(aw, 'i')
        wa = pyrtl.Input(aw, 'wa')
        m = pyrtl.MemBlock(bitwidth=w, addrwidth=aw, name='m', max_read_ports=None,
                           max_write_ports=None, asynchronous=True)
        addr = pyrtl.WireVector(aw, 'addr')
        addr <<= i
        rd = pyrtl.as_wires(m[addr if rng.random() < 0.7 else i])
        rd2 = pyrtl.as_wires(m[wa]) if rng.random() < 0.4 else rd
        one = pyrtl.Const(1, bitwidth=w)
        m[wa] <<= binop(rng, rd, one, w)
        if aw == 2 and rng.random() < 0.4:
            m[pyrtl.concat(wa[0], ~wa[1])] <<= pyrtl.MemBlock.EnabledWrite(binop(rng, rd2, rd, w), i[0])
        o = pyrtl.Output(w, 'o')
        o <<= binop(rng, rd, rd2, w) if rng.random() < 0.5 else ~rd
    elif kind == 'memports':
        # every combination of limited / unlimited port declarations x several read and write ports
        aw = rng.choice([1, 2, 3])
        nr, nw = rng.randint(1, 3), rng.randint(1, 3)
        mrp = rng.choice([None, nr, nr + 1])
        mwp = rng.choice([None, nw, nw + 2])
        m = pyrtl.MemBlock(bitwidth=w, addrwidth=aw, name='m', max_read_ports=mrp,
                           max_write_ports=mwp, asynchronous=True)
        ra = pyrtl.Input(aw, 'ra')
        rds = []
        for j in range(nr):
            rds.append(pyrtl.as_wires(m[ra] if j == 0 else m[ra ^ pyrtl.Const(j % (1 << aw), bitwidth=aw)]))
        for j in range(nw):
            wa = pyrtl.Input(aw, 'wa%d' % j)
            wd = pyrtl.Input(w, 'wd%d' % j)
            if rng.random() < 0.4:
                wd = binop(rng, rng.choice(rds), wd, w)   # write data depends on a read: a loop
            if rng.random() < 0.6:
                m[wa] <<= pyrtl.MemBlock.EnabledWrite(wd, pyrtl.Input(1, 'we%d' % j))
            else:
                m[wa] <<= wd
        acc = rds[0]
        for x in rds[1:]:
            acc = binop(rng, acc, x, w)
        o = pyrtl.Output(w, 'o')
        o <<= ~acc
    elif kind == 'syncmem':
        # SYNCHRONOUS memories / ROMs: the index may only come from registers, inputs and constants
        # through wiring nets (w / s / c); several wiring levels, read data feeding registers,
        # a write port (memory loop) and an output
        aw = rng.choice([2, 3])
        r0 = pyrtl.Register(aw + 2, 'r0')
        r1 = pyrtl.Register(aw + 1, 'r1')
        i = pyrtl.Input(aw, 'i')

        def index(depth):
            k = rng.randrange(5)
            if depth == 0 or k == 0:
                base = rng.choice([r0, r1, i])
                lo = rng.randint(0, len(base) - aw)
                return base[lo:lo + aw]
            if k == 1:
                t = pyrtl.WireVector(aw)
                t <<= index(depth - 1)
                return t
            if k == 2:
                a, b = index(depth - 1), index(depth - 1)
                cut = rng.randint(1, aw - 1)
                return pyrtl.concat(a[:cut], b[cut:])
            if k == 3:
                x = index(depth - 1)
                return pyrtl.concat(*[x[j] for j in rng.sample(range(aw), aw)])
            return pyrtl.concat(pyrtl.Const(rng.getrandbits(1), bitwidth=1), index(depth - 1)[1:])
        if rng.random() < 0.35:
            m = pyrtl.RomBlock(bitwidth=w, addrwidth=aw, romdata=[rng.getrandbits(w) for _ in range(1 << aw)],
                               name='m', max_read_ports=None, asynchronous=False)
        else:
            m = pyrtl.MemBlock(bitwidth=w, addrwidth=aw, name='m', max_read_ports=None,
                               max_write_ports=None, asynchronous=False)
        rds = [pyrtl.as_wires(m[index(rng.randint(0, 3))]) for _ in range(rng.randint(1, 2))]
        acc = rds[0]
        for x in rds[1:]:
            acc = binop(rng, acc, x, w)
        if isinstance(m, pyrtl.MemBlock) and not isinstance(m, pyrtl.RomBlock):
            m[index(rng.randint(0, 2))] <<= binop(rng, acc, i[:w] if w <= aw else i.zero_extended(w), w)
        r0.next <<= pyrtl.concat(acc, r1)[:len(r0)] if rng.random() < 0.5 else r0 + 1
        r1.next <<= pyrtl.concat(r0[0], index(1))[:len(r1)]
        o = pyrtl.Output(w, 'o')
        o <<= ~acc
    elif kind == 'tree':
        depth = rng.randint(2, 4)
        leaves = [pyrtl.Input(w, 'l%d' % j) for j in range(rng.randint(1, 3))]
        level = [rng.choice(leaves) for _ in range(1 << depth)]
        op = rng.choice(['&', '|', '^'])
        while len(level) > 1:
            nxt = []
            for j in range(0, len(level), 2):
                a, b = level[j], level[j + 1]
                nxt.append(a & b if op == '&' else (a | b if op == '|' else a ^ b))
            level = nxt
        o = pyrtl.Output(w, 'o')
        o <<= level[0]
    else:
        raise ValueError(kind)
    return pyrtl.working_block()


SHAPES = ['f18', 'diamond', 'memports', 'ring', 'syncmem', 'srcloop', 'memloop', 'diamond', 'syncmem',
          'memports', 'memloop', 'tree']


ARG_KINDS = [('list', list), ('set', set), ('tuple', tuple),
             ('generator', lambda ws: (w for w in ws)),
             ('iter', lambda ws: iter(list(ws))),
             ('map', lambda ws: map(lambda w: w, ws)),
             ('frozenset', frozenset),
             ('dict_keys', lambda ws: {w: None for w in ws}.keys())]


def make_foreign(block):
    """Make `block` a NON-working block: reset the working block and build an unrelated decoy
    design in it that re-uses the names (and widths) of block's inputs with a different
    fan-out.  An analysis that consults working_block() instead of the block it was given (or
    the wire's own block) then sees different nets for the same names."""
    real = sorted(block.wirevector_set, key=lambda w: w.name)
    pyrtl.reset_working_block()
    acc = None
    for w in [w for w in real if isinstance(w, pyrtl.Input)][:3]:
        x = pyrtl.Input(len(w), w.name)
        t = (x & x) | ~x
        acc = t if acc is None else pyrtl.concat(acc, t)
    if acc is None:
        acc = ~pyrtl.Input(1, 'decoy_in')
    r = pyrtl.Register(1, 'decoy_r')
    r.next <<= acc[0] ^ r
    o = pyrtl.Output(len(acc) + 1, 'decoy_out')
    o <<= pyrtl.concat(r, acc)
    assert pyrtl.working_block() is not block


def build(ctx, i):
    """case i -> (kind, block, rng).  Every third case is hand-shaped."""
    rng = ctx.sub_rng('design', i)
    if i % 5 in (1, 3):
        kind = SHAPES[(i // 5 * 2 + (i % 5) // 2) % len(SHAPES)]
        return kind, shaped(rng, kind), rng
    d = gen_designs.make_design(rng, n_ops=rng.randint(3, 16), wide_prob=0.05,
                                allow_rom=(rng.random() < 0.5))
    return 'random', d.block, rng


# ----------------------------------------------------------------------------
# the independent graph + brute-force enumerators (the specification side)

class Graph(object):
    def __init__(self, block):
        # block.logic is a set hashed by object address: sort for run-to-run determinism
        self.nets = sorted(block.logic, key=lambda n: (n.dests[0].name if n.dests else '', n.op,
                                                        [a.name for a in n.args], str(n.op_param)
                                                        if n.op == 's' else ''))
        self.producer = {}
        self.readers = {}
        self.readports = {}
        self.writeports = {}
        for n in self.nets:
            for d in n.dests:
                self.producer[d] = n
            seen = []
            for a in n.args:
                if not any(a is s for s in seen):
                    seen.append(a)
                    self.readers.setdefault(a, []).append(n)
            if n.op == 'm':
                self.readports.setdefault(n.op_param[0], []).append(n)
            if n.op == '@':
                self.writeports.setdefault(n.op_param[0], []).append(n)


def mem_shape(g, memid, mem):
    """(bits, ports, is_rom) of a memory, read off the netlist: ports = max(#read nets, #write nets)"""
    return (2 ** mem.addrwidth * mem.bitwidth,
            max(len(g.readports.get(memid, [])), len(g.writeports.get(memid, []))),
            isinstance(mem, pyrtl.RomBlock))


def default_delay(g, n):
    """the documented default delay of a gate (TimingAnalysis docstring / table, 130nm, ps)"""
    op = n.op
    if op in 'r@':
        return -1
    if op == 'm':
        bits, ports, _ = mem_shape(g, n.op_param[0], n.op_param[1])
        return 270 * 0.130 ** 1.38 * bits ** 0.25 * ports ** 1.30 + 1.05
    width = len(n.args[0])
    const = {'~': 48.5, '&': 98.5, '|': 105.3, '^': 135.07, 'n': 66.0, 'w': 0, 'x': 138.0, 'c': 0, 's': 0}
    if op in const:
        return const[op]
    if op in '+-':
        return 184.0 * math.log(float(width), 2) + 18.9
    if op in '<>':
        return 101.9 * math.log(float(width), 2) + 105.4
    if op == '=':
        return 60.1 * math.log(float(width), 2) + 147
    if op == '*':
        if width == 1:
            return 98.57
        if width == 2:
            return 200.17
        return 549.1 * math.log(width, 2) - 391.7
    raise ValueError(op)


def default_longest(g):
    memo = {}

    def lp(x):
        if x in memo:
            return memo[x]
        if isinstance(x, SRC_TYPES):
            r = 0
        else:
            n = g.producer[x]
            r = max(lp(a) for a in n.args) + default_delay(g, n)
        memo[x] = r
        return r
    return lp


def float_lit(x):
    """Coq primitive-float literal (exact, hexadecimal)"""
    return '(%s)%%float' % float(x).hex()


def pair_value(me):
    """(mantissa, exponent) printed by Coq's float_pair -> exact Fraction (None for inf/nan)"""
    m, e = me
    if e == 99999:
        return None
    return Fraction(m) * Fraction(2) ** e


def ugly_float_table(rng):
    """float delays that are NOT exactly representable sums: decimal fractions, thirds, a huge
    value that absorbs small ones (1e16 + 1 == 1e16), tiny values"""
    pool = [0.1, 0.2, 0.3, 1.0 / 3.0, 0.7, 1.0, 1e-9, 1e16, 2.5, 1e-3, 123.456]
    tab = {}
    for ch in OPS:
        if ch in 'r@':
            tab[ch] = (-1.0, 0.0)
        else:
            tab[ch] = (rng.choice(pool), rng.choice([0.0, 0.0, 0.1, 1.0 / 7.0]))
    return tab


def ugly_delay(tab, n):
    a, b = tab[n.op]
    return a + b * (n.op_param[1].id if n.op == 'm' else len(n.args[0]))


def float_path_sums(g, delay, w, budget):
    """for EVERY register-free source path to w: the gate delays summed LEFT TO RIGHT from the
    source in float arithmetic, starting from 0 (the order the analysis itself uses)"""
    sums = []
    stack = [(w, ())]
    while stack:
        x, suffix = stack.pop()
        if isinstance(x, SRC_TYPES):
            t = 0
            for d in suffix:
                t = t + d
            sums.append(t)
            continue
        n = g.producer.get(x)
        if n is None:
            continue
        d = delay(n)
        if d < 0:
            continue
        budget[0] -= 1 + len(suffix)
        if budget[0] < 0:
            raise TooBig()
        for a in n.args:
            stack.append((a, (d,) + suffix))
    return sums


def close(a, b):
    return abs(a - b) <= 1e-9 * max(1.0, abs(a), abs(b))


class TooBig(Exception):
    pass


def all_path_sums(g, tab, w, budget):
    """summed delays of EVERY register-free path from a source to w, enumerated one by one"""
    sums = []
    stack = [(w, 0)]
    while stack:
        x, acc = stack.pop()
        if isinstance(x, SRC_TYPES):
            sums.append(acc)
            continue
        n = g.producer.get(x)
        if n is None:
            continue
        d = gate_delay(tab, n)
        if d < 0:
            continue
        budget[0] -= 1
        if budget[0] < 0:
            raise TooBig()
        for a in n.args:
            stack.append((a, acc + d))
    return sums


def longest_memo(g, tab):
    memo = {}

    def lp(x):
        if x in memo:
            return memo[x]
        if isinstance(x, SRC_TYPES):
            r = 0
        else:
            n = g.producer.get(x)
            d = gate_delay(tab, n) if n is not None else -1
            r = None if d < 0 else max(lp(a) for a in n.args) + d
        memo[x] = r
        return r
    return lp


def max_paths(g, tab, w, target, budget):
    """all (source, [nets]) register-free paths to w with summed delay == target"""
    res = []
    stack = [(w, 0, [])]
    while stack:
        x, acc, path = stack.pop()
        if isinstance(x, SRC_TYPES):
            if acc == target:
                res.append((x, path))
            continue
        n = g.producer.get(x)
        d = gate_delay(tab, n)
        budget[0] -= 1
        if budget[0] < 0:
            raise TooBig()
        for a in n.args:
            stack.append((a, acc + d, [n] + path))
    return res


def simple_paths(g, src, dst, budget):
    """every net path src -> dst that repeats no wire and no net (src = dst: simple cycles).
    A memory write net '@' is followed by a read port of the same memory."""
    res = []

    def go(w, path, visited):
        for n in g.readers.get(w, []):
            if any(n is p for p in path):
                continue
            if n.op == '@':
                hops = [(rn, [n, rn]) for rn in g.readports.get(n.op_param[0], [])
                        if not any(rn is p for p in path)]
            else:
                hops = [(n, [n])]
            for last, seg in hops:
                budget[0] -= 1
                if budget[0] < 0:
                    raise TooBig()
                d = last.dests[0]
                if d is dst:
                    res.append(path + seg)
                elif id(d) not in visited:
                    go(d, path + seg, visited | {id(d)})
    go(src, [], {id(src)})
    return res


def reachable(g, src):
    seen = {id(src): src}
    todo = [src]
    while todo:
        w = todo.pop()
        for n in g.readers.get(w, []):
            outs = [n] if n.op != '@' else g.readports.get(n.op_param[0], [])
            for o in outs:
                d = o.dests[0]
                if id(d) not in seen:
                    seen[id(d)] = d
                    todo.append(d)
    return sorted(seen.values(), key=lambda w: w.name)


# ----------------------------------------------------------------------------

def net_order(block, ta):
    """the order in which TimingAnalysis visited the combinational nets = insertion order of
    timing_map; r/@ nets (skipped by the analysis) are appended in a canonical order"""
    src_map, _ = block.net_connections()
    order = [src_map[w] for w in ta.timing_map if not isinstance(w, SRC_TYPES)]
    got = set(order)
    rest = [n for n in block.logic if n not in got]
    rest.sort(key=lambda n: (n.op, n.dests[0].name if n.dests else '', [a.name for a in n.args]))
    return order + rest


def quiet(f, *a, **k):
    buf = io.StringIO()
    with contextlib.redirect_stdout(buf):
        r = f(*a, **k)
    return r, buf.getvalue()


def pick_queries(rng, block, g, nq):
    wires = sorted(block.wirevector_set, key=lambda w: w.name)
    ins = [w for w in wires if isinstance(w, pyrtl.Input)]
    outs = [w for w in wires if isinstance(w, pyrtl.Output)]
    regs = [w for w in wires if isinstance(w, pyrtl.Register)]
    rds = [n.dests[0] for n in g.nets if n.op == 'm']
    qs = []
    for s in ins:
        for d in outs:
            qs.append((s, d))
    rng.shuffle(qs)
    qs = qs[:max(2, nq // 3)]
    for w in regs + rds:
        qs.append((w, w))
    for _ in range(nq):
        s = rng.choice(wires)
        if isinstance(s, pyrtl.Output) and rng.random() < 0.8:
            continue
        r = reachable(g, s)
        r = [w for w in r if w is not s] or [s]
        qs.append((s, rng.choice(r)))
    for _ in range(2):
        qs.append((rng.choice(wires), rng.choice(wires)))
    out, seen = [], set()
    for s, d in qs:
        if (id(s), id(d)) not in seen:
            seen.add((id(s), id(d)))
            out.append((s, d))
    regq = [q for q in out if q[0] is q[1]][:3]
    other = [q for q in out if q[0] is not q[1]]
    return (other[:nq - len(regq)] + regq)[:nq]


def net_strs(nets):
    return [str(n).strip() for n in nets]


def analyse(ctx, i, found, exprs, cases, fq_exprs, fq_cases):
    kind, block, rng = build(ctx, i)
    # every other case is analysed while it is NOT the working block (block= passed explicitly;
    # fanout(w) must use w's own block); the rest go through the default working-block route
    foreign = (i % 2 == 1)
    if foreign:
        make_foreign(block)
    bk = {'block': block} if foreign else {}
    style, tab = make_table(rng)
    # magnitude of the delays: the integer table, and the same table scaled by 2**-40, 2**-20, 2**20
    # (exact dyadic floats); results are divided by the same power of two, so every comparison
    # with the integer model / brute force stays exact
    dk = [0, -40, -20, 20][i % 4]
    fscale = 2.0 ** dk

    def unscale(v):
        if v is None or dk == 0:
            return v
        q = v / fscale
        if q != int(q):
            viol('timing:inexact-scaled-value', 'a timing value %r is not an integer multiple of 2**%d' % (v, dk), {})
            return q
        return int(q)
    cp_limit = rng.choice([1, 2, 3, 100, 100])
    nq = 10 if ctx.tier == 'quick' else 30
    g = Graph(block)
    base_rep = {'seed': ctx.seed, 'case': i, 'kind': kind, 'tier': ctx.tier,
                'queried_while': ('NOT the working block (reset_working_block() + unrelated design built '
                                  'after it; block= passed)' if foreign else 'working block (no block= argument)'),
                'delay_scale': '2**%d' % dk,
                'nets': net_strs(g.nets), 'delay_table(op:(a,b) => a+b*width)': {k: list(v) for k, v in tab.items()}}

    def viol(sig, what, extra):
        size = len(g.nets)
        if sig not in found or found[sig][0] > size:
            found[sig] = (size, what, dict(base_rep, **extra))

    # ---- implementation
    try:
        ta = TimingAnalysis(gate_delay_funcs=delay_funcs(tab, dk), **bk)
    except Exception as e:
        viol('timing:raises', 'TimingAnalysis raised %r on an API-built design' % (e,), {})
        return
    order = net_order(block, ta)
    dump = nlx.Dump(block, net_order=order)
    wid = dump.wid
    nix = {n: k for k, n in enumerate(dump.nets)}
    if len(nix) != len(dump.nets):
        ctx.count('skipped', 'identical-nets')
        return
    impl_tm = [unscale(ta.timing_map.get(w)) for w in dump.wires]
    impl_keys = [wid[w] for w in ta.timing_map]
    impl_max = unscale(ta.max_length())
    cps, printed = quiet(ta.critical_path, print_cp=False, cp_limit=cp_limit)
    limit_hit = 'limit reached' in printed
    impl_cp = [(wid[fw], [nix[n] for n in p]) for fw, p in cps]
    impl_fan = [pa.fanout(w) for w in dump.wires]
    queries = pick_queries(rng, block, g, nq)
    impl_paths = []
    for qi, (s, d) in enumerate(queries):
        if qi % 4 == 3:   # caller-supplied dst_nets (paths() strips the Outputs from it)
            r = pyrtl.paths(s, d, dst_nets=block.net_connections()[1], **bk)
        else:
            r = pyrtl.paths(s, d, **bk)
        impl_paths.append(r[s][d])
    if foreign and pyrtl.working_block() is block:
        viol('working-block-changed', 'an analysis changed the working block', {})

    # ---- search: implementation vs the graph-theoretic definitions
    budget = [200000]
    lp = longest_memo(g, tab)
    enumerated = True
    exp_tm = []
    for w in dump.wires:
        try:
            sums = all_path_sums(g, tab, w, budget)
            exp_tm.append(max(sums) if sums else None)
        except TooBig:
            enumerated = False
            exp_tm.append(lp(w))
    ctx.count('longest-path oracle', 'explicit enumeration' if enumerated else 'memoised (design too big)')
    for w, got, exp in zip(dump.wires, impl_tm, exp_tm):
        if got != exp:
            viol('timing:not-longest-path',
                 'timing_map[%s] = %r but the longest register-free path from a source sums to %r' % (w.name, got, exp),
                 {'wire': w.name, 'expected': exp, 'got': got})
            break
    vals = [v for v in exp_tm if v is not None]
    exp_max = max(vals)
    if impl_max != exp_max:
        viol('max_length', 'max_length() = %r, largest longest-path value = %r' % (impl_max, exp_max),
             {'expected': exp_max, 'got': impl_max})
    for fw, p in cps:
        ok = isinstance(fw, SRC_TYPES)
        cur = fw
        tot = 0
        for n in p:
            d = gate_delay(tab, n)
            ok = ok and any(a is cur for a in n.args) and d >= 0 and len(n.dests) == 1
            if not ok:
                break
            tot += d
            cur = n.dests[0]
        if not ok or tot != exp_max:
            viol('critical_path:sum', 'critical_path returned a path from %s that is not a register-free '
                 'source path summing to max_length=%r (sum %r)' % (fw.name, exp_max, tot),
                 {'first_wire': fw.name, 'path': net_strs(p), 'expected_sum': exp_max})
            break
    # what cp_limit does (C17_critical_path_is_prefix): a prefix of the unlimited enumeration,
    # everything when the limit was not reached, at least cp_limit paths when it was
    full, _ = quiet(ta.critical_path, print_cp=False, cp_limit=10 ** 9)
    fl = [(wid[fw], [nix[n] for n in p]) for fw, p in full]
    if impl_cp != fl[:len(impl_cp)] or (limit_hit and len(impl_cp) < cp_limit) \
            or (not limit_hit and impl_cp != fl):
        viol('critical_path:limit-prefix', 'critical_path(cp_limit=%d) is not the expected prefix of the '
             'unlimited enumeration (%d of %d returned, limit message printed: %s)'
             % (cp_limit, len(impl_cp), len(fl), limit_hit), {'cp_limit': cp_limit, 'got': impl_cp, 'unlimited': fl})
    ctx.count('paths returned beyond cp_limit', max(0, len(impl_cp) - cp_limit) if limit_hit else 'limit not reached')
    if not limit_hit and len(cps) < cp_limit:
        try:
            allmax = []
            for w, v in zip(dump.wires, exp_tm):
                if v == exp_max:
                    allmax.extend(max_paths(g, tab, w, exp_max, budget))
            a = {(wid[fw], tuple(nix[n] for n in p)) for fw, p in allmax}
            b = {(x, tuple(p)) for x, p in impl_cp}
            ctx.count('critical paths complete (no limit)', a == b)
            if a != b:
                viol('critical_path:incomplete', 'critical_path (limit not reached) does not return every '
                     'maximal path: %d of %d' % (len(b), len(a)), {'expected': sorted(a), 'got': sorted(b)})
        except TooBig:
            pass
    # fanout
    for w, got in zip(dump.wires, impl_fan):
        exp = sum(1 for n in g.nets for a in n.args if a is w)
        if got != exp:
            viol('fanout', 'fanout(%s) = %r, %r argument positions read it' % (w.name, got, exp),
                 {'wire': w.name, 'expected': exp, 'got': got})
            break
    # paths
    any_path = [False]

    def check_pair(s, d, got, how):
        """one entry result[s][d] of a paths() call (made as `how`) vs the independent enumeration"""
        try:
            exp = simple_paths(g, s, d, budget)
        except TooBig:
            ctx.count('paths oracle', 'skipped (too big)')
            return
        gs = {tuple(nix[n] for n in p) for p in got}
        es = {tuple(nix[n] for n in p) for p in exp}
        any_path[0] = any_path[0] or bool(es)
        ctx.count('paths per query', min(len(es), 5))
        ctx.count('query kind', 'src=dst' if s is d else ('has paths' if es else 'no path'))
        rep = {'src': s.name, 'dst': d.name, 'call': how,
               'expected_simple_paths': [net_strs([dump.nets[k] for k in p]) for p in sorted(es)],
               'got': [net_strs(p) for p in got]}
        if len(gs) != len(got):
            viol('paths:duplicate', '%s: [%s][%s] holds the same path twice' % (how, s.name, d.name), rep)
        for p in sorted(es - gs):
            suffix = any(len(q) < len(p) and p[len(p) - len(q):] == q for q in gs)
            if suffix and s is not d:
                viol('paths:reconvergent-suffix-filter',
                     '%s: [%s][%s] drops a simple path because another returned path is a suffix of it '
                     '(reconvergent fan-out): %d of %d simple paths returned' % (how, s.name, d.name, len(gs & es), len(es)),
                     rep)
            else:
                viol('paths:missing-other', '%s: [%s][%s] misses a simple path' % (how, s.name, d.name), rep)
        for p in sorted(gs - es):
            rev = any(p[k] in p[:k] and dump.nets[p[k]].op == 'm' and k > 0 and dump.nets[p[k - 1]].op == '@'
                      for k in range(len(p)))
            wires_seen = [s] + [dump.nets[k].dests[0] for k in p if dump.nets[k].dests]
            back = any(x is s for x in wires_seen[1:-1]) or (s is not d and wires_seen[-1] is s)
            if rev:
                viol('paths:readport-revisited',
                     '%s: [%s][%s] holds a non-simple path: after a memory write net the read port is '
                     'appended without the `not in curr_path` test, so a read net occurs twice' % (how, s.name, d.name), rep)
            elif back:
                viol('paths:walk-through-src',
                     '%s: [%s][%s] holds a walk that comes back to the source wire before reaching the '
                     'destination (not a simple path)' % (how, s.name, d.name), rep)
            else:
                viol('paths:extra-other', '%s: [%s][%s] holds a path that is not a simple src->dst path'
                     % (how, s.name, d.name), rep)

    def same_keys(res, srcs, dsts, how):
        ok = (len(res) == len(srcs) and all(any(k is x for x in srcs) for k in res)
              and all(len(res[k]) == len(dsts) and all(any(e is x for x in dsts) for e in res[k]) for k in res))
        if not ok:
            viol('paths:result-keys', '%s: the result is not keyed by exactly the requested sources x destinations' % how,
                 {'call': how, 'sources': [w.name for w in srcs], 'destinations': [w.name for w in dsts],
                  'got': {k.name: sorted(e.name for e in res[k]) for k in res}})
        return ok

    for (s, d), got in zip(queries, impl_paths):
        check_pair(s, d, got, 'paths(%s, %s)' % (s.name, d.name))

    # every argument shape: collections for src and dst (list / set / tuple, the source also among
    # the destinations whenever the design has loops), and the None defaults
    def dedupe(ws):
        out = []
        for x in ws:
            if not any(x is y for y in out):
                out.append(x)
        return out
    loops = [s for s, d in queries if s is d][:2]
    others = [(s, d) for s, d in queries if s is not d][:2]
    msrc = dedupe(loops + [s for s, _ in others])
    mdst = dedupe(loops + [d for _, d in others])
    # every documented argument kind (Iterable[WireVector]): materialised collections and
    # one-shot iterables, chosen independently for src and dst
    skind, smake = ARG_KINDS[(i // len(ARG_KINDS) + i) % len(ARG_KINDS)]
    dkind, dmake = ARG_KINDS[i % len(ARG_KINDS)]
    impl_multi = []
    if msrc and mdst:
        single = (len(msrc) == 1 and i % 2 == 1)
        srcarg = msrc[0] if single else smake(msrc)
        how = 'paths(%s, %s(%s))' % (msrc[0].name if single else '%s(%s)' % (
            skind, ', '.join(w.name for w in msrc)), dkind, ', '.join(w.name for w in mdst))
        ctx.count('paths() argument kinds (src / dst)', '%s / %s' % ('single wire' if single else skind, dkind))
        res = pyrtl.paths(srcarg, dmake(mdst), **bk)
        if same_keys(res, msrc, mdst, how):
            for s in msrc:
                row = []
                for d in mdst:
                    check_pair(s, d, res[s][d], how)
                    row.append((wid[d], sorted(tuple(nix[n] for n in p) for p in res[s][d])))
                impl_multi.append((wid[s], row))
            ctx.count('multi-wire paths() call', 'source also a destination'
                      if any(x is y for x in msrc for y in mdst) else 'disjoint')
    all_in = [w for w in dump.wires if isinstance(w, pyrtl.Input)]
    all_out = [w for w in dump.wires if isinstance(w, pyrtl.Output)]
    rdef = pyrtl.paths(**bk)
    if same_keys(rdef, all_in, all_out, 'paths()'):
        for s, d in list(itertools.product(all_in, all_out))[:4]:
            check_pair(s, d, rdef[s][d], 'paths()')
    if queries:
        s0, d0 = queries[i % len(queries)]
        r1 = pyrtl.paths(s0, **bk)
        if same_keys(r1, [s0], all_out, 'paths(%s)' % s0.name):
            for d in all_out[:2]:
                check_pair(s0, d, r1[s0][d], 'paths(%s)' % s0.name)
        r2 = pyrtl.paths(dst=d0, **bk)
        if same_keys(r2, all_in, [d0], 'paths(dst=%s)' % d0.name):
            for s in all_in[:2]:
                check_pair(s, d0, r2[s][d0], 'paths(dst=%s)' % d0.name)
    any_path = any_path[0]

    # ---- order independence (seeded worklist hook in Block.__iter__)
    if os.environ.get('PYRTL_VERIF') == '1':
        orders = {tuple(nix[n] for n in order if n.op not in 'r@')}
        for k in (1, 2):
            os.environ['PYRTL_VERIF_ITER_SEED'] = '%d-%d' % (i, k)
            try:
                tb = TimingAnalysis(gate_delay_funcs=delay_funcs(tab, dk), **bk)
            finally:
                del os.environ['PYRTL_VERIF_ITER_SEED']
            orders.add(tuple(nix[n] for n in net_order(block, tb) if n.op not in 'r@'))
            if [unscale(tb.timing_map.get(w)) for w in dump.wires] != impl_tm:
                viol('timing:order-dependent', 'timing_map depends on the topological order used', {})
        ctx.count('distinct topological orders tried', len(orders))

    # ---- default (float) table: delay-free facts only
    td = TimingAnalysis(**bk)
    dm = td.timing_map
    okd = all(dm[w] == 0 for w in dm if isinstance(w, SRC_TYPES)) and td.max_length() == max(dm.values())
    for n in g.nets:
        if n.op in 'wcs':
            okd = okd and dm[n.dests[0]] == max(dm[a] for a in n.args)
        elif n.op not in 'r@':
            okd = okd and dm[n.dests[0]] >= max(dm[a] for a in n.args)
    dcps, _ = quiet(td.critical_path, print_cp=False, cp_limit=20)
    for fw, p in dcps:
        cur = fw
        for n in p:
            okd = okd and any(a is cur for a in n.args) and dm[cur] == max(dm[a] for a in n.args)
            cur = n.dests[0]
        okd = okd and isinstance(fw, SRC_TYPES) and dm[cur] == td.max_length()
    if not okd:
        viol('timing:default-table-facts', 'default-table TimingAnalysis violates a delay-free fact', {})
    # the documented default delays: every wire = longest path under the default table, where the
    # delay of a memory read is the documented function of the memory's bits and of
    # ports = max(#read nets, #write nets) of that memory in the netlist
    lpd = default_longest(g)
    for w in dump.wires:
        if not close(dm[w], lpd(w)):
            viol('timing:default-delays', 'default-table timing_map[%s] = %r, longest path under the documented '
                 'default gate delays = %r' % (w.name, dm[w], lpd(w)),
                 {'wire': w.name, 'expected': lpd(w), 'got': dm[w],
                  'memories(name: max_read_ports, max_write_ports, #read nets, #write nets)': {
                      m.name: [m.max_read_ports, m.max_write_ports, len(g.readports.get(k, [])),
                               len(g.writeports.get(k, []))] for k, m in sorted(dump.mems.items())}})
            break
    dmax = max(lpd(w) for w in dump.wires)
    if not close(td.max_length(), dmax) or not close(td.max_freq(), 1e6 / (dmax + 189 + 194)):
        viol('timing:default-max', 'default-table max_length/max_freq = %r/%r, expected %r/%r'
             % (td.max_length(), td.max_freq(), dmax, 1e6 / (dmax + 189 + 194)), {})
    impl_mem = []
    helper = getattr(pa, '_bits_ports_and_isrom_from_memory', None)
    for memid, mem in sorted(dump.mems.items()):
        exp = mem_shape(g, memid, mem)
        if helper is None:
            ctx.count('memory shape helper', 'absent')
            impl_mem.append((memid, (exp[0], exp[1], int(exp[2]))))
            continue
        got = tuple(helper(mem))
        impl_mem.append((memid, (got[0], got[1], int(got[2]))))
        ctx.count('memory ports (declared max_read/max_write : read nets/write nets)',
                  '%s/%s : %d/%d' % (mem.max_read_ports, mem.max_write_ports,
                                     len(g.readports.get(memid, [])), len(g.writeports.get(memid, []))))
        if (got[0], got[1], bool(got[2])) != exp:
            viol('timing:memory-shape', 'memory %s: (bits, ports, is_rom) used for the default delay = %r, the netlist '
                 'has %r (ports = max(#read nets, #write nets))' % (mem.name, got, exp),
                 {'memory': mem.name, 'max_read_ports': mem.max_read_ports, 'max_write_ports': mem.max_write_ports,
                  'expected': list(exp), 'got': list(got)})

    # ---- float delays, EXACTLY: (1) the default table, (2) a custom table of awkward floats.
    # spec: timing_map[w] == max over explicitly enumerated source paths of the left-to-right float
    # sum (C17_timing_is_longest_path_ordered at D = binary64); every critical path sums to
    # max_length (==).  tie: TimingOrd.v evaluated in Coq's primitive floats on the same delays.
    utab = ugly_float_table(rng)
    tu = TimingAnalysis(gate_delay_funcs={
        ch: ((lambda mem, a=a, b=b: a + b * mem.id) if ch == 'm' else (lambda width, a=a, b=b: a + b * width))
        for ch, (a, b) in utab.items()}, **bk)
    fruns = []
    for label, tf, dfun in (('default table', td, lambda n: default_delay(g, n)),
                            ('custom float table', tu, lambda n: ugly_delay(utab, n))):
        fbudget = [60000]
        try:
            for w in dump.wires:
                sums = float_path_sums(g, dfun, w, fbudget)
                exp = max(sums) if sums else None
                got = tf.timing_map.get(w)
                if exp is None or got is None or not (got == exp):
                    viol('timing:float-not-longest-path',
                         '%s: timing_map[%s] = %r, max over all source paths of the left-to-right float sum = %r'
                         % (label, w.name, got, exp), {'table': label, 'wire': w.name, 'expected': exp, 'got': got,
                                                       'custom_float_table(op:(a,b) => a+b*width)': utab})
                    break
            ctx.count('float longest-path oracle', 'explicit enumeration')
        except TooBig:
            ctx.count('float longest-path oracle', 'skipped (too many paths)')
        # float results do not depend on the topological order either
        # (C17_timing_order_independent_ordered): re-run under a seeded worklist order
        if os.environ.get('PYRTL_VERIF') == '1':
            os.environ['PYRTL_VERIF_ITER_SEED'] = 'f%d-%s' % (i, label[0])
            try:
                if label == 'default table':
                    tf2 = TimingAnalysis(**bk)
                else:
                    tf2 = TimingAnalysis(gate_delay_funcs={
                        ch: ((lambda mem, a=a, b=b: a + b * mem.id) if ch == 'm'
                             else (lambda width, a=a, b=b: a + b * width))
                        for ch, (a, b) in utab.items()}, **bk)
            finally:
                del os.environ['PYRTL_VERIF_ITER_SEED']
            if not all(tf2.timing_map.get(w) == tf.timing_map.get(w) for w in dump.wires):
                viol('timing:order-dependent', '%s: the float timing_map depends on the topological order used'
                     % label, {'table': label, 'custom_float_table(op:(a,b) => a+b*width)': utab})
        fmax = tf.max_length()
        if not (fmax == max(tf.timing_map.values())):
            viol('max_length', '%s: max_length() is not the largest timing_map value' % label, {})
        fcps, fprinted = quiet(tf.critical_path, print_cp=False, cp_limit=cp_limit)
        for fw, p in fcps:
            t = 0
            cur = fw
            okp = isinstance(fw, SRC_TYPES)
            for n in p:
                okp = okp and any(a is cur for a in n.args) and dfun(n) >= 0
                t = t + dfun(n)
                cur = n.dests[0] if n.dests else None
            if not okp or not (t == fmax):
                viol('critical_path:float-sum', '%s: a returned critical path from %s sums (left to right, in '
                     'floats) to %r, max_length = %r' % (label, fw.name, t, fmax),
                     {'table': label, 'path': net_strs(p), 'custom_float_table(op:(a,b) => a+b*width)': utab})
                break
        fruns.append(dict(label=label,
                          tm=[tf.timing_map.get(w) for w in dump.wires], keys=[wid[w] for w in tf.timing_map],
                          mx=fmax, cp=[(wid[fw], [nix[n] for n in p]) for fw, p in fcps],
                          hit='limit reached' in fprinted,
                          expr='c17_float_case %s [%s] %d' % (
                              dump.coq(), '; '.join(float_lit(dfun(n)) for n in dump.nets), cp_limit)))

    # ---- max_freq (spec: exact rational formula; model: translated formula)
    tech = rng.choice([7, 45, 65, 130, 250, 1000, rng.randint(1, 500)])
    ff = rng.choice([None, None, 0, 50, 383, rng.randint(1, 2000)])
    if not (impl_max == 0 and ff == 0):
        got = ta.max_freq(tech_in_nm=tech, ffoverhead=ff) if ff is not None else ta.max_freq(tech_in_nm=tech)
        scale = Fraction(130, tech)
        lmax = Fraction(exp_max) * Fraction(2) ** dk
        period = scale * (lmax + 189 + 194) if ff is None else scale * lmax + ff
        exp = Fraction(10 ** 6) / period
        if abs(Fraction(got) - exp) > exp * Fraction(1, 10 ** 12):
            viol('max_freq', 'max_freq(%r,%r) = %r, documented function of max_length gives %r'
                 % (tech, ff, got, float(exp)), {'tech_in_nm': tech, 'ffoverhead': ff, 'max_length': exp_max})
        lq = '(%d # 1)' % (impl_max << dk) if dk >= 0 else '(%d # %d)' % (impl_max, 1 << -dk)
        fq_exprs.append('let q := Qred (max_freq_formula %s (%d # 1) %s) in (Qnum q, Zpos (Qden q))'
                        % (lq, tech, 'None' if ff is None else '(Some (%d # 1))' % ff))
        fq_cases.append((i, got, tech, ff, impl_max))

    # ---- queue the model evaluation
    exprs.append('c17_case %s %s %d %s %s %s' % (dump.coq(), coq_table(tab), cp_limit,
                                                 nlx.pairs([(wid[s], wid[d]) for s, d in queries]),
                                                 nlx.zlist([wid[w] for w in msrc] if impl_multi else []),
                                                 nlx.zlist([wid[w] for w in mdst] if impl_multi else [])))
    ncomb = sum(1 for n in g.nets if n.op not in 'r@')
    cases.append(dict(i=i, kind=kind, style=style, rep=base_rep, impl_tm=impl_tm, impl_keys=impl_keys,
                      impl_max=impl_max, impl_cp=impl_cp, impl_fan=impl_fan, limit_hit=limit_hit,
                      impl_mem=impl_mem, impl_multi=impl_multi, fruns=fruns,
                      wire_names=[w.name for w in dump.wires],
                      impl_paths=[sorted(tuple(nix[n] for n in p) for p in ps) for ps in impl_paths],
                      queries=[(s.name, d.name) for s, d in queries], cp_limit=cp_limit,
                      nbase=sum(1 for w in ta.timing_map if isinstance(w, SRC_TYPES)),
                      nontrivial=(ncomb >= 3 and impl_max > 0 and any_path),
                      key=(tuple(net_strs(dump.nets)), tuple(sorted(tab.items())),
                           tuple((s.name, d.name) for s, d in queries))))
    ctx.count('design kind', kind)
    ctx.count('queried while', 'not the working block' if foreign else 'working block')
    ctx.count('delay table style', style)
    ctx.count('delay scale', '2**%d' % dk)
    ctx.count('nets', min(len(g.nets) // 5 * 5, 40))
    ctx.count('cp_limit reached', limit_hit)
    ctx.count('critical paths returned', min(len(cps), 10))
    ctx.count('registers', sum(1 for n in g.nets if n.op == 'r'))
    ctx.count('memory write ports', sum(1 for n in g.nets if n.op == '@'))
    for n in g.nets:
        ctx.count('ops', n.op)
        if len(n.args) != len(set(id(a) for a in n.args)):
            ctx.count('nets with a repeated argument', n.op)


def history_case(ctx, i, found):
    """the analyses on a design that GROWS between calls: analyse, add logic (further read and write ports on the
    memories that were already analysed, gates on existing wires, a new memory), analyse again -- each analysis must be
    the graph-theoretic definition on the netlist as it is at that moment (nothing remembered from an earlier call).
    Oracle: default_longest / brute-force fan-out and simple paths on a fresh Graph of the current block."""
    rng = ctx.sub_rng('history', i)
    pyrtl.reset_working_block()
    block = pyrtl.working_block()
    ins = [pyrtl.Input(rng.randint(2, 6), 'hi%d' % k) for k in range(3)]
    aw = rng.randint(1, 3)
    mems = [pyrtl.MemBlock(bitwidth=rng.randint(2, 9), addrwidth=aw, name='hm%d' % k, asynchronous=True,
                           max_read_ports=None, max_write_ports=None) for k in range(2)]
    if rng.random() < 0.7:
        mems.append(pyrtl.RomBlock(bitwidth=rng.randint(2, 9), addrwidth=aw, name='hrom', asynchronous=True,
                                   romdata=[rng.randrange(4) for _ in range(2 ** aw)], max_read_ports=None))
    nout = [0]

    def addr():
        w = rng.choice(ins)
        return w[:aw] if len(w) >= aw else w.zero_extended(aw)

    def grow():
        for _ in range(rng.randint(1, 3)):
            m = rng.choice(mems)
            o = pyrtl.Output(m.bitwidth, 'ho%d' % nout[0])
            nout[0] += 1
            rd = m[addr()]
            o <<= rd ^ rng.choice(ins)[:1].zero_extended(m.bitwidth) if rng.random() < 0.5 else rd
        if rng.random() < 0.6:
            m = rng.choice([m for m in mems if not isinstance(m, pyrtl.RomBlock)])
            d = rng.choice(ins)
            m[addr()] <<= d[:m.bitwidth] if len(d) >= m.bitwidth else d.zero_extended(m.bitwidth)
        if rng.random() < 0.5:
            a, b = rng.choice(ins), rng.choice(ins)
            w = max(len(a), len(b))
            o = pyrtl.Output(w + 1, 'ho%d' % nout[0])
            nout[0] += 1
            o <<= a.zero_extended(w) + b.zero_extended(w)

    grow()
    for stage in range(3 if ctx.tier == 'quick' else 5):
        g = Graph(block)
        rep = {'seed': ctx.seed, 'history_case': i, 'stage': stage, 'tier': ctx.tier, 'nets': net_strs(g.nets),
               'memories(name: #read nets, #write nets)': {m.name: [len(g.readports.get(m.id, [])),
                                                                    len(g.writeports.get(m.id, []))] for m in mems}}

        def viol(sig, what, extra):
            size = len(g.nets) + 1000 * stage
            if sig not in found or found[sig][0] > size:
                found[sig] = (size, what, dict(rep, **extra))
        try:
            td = TimingAnalysis()
        except Exception as e:
            viol('timing:raises', 'TimingAnalysis raised %r on an API-built design (analysis #%d of a growing block)'
                 % (e, stage + 1), {})
            return
        lpd = default_longest(g)
        wires = sorted(block.wirevector_set, key=lambda w: w.name)
        ctx.case(('history', i, stage), nontrivial=True,
                 sample={'history_case': i, 'stage': stage, 'memories': rep['memories(name: #read nets, #write nets)']}
                 if i == 0 else None)
        ctx.count('history stages (analysis number on the same growing block)', stage + 1)
        for w in wires:
            if w not in td.timing_map or not close(td.timing_map[w], lpd(w)):
                viol('timing:default-delays', 'analysis #%d of a block that grew since the previous analysis: default-table '
                     'timing_map[%s] = %r, longest path under the documented default gate delays on the CURRENT netlist = %r'
                     % (stage + 1, w.name, td.timing_map.get(w), lpd(w)),
                     {'wire': w.name, 'expected': lpd(w), 'got': td.timing_map.get(w)})
                break
        dmax = max(lpd(w) for w in wires)
        if not close(td.max_length(), dmax):
            viol('timing:default-max', 'analysis #%d of a growing block: max_length %r, expected %r'
                 % (stage + 1, td.max_length(), dmax), {})
        for w in wires:
            fo = pa.fanout(w)
            exp = sum(1 for n in g.nets for a in n.args if a is w)
            if fo != exp:
                viol('fanout:wrong', 'analysis #%d of a growing block: fanout(%s) = %r, the netlist has %d reads'
                     % (stage + 1, w.name, fo, exp), {'wire': w.name})
                break
        outs = [w for w in wires if isinstance(w, pyrtl.Output)]
        for s_ in ins:
            d_ = rng.choice(outs)
            try:
                got = pyrtl.paths(s_, d_)[s_][d_]
                exp = simple_paths(g, s_, d_, [20000])
            except TooBig:
                continue
            if sorted(tuple(id(n) for n in p) for p in got) != sorted(tuple(id(n) for n in p) for p in exp):
                viol('paths:wrong-set', 'analysis #%d of a growing block: paths(%s, %s) returns %d paths, the netlist has %d '
                     'simple paths' % (stage + 1, s_.name, d_.name, len(got), len(exp)), {'src': s_.name, 'dst': d_.name})
        grow()


def run(ctx, only=None):
    n = 100 if ctx.tier == 'quick' else 1500
    found, exprs, cases, fq_exprs, fq_cases = {}, [], [], [], []
    for i in (only if only is not None else range(n)):
        marks = (len(exprs), len(cases), len(fq_exprs), len(fq_cases))
        try:
            analyse(ctx, i, found, exprs, cases, fq_exprs, fq_cases)
        except Exception as e:   # one bad case must not abort the run (nor desynchronise the queues)
            del exprs[marks[0]:], cases[marks[1]:], fq_exprs[marks[2]:], fq_cases[marks[3]:]
            import traceback
            tb = traceback.format_exc()[-1500:]
            ctx.count('cases that raised', type(e).__name__)
            if isinstance(e, (pyrtl.PyrtlError, pyrtl.PyrtlInternalError, KeyError, ValueError, TypeError,
                              ZeroDivisionError, RecursionError)) and 'pyrtl/' in tb.replace('\\', '/'):
                sig = 'analysis-raises:%s' % type(e).__name__
                if sig not in found:
                    found[sig] = (0, 'an analysis entry point raised %s: %s on an API-built design (case %d)'
                                  % (type(e).__name__, e, i), {'seed': ctx.seed, 'case': i, 'tier': ctx.tier,
                                                                'traceback': tb})
            else:
                ctx.model_mismatch('harness error in case %d: %s' % (i, tb), {'seed': ctx.seed, 'case': i})
    if only is None or any(isinstance(k, str) for k in only):
        for hi in range(8 if ctx.tier == 'quick' else 80):
            try:
                history_case(ctx, hi, found)
            except Exception as e:
                import traceback
                ctx.model_mismatch('harness error in history case %d: %s' % (hi, traceback.format_exc()[-1200:]),
                                   {'seed': ctx.seed, 'history_case': hi})
        pyrtl.reset_working_block()
    for sig, (size, what, rep) in sorted(found.items()):
        ctx.spec_violation(sig, what, rep)

    # ---- tie: implementation vs Coq model
    try:
        results = ctx.coq_eval(exprs, IMPORTS, tag='c17', shard=10 if ctx.tier == 'quick' else 40, jobs=12)
    except Exception as e:
        results = None
        ctx.model_mismatch('Analysis model could not be evaluated: %s' % str(e)[-800:], {})
    for ci, c in enumerate(cases):
        sample = None
        if ci < 3:
            sample = {'case': c['i'], 'kind': c['kind'], 'nets': c['rep']['nets'][:8],
                      'table_style': c['style'], 'max_length': c['impl_max'],
                      'queries': c['queries'][:4], 'n_paths': [len(p) for p in c['impl_paths'][:4]]}
        ctx.case(c['key'], nontrivial=c['nontrivial'], sample=sample)
        if results is None:
            continue
        wf, m_tm, m_keys, m_max, m_cp, m_fan, m_paths, m_mem, m_multi = results[ci]
        rep = dict(c['rep'], queries=c['queries'])
        if wf != 1:
            ctx.model_mismatch('a hypothesis of the C17 theorems (wfb / delays negative exactly on r,@ / register '
                               'nets drive registers / single driver) is false on the dump of an API-built '
                               'design (case %d)' % c['i'], rep)
        bad = []
        if list(m_tm) != c['impl_tm']:
            bad.append(('timing_map', list(m_tm), c['impl_tm']))
        nb = c['nbase']
        if sorted(m_keys[:nb]) != sorted(c['impl_keys'][:nb]) or list(m_keys[nb:]) != c['impl_keys'][nb:]:
            bad.append(('timing_map key order', list(m_keys), c['impl_keys']))
        if m_max != c['impl_max']:
            bad.append(('max_length', m_max, c['impl_max']))
        mcp = [(x, list(p)) for x, p in m_cp]
        if c['impl_max'] > 0:
            if mcp != c['impl_cp']:
                bad.append(('critical_path', mcp, c['impl_cp']))
        elif not c['limit_hit'] and len(c['impl_cp']) < c['cp_limit']:
            if sorted(mcp) != sorted(c['impl_cp']):
                bad.append(('critical_path (as multiset, max_length=0)', mcp, c['impl_cp']))
        if list(m_fan) != c['impl_fan']:
            bad.append(('fanout', list(m_fan), c['impl_fan']))
        mp = [sorted(tuple(p) for p in ps) for ps in m_paths]
        if mp != c['impl_paths']:
            k = [a != b for a, b in zip(mp, c['impl_paths'])].index(True)
            bad.append(('paths%r' % (c['queries'][k],), mp[k], c['impl_paths'][k]))
        mm = [(k, tuple(v)) for k, v in m_mem]
        if mm != [(k, tuple(v)) for k, v in c['impl_mem']]:
            bad.append(('memory (bits, ports, is_rom)', mm, c['impl_mem']))
        mmu = [(x, [(y, sorted(tuple(p) for p in ps)) for y, ps in row]) for x, row in m_multi]
        if mmu != c['impl_multi']:
            bad.append(('paths() with collections', mmu, c['impl_multi']))
        for what, model, impl in bad:
            ctx.model_mismatch('pyrtl.analysis and the Coq model disagree on %s (case %d)' % (what, c['i']),
                               dict(rep, model=model, impl=impl))
    # ---- tie in float arithmetic: TimingOrd.v at D = binary64 (Coq primitive floats)
    fjobs = [(c, fr) for c in cases for fr in c['fruns']]
    if fjobs:
        try:
            fres = ctx.coq_eval([fr['expr'] for _, fr in fjobs], IMPORTS + '\nFrom Coq Require Import Floats.',
                                tag='c17float', shard=10 if ctx.tier == 'quick' else 40, jobs=12)
        except Exception as e:
            fres = None
            ctx.model_mismatch('Analysis/TimingOrd.v (float instance) could not be evaluated: %s' % str(e)[-800:], {})
        for (c, fr), res in zip(fjobs, fres or []):
            m_tm, m_keys, m_mx, m_cp = res
            rep = dict(c['rep'], table=fr['label'])
            bad = []
            mt = [None if v is None else pair_value(v) for v in m_tm]
            it = [None if v is None else Fraction(v) for v in fr['tm']]
            if mt != it:
                k = [a != b for a, b in zip(mt, it)].index(True)
                bad.append(('timing_map[%s]' % c['wire_names'][k], str(mt[k]), repr(fr['tm'][k])))
            nb = c['nbase']
            if sorted(m_keys[:nb]) != sorted(fr['keys'][:nb]) or list(m_keys[nb:]) != fr['keys'][nb:]:
                bad.append(('timing_map key order', list(m_keys), fr['keys']))
            if pair_value(m_mx) != Fraction(fr['mx']):
                bad.append(('max_length', str(pair_value(m_mx)), repr(fr['mx'])))
            mcp = [(x, list(p)) for x, p in m_cp]
            if fr['mx'] > 0:
                if mcp != fr['cp']:
                    bad.append(('critical_path', mcp, fr['cp']))
            elif not fr['hit'] and len(fr['cp']) < c['cp_limit']:
                if sorted(mcp) != sorted(fr['cp']):
                    bad.append(('critical_path (as multiset, max_length=0)', mcp, fr['cp']))
            for what, model, impl in bad:
                ctx.model_mismatch('TimingAnalysis with float delays (%s) and the Coq model at D = binary64 '
                                   'disagree on %s (case %d)' % (fr['label'], what, c['i']),
                                   dict(rep, model=model, impl=impl))
        ctx.count('float-arithmetic model comparisons', 'done', len(fres or []))
    if fq_exprs:
        try:
            fr = ctx.coq_eval(fq_exprs, IMPORTS_FREQ, tag='c17freq', shard=200, jobs=4)
        except Exception as e:
            fr = None
            ctx.model_mismatch('Gen/TimingFormula.v could not be evaluated: %s' % str(e)[-800:], {})
        if fr is not None:
            for (i, got, tech, ff, mx), (num, den) in zip(fq_cases, fr):
                mod = Fraction(num, den)
                if abs(Fraction(got) - mod) > abs(mod) * Fraction(1, 10 ** 12):
                    ctx.model_mismatch('max_freq and the translated formula disagree (case %d)' % i,
                                       {'tech_in_nm': tech, 'ffoverhead': ff, 'max_length': mx,
                                        'impl': got, 'model': float(mod)})


def replay(ctx, data):
    rep = data.get('replay', data)
    print('replaying case %r (%s)' % (rep.get('case', rep.get('history_case')), rep.get('kind')))
    if 'history_case' in rep:
        found = {}
        history_case(ctx, rep['history_case'], found)
        for sig, (size, what, r) in sorted(found.items()):
            ctx.spec_violation(sig, what, r)
        return
    run(ctx, only=[rep['case']])
