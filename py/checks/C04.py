"""C04: optimize() and its constituent passes preserve observable behaviour.

For seeded designs (gen_designs + C04-specific structure: constants and constant
sub-expressions, 1-bit gates with one constant input, duplicated sub-expressions
with swapped arguments for commutative and non-commutative ops, duplicated Const
objects, registers whose next value is a compile-time constant, logic feeding
only memory writes, dead logic, wire / full-slice chains) in four forms
(word-level, synthesize'd, nand_synth'd, and_inverter_synth'd), each of six
passes is run by the REAL implementation once and twice:

 (search) Output traces of the real result under pyrtl.Simulation vs the Coq
          reference semantics (spec_case) of the ORIGINAL design, same inputs,
          same initial register/memory state under the sanctioned steady-state
          proviso; Input/Output name sets kept; sanity_check() passes;
 (tie)    the Coq model of the pass (Pass/Opt.v, using the folding tables
          regenerated from the source) applied to the dump of the original:
          its result netlist must equal the real result structurally (exactly
          for the deterministic passes, modulo the CSE representative for the
          others) and its Output traces must equal the real ones."""
import contextlib
import random
import io
import traceback

import pyrtl
from pyrtl import passes as ppasses

import gen_designs
import nlx

RULE = ('seeded designs = gen_designs.make_design + C04 structure (const exprs, one-const 1-bit gates, '
        'swapped-argument duplicates of & | ^ nand + * == - < > concat mux, duplicated Const objects, '
        'registers of constants and chains of them, write-only memory logic, dead logic, w / full-slice chains) '
        'plus 18 directed witnesses (multi-bit constant nand, duplicate constant memory writes, swapped non-commutative ops, '
        'memory writes with constant data / constant enables read back, duplicated sub-expressions consumed by nets reading them in several argument positions, Inputs whose whole fan-out is dead, RomBlocks of every construction form (list / dict / function, partial, pad_with_zeros) read beyond their data, comparisons against constants on either side with Input / Register / wire left operands (1 bit included, API and raw nets), strided / reversed / repeated-index slices of Consts, several distinct memories sharing one user-given name and shape, 1-bit identity-element folds driving Outputs directly (raw nets and after direct_connect_outputs), '
        'same-width permuting selects next to identity slices, word-level & | ^ nand against 0 / all-ones / middle constants) with fixed distinguishing stimulus; x form {word, synth, nand, aig} x pass {optimize, constant_propagation, '
        'common_subexp_elimination, _remove_wire_nets, _remove_slice_nets, _remove_unlistened_nets} x '
        'applications {1, 2}; plus, on every word-level design, every documented calling convention of optimize() (block= given / omitted, '
        'update_working_block True / False, skip_sanity_check, the block being / not being the working block after another design was built) '
        'with the returned block, the untouched original, the working block and the behaviour observed; '
        'translator tie: folding tables, op-class strings AND the whole per-net statement list of constant_prop_check are regenerated and proved equal to the model; a case is distinct by (design, form, pass, reps, output trace) and non-trivial '
        'when the pass changed the netlist (folded / merged / removed at least one net or wire) and at least one Output varies')
IMPORTS_SPEC = 'From PyRTL Require Import Netlist.Sem Netlist.WFDefs Netlist.SpecHarness.'
IMPORTS_MODEL = ('From PyRTL Require Import Netlist.Sem Netlist.WFDefs Netlist.SpecHarness '
                 'Pass.Opt Pass.OptHarness.')
COQ_TARGETS = ['theories/Netlist/SpecHarness.vo', 'theories/Pass/OptHarness.vo']
PROPS_FILES = ['theories/Props/C04.v', 'theories/Props/C04Tie.v']
TRUSTED = ['Pass/Opt.v: hand-written model of the pass DRIVERS of passes.py (producer-map second pass and '
           '_remove_unused_wires of _constant_prop_pass, the shrinking loops, wire/slice/dead-net removal, the CSE '
           'scan and replace_wires), tied structurally + behaviourally on every run.  The per-net logic of '
           '_constant_prop_pass is NOT hand-trusted any more: Gen/ConstPropCheck.v (cp_check_src) is regenerated '
           'statement by statement from constant_prop_check and its closures replace_net / replace_net_with_const / '
           'replace_net_with_wire, and C04_constprop_check_tie / C04_constprop_pass_tie prove it equal to the '
           'cp_decide / cp_apply / constant_prop_pass the preservation theorems are stated over; the folding tables '
           'and op-class strings (Gen/ConstFold.v) are regenerated too',
           'in the regenerated fragment: Const(bitwidth=w, val=v) stores v mod 2^w (const_encoding; C16 proves the '
           'Const encoding), and _constant_prop_error is a no-op (the pass is called silenced, as optimize does)',
           'steady-state proviso: registers the real pass eliminates start at the value the ORIGINAL design '
           'settles them to after (#registers + 1) cycles (their compile-time constant, if they have one)']
ASSUMPTIONS = ['the whole-pass preservation theorems (C04_optimize_preserves, C04_constant_propagation_preserves, '
               'C04_cse_preserves, C04_removal_stages, C04_optimize_twice_preserves) have DECIDABLE premises '
               '(optimize_ok, constant_propagation_ok, cse_ok, wire/slice/unlistened_stage_ok in Pass/OptCheck.v: wfb of '
               'every intermediate netlist, API width facts, producer-map resolution, Inputs/Outputs kept) and the decidable '
               'form of the steady-state hypothesis; they are evaluated in Coq on every (design, form, pass, application) '
               'whose model is evaluated, and a false premise is reported as a broken correspondence; that they hold of '
               'EVERY well-formed API-built netlist (C04_premises_always_hold_full_statement) is not proved',
               'designs are API-built: w / r nets and CSE-equal nets have equal-width destinations '
               '(sanity_check also accepts truncating ones; the passes are not exercised on those)',
               'ROM contents are tabulated at dump time',
               'set-iteration order is the one CPython produces under PYTHONHASHSEED=0; the model is '
               'order-independent up to the CSE representative']

PASSES = ['optimize', 'constant_propagation', 'common_subexp_elimination',
          '_remove_wire_nets', '_remove_slice_nets', '_remove_unlistened_nets']
PASS_CODE = {p: i for i, p in enumerate(PASSES)}
CSE_LIKE = {'optimize', 'common_subexp_elimination'}
PREMISE = {'optimize': 'optimize_ok', 'constant_propagation': 'constant_propagation_ok',
           'common_subexp_elimination': 'cse_ok', '_remove_wire_nets': 'wire_stage_ok',
           '_remove_slice_nets': 'slice_stage_ok', '_remove_unlistened_nets': 'unlistened_stage_ok'}
FORMS = ['word', 'synth', 'nand', 'aig']
COMMUTATIVE = set('&|^n+*=')
OPCODES = ['w', '~', '&', '|', '^', 'n', '+', '-', '*', '<', '>', '=', 'x', 'c', 's', 'r', 'm', '@']


def quiet():
    return contextlib.redirect_stdout(io.StringIO())


_DECOY = []


def apply_pass(name, block, foreign=False):
    """foreign=True: the pass is called on `block` while ANOTHER (unrelated, non-empty) design is the working block -- every
    pass takes the block to work on as an argument, so nothing it does may go through the working block"""
    if foreign and name != 'optimize':
        if not _DECOY:
            decoy = pyrtl.Block()
            with pyrtl.set_working_block(decoy, no_sanity_check=True):
                x = pyrtl.Input(3, 'decoy_in')
                o = pyrtl.Output(4, 'decoy_out')
                o <<= (x + x) & (x + x)
            _DECOY.append(decoy)
        target = _DECOY[0]
    else:
        target = block
    with quiet():
        with pyrtl.set_working_block(target, no_sanity_check=True):
            if name == 'optimize':
                pyrtl.optimize(block=block)
            elif name == 'constant_propagation':
                ppasses.constant_propagation(block, True)
            elif name == 'common_subexp_elimination':
                ppasses.common_subexp_elimination(block)
            elif name == '_remove_wire_nets':
                ppasses._remove_wire_nets(block)
            elif name == '_remove_slice_nets':
                ppasses._remove_slice_nets(block)
            elif name == '_remove_unlistened_nets':
                ppasses._remove_unlistened_nets(block)
            else:
                raise ValueError(name)


# ------------------------------------------------------------------ designs

def make_rom_reads(rng, d, fresh, operand, maxw, addr=None):
    """one RomBlock in a random construction form (list / dict / function data, full or partial,
    pad_with_zeros True / False) read at a data-dependent address and at a constant address in the
    upper half (beyond partial data); reads beyond the data only when padding makes them legal"""
    aw = rng.randint(1, 3)
    bw = min(rng.choice([1, 2, 4, 8]), max(maxw, 1))
    size = 1 << aw
    vals = [gen_designs.boundary_value(rng, bw) | (1 if rng.random() < 0.5 else 0) for _ in range(size)]
    form = rng.choice(['list', 'dict', 'func', 'list-partial', 'dict-partial', 'dict-sparse'])
    pad = form.endswith(('partial', 'sparse')) or rng.random() < 0.3
    keep = size if not form.endswith(('partial', 'sparse')) else rng.randint(1, size - 1)
    if form.startswith('list'):
        data = vals[:keep]
    elif form == 'dict-sparse':
        ks = sorted(rng.sample(range(size), keep))
        data = {a: vals[a] for a in ks}
    elif form.startswith('dict'):
        data = {a: vals[a] for a in range(keep)}
    else:
        data = (lambda vs: (lambda a: vs[a]))(vals)
    rom = pyrtl.RomBlock(bitwidth=bw, addrwidth=aw, romdata=data, name=fresh('rom'),
                         max_read_ports=None, asynchronous=True, pad_with_zeros=pad)
    d.roms.append(rom)
    d.ops.append('c04:rom:%s:pad=%s' % (form, pad))
    a = addr if addr is not None else operand(aw)
    a = a[:aw] if len(a) >= aw else a.zero_extended(aw)
    res = [pyrtl.as_wires(rom[a]), pyrtl.as_wires(rom[pyrtl.Const(size - 1, bitwidth=aw)])]
    return res


def extend_design(rng, d, heavy, maxw=8):
    """add the structure C04 is about to the working block of `d` (API only)"""
    block = d.block
    names = {'n': 0}

    def fresh(prefix):
        names['n'] += 1
        return 'c04%s%d' % (prefix, names['n'])

    pool = [w for w in sorted(block.wirevector_set, key=lambda w: w.name)
            if not isinstance(w, (pyrtl.Output, pyrtl.Const)) and len(w) <= 16]
    if not pool:
        return
    outs = []

    def wchoice(ws):
        return min(rng.choice(ws), maxw)

    def operand(width=None):
        w = rng.choice(pool)
        if width is not None:
            w = gen_designs.fit(rng, w, width)
        return w

    def konst(width, v=None):
        v = gen_designs.boundary_value(rng, width) if v is None else v
        return pyrtl.Const(v, bitwidth=width)

    def compare(op, a, b):
        return {'<': lambda: a < b, '>': lambda: a > b, '==': lambda: a == b, '!=': lambda: a != b,
                '<=': lambda: a <= b, '>=': lambda: a >= b}[op]()

    def binop(op, a, b):
        if op == '&':
            return a & b
        if op == '|':
            return a | b
        if op == '^':
            return a ^ b
        if op == 'n':
            return a.nand(b)
        if op == '+':
            return a + b
        if op == '*':
            return a * b
        if op == '=':
            return a == b
        if op == '-':
            return a - b
        if op == '<':
            return a < b
        if op == '>':
            return a > b
        if op == 'c':
            return pyrtl.concat(a, b)
        raise ValueError(op)

    kinds = ['constexpr', 'oneconst', 'swapdup', 'swapdup', 'samedup', 'constdup', 'regconst', 'dupselfuse',
             'deadinput', 'romforms', 'cmpconst', 'constslice', 'samenamemem',
             'memwrite', 'dead', 'chain', 'muxdup', 'constexpr', 'oneconst']
    n = rng.randint(5, 10) if heavy else rng.randint(2, 4)
    for _ in range(n):
        k = rng.choice(kinds)
        d.ops.append('c04:' + k)
        if k == 'constexpr':
            w = wchoice([1, 1, 2, 3, 4, 8])
            op = rng.choice('&|^n~')
            if op == '~':
                c = ~konst(w)
            else:
                c = binop(op, konst(w), konst(w))
            if rng.random() < 0.4:      # second level of constant logic
                op2 = rng.choice('&|^n')
                c = binop(op2, c, konst(w))
            t = binop(rng.choice('^&|+'), operand(w), c)
            pool.append(t)
            outs.append(t)
        elif k == 'oneconst':
            x = operand()
            b = x[rng.randrange(len(x))]
            c = konst(1, rng.randint(0, 1))
            op = rng.choice('&|^n')
            t = binop(op, b, c) if rng.random() < 0.5 else binop(op, c, b)
            pool.append(t)
            outs.append(t)
        elif k in ('swapdup', 'samedup'):
            w = wchoice([1, 2, 3, 4, 5])
            a, b = operand(w), operand(w)
            op = rng.choice('&|^n+*=-<>c')
            t1 = binop(op, a, b)
            t2 = binop(op, b, a) if k == 'swapdup' else binop(op, a, b)
            pool.extend([t1, t2])
            if rng.random() < 0.5:
                outs.extend([t1, t2])
            else:
                outs.append(pyrtl.concat(t1, t2))
        elif k == 'cmpconst':
            # comparisons against constants, constant on either side, left operand an Input,
            # a Register or a plain wire, narrow widths (1 bit included)
            w = wchoice([1, 1, 1, 2, 3])
            lk = rng.choice(['input', 'register', 'wire'])
            if lk == 'input':
                x = pyrtl.Input(w, fresh('cin'))
                d.inputs.append(x)
            elif lk == 'register':
                x = pyrtl.Register(w, fresh('cr'))
                x.next <<= operand(w)
                d.regs.append(x)
            else:
                x = operand(w) ^ operand(w)
            for _k in range(rng.randint(1, 3)):
                c = konst(w, rng.choice([0, (1 << w) - 1, rng.randrange(1 << w)]))
                op = rng.choice(['<', '>', '==', '!=', '<=', '>='])
                t = compare(op, x, c) if rng.random() < 0.6 else compare(op, c, x)
                pool.append(t)
                outs.append(t if rng.random() < 0.5 else t ^ operand(1))
        elif k == 'constslice':
            # strided / reversed / repeated-index / contiguous slices of a Const feeding further logic
            w = wchoice([2, 3, 4, 6, 8])
            key = konst(w)
            sl = rng.choice([slice(None, None, -1), slice(None, None, 2), slice(1, None, 2), slice(None, None, -2),
                             slice(1, None, None), slice(0, w - 1, None), slice(None, None, 3)])
            if rng.random() < 0.25:
                idx = tuple(rng.randrange(w) for _ in range(rng.randint(1, w)))
                t = pyrtl.WireVector(len(idx), fresh('cs'))
                block.add_net(pyrtl.LogicNet('s', idx, (key,), (t,)))
            else:
                t = key[sl]
            u = binop(rng.choice('^&|+'), operand(len(t)), t)
            pool.append(u)
            outs.append(u)
        elif k == 'samenamemem':
            # a "component" with an internally named memory, instantiated several times:
            # distinct memories sharing a user-given name and shape, with diverging contents
            aw = rng.randint(1, 2)
            bw = wchoice([2, 4])
            nm = fresh('buf')
            ra = operand(aw)
            for _k in range(rng.randint(2, 3)):
                m = pyrtl.MemBlock(bitwidth=bw, addrwidth=aw, name=nm, max_read_ports=None,
                                   max_write_ports=None, asynchronous=True)
                d.mems.append(m)
                en = operand()
                m[operand(aw)] <<= pyrtl.MemBlock.EnabledWrite(operand(bw) ^ konst(bw), en[rng.randrange(len(en))])
                rd = pyrtl.as_wires(m[ra])
                pool.append(rd)
                outs.append(rd)
        elif k == 'deadinput':
            # an Input whose whole fan-out is unobservable (or that nobody reads at all)
            w = wchoice([1, 2, 4])
            x = pyrtl.Input(w, fresh('din'))
            d.inputs.append(x)
            style = rng.random()
            if style < 0.4:
                r = pyrtl.Register(w, fresh('rd'))
                r.next <<= x                              # a register nobody reads
                d.regs.append(r)
            elif style < 0.7:
                t = ~x                                    # a dead wire
                t2 = t & operand(w)
            elif style < 0.85:
                pass                                      # an unused Input
            else:
                r = pyrtl.Register(w, fresh('rd'))
                r.next <<= r ^ x                          # a dead feedback loop
                d.regs.append(r)
        elif k == 'romforms':
            outs.extend(make_rom_reads(rng, d, fresh, operand, maxw))
        elif k == 'dupselfuse':
            w = wchoice([1, 2, 3])
            a, b = operand(w), operand(w)
            op = rng.choice('&|^n+-c')
            for t in (binop(op, a, b), binop(op, a, b)):
                use = rng.choice('*c&-^')
                u = (t * t) if use == '*' else binop(use, t, t)
                pool.append(u)
                outs.append(u)
        elif k == 'muxdup':
            w = wchoice([1, 2, 4])
            s = operand()
            s = s[rng.randrange(len(s))]
            a, b = operand(w), operand(w)
            t1 = pyrtl.select(s, a, b)
            t2 = pyrtl.select(s, b, a) if rng.random() < 0.6 else pyrtl.select(s, a, b)
            pool.extend([t1, t2])
            outs.extend([t1, t2])
        elif k == 'constdup':
            w = wchoice([1, 2, 3, 4])
            a = operand(w)
            v = gen_designs.boundary_value(rng, w)
            op = rng.choice('&|^n+*=-<>c')
            t1 = binop(op, a, konst(w, v))
            if rng.random() < 0.5:
                t2 = binop(op, a, konst(w, v))          # distinct Const object, same value
            else:
                t2 = binop(op, konst(w, v), a)          # constant on the other side
            pool.extend([t1, t2])
            outs.extend([t1, t2])
        elif k == 'regconst':
            w = wchoice([1, 1, 2, 4])
            c = gen_designs.boundary_value(rng, w)
            rv = None if rng.random() < 0.5 else gen_designs.boundary_value(rng, w)
            r = pyrtl.Register(w, fresh('rc'), reset_value=rv)
            style = rng.random()
            if style < 0.4:
                r.next <<= pyrtl.Const(c, bitwidth=w)
            elif style < 0.7:
                r.next <<= konst(w) & konst(w)         # folds to a constant first
            else:
                r.next <<= ~konst(w)
            d.regs.append(r)
            pool.append(r)
            outs.append(r)
            if rng.random() < 0.5:                      # a register of a register of a constant
                r2 = pyrtl.Register(w, fresh('rc'))
                r2.next <<= r
                d.regs.append(r2)
                pool.append(r2)
                outs.append(r2 ^ operand(w))
        elif k == 'memwrite':
            aw = rng.randint(1, 3 if heavy else 2)
            bw = wchoice([1, 2, 4])
            m = pyrtl.MemBlock(bitwidth=bw, addrwidth=aw, name=fresh('mem'),
                               max_read_ports=None, max_write_ports=None, asynchronous=True)
            d.mems.append(m)
            # logic whose only reader is the write port
            addr = operand(aw) ^ konst(aw)
            data = operand(bw) + konst(bw)
            data = data[:bw]
            en = operand()
            en = en[rng.randrange(len(en))] | konst(1, rng.randint(0, 1))
            m[addr] <<= pyrtl.MemBlock.EnabledWrite(data, en)
            rd = pyrtl.as_wires(m[operand(aw)])
            pool.append(rd)
            outs.append(rd)
        elif k == 'dead':
            w = wchoice([1, 2, 4])
            t = binop(rng.choice('&|^n+-'), operand(w), operand(w))
            t2 = ~t                                     # a dead chain of two
            if rng.random() < 0.4:                      # a dead register
                r = pyrtl.Register(len(t2), fresh('rd'))
                r.next <<= t2
                d.regs.append(r)
        elif k == 'chain':
            a = operand()
            w1 = pyrtl.WireVector(len(a), fresh('w'))
            w1 <<= a
            w2 = pyrtl.WireVector(len(a), fresh('w'))
            w2 <<= w1
            s = w2[0:len(a)]                            # full-width slice (identity)
            s2 = s[0:len(a)]
            pool.append(s2)
            outs.append(s2 if rng.random() < 0.5 else ~s2)
    for w in outs:
        o = pyrtl.Output(len(w), fresh('o'))
        o <<= w
        d.outputs.append(o)


def raw_select(src, idx, name):
    """a hand-built 's' net (what a netlist importer or a transform may produce)"""
    t = pyrtl.WireVector(len(idx), name)
    pyrtl.working_block().add_net(pyrtl.LogicNet('s', tuple(idx), (src,), (t,)))
    return t


def directed(kind):
    """hand-picked witnesses; every interesting wire feeds an Output, and `d.stimulus`
    (when set) is a fixed input sequence that distinguishes a wrong fold / removal"""
    pyrtl.reset_working_block()
    d = gen_designs.Design(pyrtl.working_block())
    d.stimulus = None
    d.meminit = None
    d.post_build = None
    outs = []
    if kind.startswith('wordconst_'):
        # word-level bitwise op against Const 0 / all-ones / a middle constant of the SAME
        # width (2..8), constant in either argument position: must NOT be folded by the
        # 1-bit one-constant rule
        op = kind[len('wordconst_'):]
        a = pyrtl.Input(8, 'a')
        d.inputs.append(a)

        def f(x, y):
            return {'and': x & y, 'or': x | y, 'xor': x ^ y, 'nand': x.nand(y)}[op]
        for w in range(2, 9):
            x = a[:w]
            top = (1 << w) - 1
            for c in (0, top, (0x5A >> (8 - w)) & top or 1):
                outs.append(f(x, pyrtl.Const(c, bitwidth=w)))
                outs.append(f(pyrtl.Const(c, bitwidth=w), x))
        outs.append(a[0:8] ^ a[:])           # full-width identity slices next to them
        d.stimulus = [{'a': v} for v in (0, 255, 0xA5, 0x5A, 1, 128, 0x3C, 0xC3, 0x0F, 0x96)]
    elif kind == 'perm_selects':
        # same-width selects that PERMUTE bits (must be kept) next to full-width identity
        # slices (must be removed), built via slices and via raw 's' nets
        a = pyrtl.Input(4, 'a')
        b = pyrtl.Input(3, 'b')
        c = pyrtl.Input(8, 'c')
        d.inputs += [a, b, c]
        outs += [a[::-1], a[::-1][::-1], ~a[::-1], b[::-1], c[::-1], c[::-1] ^ c,
                 raw_select(a, (0, 2, 1, 3), 'swz0'), raw_select(a, (1, 2, 3, 0), 'rotr'),
                 raw_select(a, (3, 0, 1, 2), 'rotl'), raw_select(a, (3, 2, 1, 0), 'rev4'),
                 raw_select(a, (2, 3, 0, 1), 'swp2'), raw_select(b, (2, 1, 0), 'rev3'),
                 raw_select(b, (1, 0, 2), 'swp3'), raw_select(b, (1, 2, 0), 'rot3'),
                 raw_select(c, (4, 5, 6, 7, 0, 1, 2, 3), 'nib'), raw_select(c, (1, 0, 3, 2, 5, 4, 7, 6), 'pair'),
                 raw_select(a, (0, 0, 1, 1), 'dup0'), raw_select(a, (1, 2, 3, 3), 'dup1'),
                 ~raw_select(a, (1, 0, 2, 3), 'swz1'),
                 # identities (these SHOULD be removed by _remove_slice_nets)
                 a[0:4], a[:], ~a[0:4], raw_select(a, (0, 1, 2, 3), 'id4'), raw_select(b, (0, 1, 2), 'id3'),
                 b[0:3] ^ b[::-1], c[0:8], raw_select(c, tuple(range(8)), 'id8')]
        d.stimulus = [{'a': i, 'b': (i * 3 + 1) % 8, 'c': (i * 37 + 1) % 256} for i in range(16)]
    elif kind == 'memwr_consts':
        # write ports whose DATA is a literal constant (0 / all-ones / middle) under an input
        # enable, and ports with constant ENABLES (1, 0, and the implicit 1 of an unconditional
        # write), each memory read back to an Output; memories start non-zero (d.meminit)
        wa = pyrtl.Input(2, 'wa')
        ra = pyrtl.Input(2, 'ra')
        en = pyrtl.Input(1, 'en')
        di = pyrtl.Input(4, 'di')
        d.inputs += [wa, ra, en, di]
        specs = [('z', pyrtl.Const(0, 4), en), ('f', pyrtl.Const(15, 4), en), ('m', pyrtl.Const(6, 4), en),
                 ('e1', di, pyrtl.Const(1, 1)), ('e0', di, pyrtl.Const(0, 1)),
                 ('z1', pyrtl.Const(0, 4), pyrtl.Const(1, 1)), ('u', pyrtl.Const(0, 4), None)]
        for nm, data, enable in specs:
            m = pyrtl.MemBlock(4, 2, 'mem_' + nm, max_read_ports=None, max_write_ports=None,
                               asynchronous=True)
            d.mems.append(m)
            if enable is None:
                m[wa] <<= data
            else:
                m[wa] <<= pyrtl.MemBlock.EnabledWrite(data, enable)
            outs.append(pyrtl.as_wires(m[ra]))
        d.meminit = lambda a: 9 + a
        d.stimulus = [{'wa': w, 'ra': r, 'en': e, 'di': (3 * w + 5) % 16}
                      for (w, r, e) in [(0, 0, 1), (1, 0, 0), (1, 1, 1), (2, 1, 1), (3, 2, 0), (3, 3, 1),
                                        (0, 3, 0), (0, 0, 0), (1, 1, 0), (2, 2, 0)]]
    elif kind in ('cmp_consts_1', 'cmp_consts_2'):
        # comparisons x constant position and value x left operand kind (Input, Register, plain
        # wire), 1-bit or 2-bit, through the operator API and (1 bit) as raw nets, which fix the
        # argument order
        w = 1 if kind.endswith('1') else 2
        xi = pyrtl.Input(w, 'xi')
        d.inputs.append(xi)
        xr = pyrtl.Register(w, 'xr')
        xr.next <<= xi
        d.regs.append(xr)
        xw = ~xi
        cnt = [0]
        fs = {'<': lambda p, q: p < q, '>': lambda p, q: p > q, '==': lambda p, q: p == q,
              '<=': lambda p, q: p <= q, '!=': lambda p, q: p != q}
        for x in (xi, xr, xw):
            for cv in sorted({0, 1, (1 << w) - 1}):
                for op in ('<', '>', '=='):
                    outs.append(fs[op](x, pyrtl.Const(cv, w)))
                    outs.append(fs[op](pyrtl.Const(cv, w), x))
                outs.append(fs['<='](x, pyrtl.Const(cv, w)))
                outs.append(fs['!='](x, pyrtl.Const(cv, w)))
                if w == 1:
                    for ch in '<>=':
                        for args in ((x, pyrtl.Const(cv, w)), (pyrtl.Const(cv, w), x)):
                            cnt[0] += 1
                            t = pyrtl.WireVector(1, 'rawcmp%d' % cnt[0])
                            pyrtl.working_block().add_net(pyrtl.LogicNet(ch, None, args, (t,)))
                            outs.append(t)
        d.stimulus = [{'xi': (i * 3 + 1) % (1 << w)} for i in range(6)]
    elif kind == 'const_slices':
        # slices of Consts that are not one ascending run (reversed, strided, repeated indices)
        # next to contiguous ones, each feeding further logic (a non-Output wire)
        a = pyrtl.Input(8, 'a')
        d.inputs.append(a)
        cnt = [0]
        for v, w in ((0b10110100, 8), (0b011010, 6), (0b101, 3), (0b1101, 4)):
            key = pyrtl.Const(v, w)
            for sl in (slice(None, None, -1), slice(None, None, 2), slice(1, None, 2), slice(None, None, -2),
                       slice(2, None, None), slice(0, w - 1, None), slice(None, None, 3), slice(w - 1, None, None),
                       slice(1, w - 1, None)):
                t = key[sl]
                outs.append(a[:len(t)] ^ t)
            for idx in ((0, 0, 1), (w - 1, 0), (1, 0, 1, 0), tuple(reversed(range(w)))):
                cnt[0] += 1
                t = pyrtl.WireVector(len(idx), 'rawcs%d' % cnt[0])
                pyrtl.working_block().add_net(pyrtl.LogicNet('s', idx, (key,), (t,)))
                outs.append(a[:len(idx)] + t)
        d.stimulus = [{'a': v} for v in (0, 255, 0xA5, 0x5A, 0x3C, 0x81)]
    elif kind == 'samename_mems':
        # three instances of a component whose internal memory has a fixed name: distinct memories,
        # one name, one shape, written with different data and read back
        wa = pyrtl.Input(2, 'wa')
        ra = pyrtl.Input(2, 'ra')
        di = pyrtl.Input(4, 'di')
        en = pyrtl.Input(1, 'en')
        d.inputs += [wa, ra, di, en]
        for j in range(3):
            m = pyrtl.MemBlock(4, 2, 'fifo_buf', max_read_ports=None, max_write_ports=None, asynchronous=True)
            d.mems.append(m)
            m[wa] <<= pyrtl.MemBlock.EnabledWrite((di + pyrtl.Const(3 * j + 1, 4))[:4], en)
            outs.append(pyrtl.as_wires(m[ra]))
        rom_a = pyrtl.RomBlock(4, 2, [1, 2, 3, 4], name='lut', max_read_ports=None, asynchronous=True)
        rom_b = pyrtl.RomBlock(4, 2, [9, 8, 7, 6], name='lut', max_read_ports=None, asynchronous=True)
        d.roms += [rom_a, rom_b]
        outs += [pyrtl.as_wires(rom_a[ra]), pyrtl.as_wires(rom_b[ra])]
        d.meminit = lambda adr: adr + 1
        d.stimulus = [{'wa': i % 4, 'ra': (i + 3) % 4, 'di': (5 * i + 2) % 16, 'en': 1 if i % 3 else 0}
                      for i in range(8)]
    elif kind == 'dead_inputs':
        # Inputs whose entire fan-out is dead (register nobody reads, dead wires, dead feedback
        # register, not read at all) next to live logic; the interface must not change
        a = pyrtl.Input(3, 'a')
        d1, d2, d3, d4 = (pyrtl.Input(w, nm) for w, nm in ((2, 'd1'), (1, 'd2'), (4, 'd3'), (3, 'd4')))
        d.inputs += [a, d1, d2, d3, d4]
        r1 = pyrtl.Register(2, 'dbg1')
        r1.next <<= d1
        t = ~d2
        t2 = t & a[0]
        r3 = pyrtl.Register(4, 'dbg3')
        r3.next <<= r3 + d3
        live = pyrtl.Register(3, 'live')
        live.next <<= live ^ a
        d.regs += [r1, r3, live]
        outs += [live, a & pyrtl.Const(5, 3), (a ^ live) | pyrtl.Const(0, 3)]
        d.stimulus = [{'a': i % 8, 'd1': (i + 1) % 4, 'd2': i % 2, 'd3': (5 * i) % 16, 'd4': (3 * i) % 8}
                      for i in range(6)]
    elif kind == 'rom_forms':
        # every RomBlock construction form read at every address (also beyond partial data)
        addr = pyrtl.Input(3, 'addr')
        d.inputs.append(addr)
        frng = random.Random(404)
        names = {'n': 0}

        def fresh_(prefix):
            names['n'] += 1
            return 'c04%s%d' % (prefix, names['n'])
        for _ in range(10):
            outs += make_rom_reads(frng, d, fresh_, None, 8, addr=addr)
        full = [3, 1, 4, 1, 5, 9, 2, 6]
        for nm, data, pad in [('lp', full[:3], True), ('dp', {0: 7, 1: 2, 5: 6}, True), ('lf', list(full), False),
                              ('ff', (lambda a: (a * 3 + 1) % 16), False), ('df', dict(enumerate(full)), True)]:
            rom = pyrtl.RomBlock(bitwidth=4, addrwidth=3, romdata=data, name='rom_' + nm, max_read_ports=None,
                                 asynchronous=True, pad_with_zeros=pad)
            d.roms.append(rom)
            outs += [pyrtl.as_wires(rom[addr]), pyrtl.as_wires(rom[pyrtl.Const(7, 3)])]
        d.stimulus = [{'addr': i} for i in range(8)]
    elif kind == 'dup_selfuse':
        # duplicated sub-expressions (one of each pair is discarded by CSE, whichever the set
        # order picks) whose results are read by nets using the SAME wire in several argument
        # positions, so the consumer is rewired in two places at once
        a = pyrtl.Input(3, 'a')
        b = pyrtl.Input(3, 'b')
        s1 = pyrtl.Input(1, 's')
        d.inputs += [a, b, s1]
        pairs = [(a - b, a - b), (a & b, b & a), (a + pyrtl.Const(3, 3), a + pyrtl.Const(3, 3)),
                 (a ^ b, a ^ b), (pyrtl.concat(a, b), pyrtl.concat(a, b)), (a < b, a < b)]
        for t1, t2 in pairs:
            for t in (t1, t2):
                outs += [t * t, pyrtl.concat(t, t), t & t, t - t, pyrtl.select(s1, t, t), t.nand(t),
                         pyrtl.concat(t, a[0], t)]
        d.stimulus = [{'a': (3 * i + 1) % 8, 'b': (5 * i + 2) % 8, 's': i % 2} for i in range(8)]
    elif kind in ('direct_out_raw', 'direct_out_dco'):
        # 1-bit gates with one constant input whose destination IS an Output (no 'w' net in
        # between): hand-built nets, or API-built nets after direct_connect_outputs()
        x = pyrtl.Input(1, 'x')
        y = pyrtl.Input(1, 'y')
        d.inputs += [x, y]
        one, zero = pyrtl.Const(1, 1), pyrtl.Const(0, 1)
        combos = [('&', x, one), ('&', one, x), ('|', x, zero), ('|', zero, y), ('^', x, zero),
                  ('^', zero, y), ('&', x, zero), ('|', y, one), ('^', x, one), ('^', one, y),
                  ('n', x, one), ('n', one, y), ('n', x, zero), ('&', x, y), ('^', y, x)]
        if kind == 'direct_out_raw':
            for i, (op, a0, a1) in enumerate(combos):
                o = pyrtl.Output(1, 'o%d' % i)
                d.outputs.append(o)
                pyrtl.working_block().add_net(pyrtl.LogicNet(op, None, (a0, a1), (o,)))
        else:
            for op, a0, a1 in combos:
                outs.append({'&': lambda p, q: p & q, '|': lambda p, q: p | q, '^': lambda p, q: p ^ q,
                             'n': lambda p, q: p.nand(q)}[op](a0, a1))
            d.post_build = 'direct_connect_outputs'
        d.stimulus = [{'x': i % 2, 'y': (i // 2) % 2} for i in range(6)]
    else:
        a = pyrtl.Input(2, 'a')
        d.inputs.append(a)
    if kind == 'nand_const':                 # F3: 'n' fold of two multi-bit Consts
        outs += [a ^ pyrtl.Const(3, 2).nand(pyrtl.Const(3, 2)),
                 pyrtl.concat(a, a[0]) | pyrtl.Const(5, 3).nand(pyrtl.Const(6, 3))]
    elif kind == 'memwr_dup':                # two write ports with identical constant operands
        m = pyrtl.MemBlock(4, 2, 'm', max_write_ports=None, asynchronous=True)
        d.mems.append(m)
        outs.append(pyrtl.as_wires(m[a]))
        m[pyrtl.Const(1, 2)] <<= pyrtl.MemBlock.EnabledWrite(pyrtl.Const(5, 4), pyrtl.Const(1, 1))
        m[pyrtl.Const(1, 2)] <<= pyrtl.MemBlock.EnabledWrite(pyrtl.Const(5, 4), pyrtl.Const(1, 1))
    elif kind == 'swap_noncomm':             # a-b / b-a, a<b / b<a, concat, mux
        b = pyrtl.Input(2, 'b')
        s = pyrtl.Input(1, 's')
        d.inputs += [b, s]
        outs += [a - b, b - a, a < b, b < a, a > b, b > a, pyrtl.concat(a, b),
                 pyrtl.concat(b, a), pyrtl.select(s, a, b), pyrtl.select(s, b, a),
                 a - b, a & b, b & a, a.nand(b), b.nand(a), a + b, b + a, a * b, b * a,
                 a == b, b == a]
        d.stimulus = [{'a': i % 4, 'b': (i // 4) % 4, 's': (i // 3) % 2} for i in range(16)]
    for i, t in enumerate(outs):
        o = pyrtl.Output(len(t), 'o%d' % i)
        o <<= t
        d.outputs.append(o)
    if d.post_build == 'direct_connect_outputs':
        with quiet():
            ppasses.direct_connect_outputs(pyrtl.working_block())
    d.ops.append('directed:' + kind)
    return d


DIRECTED = ['nand_const', 'memwr_dup', 'swap_noncomm', 'perm_selects',
            'wordconst_and', 'wordconst_or', 'wordconst_xor', 'wordconst_nand',
            'memwr_consts', 'direct_out_raw', 'direct_out_dco', 'dup_selfuse', 'dead_inputs', 'rom_forms',
            'cmp_consts_1', 'cmp_consts_2', 'const_slices', 'samename_mems']
# gate-level forms of the word-constant witnesses are large and contain only 1-bit gates
DIRECTED_FORMS = {k: (['word'] if k.startswith(('wordconst_', 'direct_out_', 'dup_selfuse', 'rom_forms', 'cmp_consts', 'const_slices', 'samename_mems')) else ['word', 'synth'])
                  for k in DIRECTED}


GATE_OPS = ['&', '|', '^', '~', 'nand', '+', '-', '<', '>', '==', 'mux', 'const', 'slice', 'index',
            'concat', 'memrd', 'zext']
_ATTEMPT = {}


def _raw_design(ctx, i, gate, attempt):
    pyrtl.wire._reset_wire_indexers()
    pyrtl.memory._reset_memory_indexer()
    rng = ctx.sub_rng('design', i, gate, attempt)
    if gate:
        d = gen_designs.make_design(rng, n_ops=rng.randint(1, 3), wide_prob=0.0, max_width=2,
                                    allow_mem=(rng.random() < 0.3), allow_rom=False, ops_subset=GATE_OPS)
    else:
        d = gen_designs.make_design(rng, n_ops=rng.randint(4, 16), wide_prob=0.08)
    extend_design(rng, d, heavy=not gate, maxw=(2 if gate else 8))
    return d


def build(ctx, i, form, cap=120):
    """-> (design, block in the requested form); names and memory ids are reproducible.
    Gate-level forms use a smaller base design (re-drawn, deterministically, until its
    synthesized form has at most `cap` nets) so that the Coq evaluation stays cheap."""
    if i < len(DIRECTED):
        pyrtl.wire._reset_wire_indexers()
        pyrtl.memory._reset_memory_indexer()
        d = directed(DIRECTED[i])
    elif form == 'word':
        d = _raw_design(ctx, i, False, 0)
    else:
        key = (ctx.seed, i)
        if key not in _ATTEMPT:
            for attempt in range(8):
                d = _raw_design(ctx, i, True, attempt)
                with quiet():
                    n = len(pyrtl.synthesize(block=d.block).logic)
                if n <= cap:
                    break
            _ATTEMPT[key] = attempt
        d = _raw_design(ctx, i, True, _ATTEMPT[key])
    block = d.block
    if form != 'word':
        with quiet():
            block = pyrtl.synthesize(block=block)
            if form == 'nand':
                pyrtl.nand_synth(block=block)
            elif form == 'aig':
                pyrtl.and_inverter_synth(block=block)
    return d, block


def block_mems(block):
    ms = {}
    for n in block.logic:
        if n.op in 'm@':
            ms[n.op_param[0]] = n.op_param[1]
    return [m for _, m in sorted(ms.items())]


def make_stimulus(rng, block, ncycles):
    regs = sorted(block.wirevector_subset(pyrtl.Register), key=lambda w: w.name)
    ins = sorted(block.wirevector_subset(pyrtl.Input), key=lambda w: w.name)
    regmap = {r: gen_designs.boundary_value(rng, len(r)) for r in regs if rng.random() < 0.7}
    memmap = {}
    for m in block_mems(block):
        if isinstance(m, pyrtl.RomBlock):
            continue
        if rng.random() < 0.6:
            memmap[m] = {a: gen_designs.boundary_value(rng, m.bitwidth)
                         for a in range(1 << m.addrwidth) if rng.random() < 0.5}
    inputs = [{w.name: gen_designs.boundary_value(rng, len(w)) for w in ins} for _ in range(ncycles)]
    return regs, regmap, memmap, inputs


def simulate(block, regmap, memmap, inputs, track=None):
    tracer = pyrtl.SimulationTrace(wires_to_track=track or 'all', block=block)
    present = block.wirevector_subset(pyrtl.Register)
    live_mems = set(id(m) for m in block_mems(block))
    if hasattr(block, 'mem_map'):
        # PostSynthBlock: Simulation translates memory_value_map keys through block.mem_map
        # (keyed by the pre-synthesis memories); we address the block's own memories
        for m in block_mems(block):
            block.mem_map[m] = m
    with quiet():
        sim = pyrtl.Simulation(tracer=tracer,
                               register_value_map={r: v for r, v in regmap.items() if r in present},
                               memory_value_map={m: dict(c) for m, c in memmap.items() if id(m) in live_mems},
                               default_value=0, block=block)
        for step in inputs:
            sim.step(dict(step))
    return sim, tracer


# ------------------------------------------------------------------ canonical forms

def opdesc(n):
    if n.op == 's':
        return ('s',) + tuple(n.op_param)
    if n.op in 'm@':
        return (n.op, n.op_param[0])
    return (n.op,)


def canon_exact(wires, nets):
    """wires: iterable of (name or None, width, kind, val); nets: (opdesc, argdescs, destname)"""
    return (sorted(wires, key=repr), sorted(nets, key=repr))


def real_exact(block):
    def wd(w):
        if isinstance(w, pyrtl.Const):
            return ('c', w.bitwidth, w.val)
        return ('w', w.name)
    wires = []
    for w in block.wirevector_set:
        if isinstance(w, pyrtl.Const):
            wires.append(('c', w.bitwidth, w.val))
        else:
            wires.append(('w', w.name, w.bitwidth))
    nets = [(opdesc(n), tuple(wd(a) for a in n.args), n.dests[0].name if n.dests else '')
            for n in block.logic]
    return wires, nets


def model_exact(rows_w, rows_n, names):
    """decode dump_nl rows; wire ids <= len(names) are original wires"""
    info = {}
    for r in rows_w:
        wid, width, kind, val = r
        info[wid] = (width, kind, val)

    def wd(wid):
        width, kind, val = info[wid]
        if kind == 3:
            return ('c', width, val)
        return ('w', names[wid - 1])
    wires = []
    for wid, (width, kind, val) in info.items():
        if kind == 3:
            wires.append(('c', width, val))
        else:
            wires.append(('w', names[wid - 1], width))
    nets = []
    for r in rows_n:
        dest, na = r[0], r[1]
        args = r[2:2 + na]
        code = r[2 + na]
        params = tuple(r[3 + na:])
        op = OPCODES[code]
        od = (op,) + params
        nets.append((od, tuple(wd(a) for a in args), wd(dest)[1] if op != '@' else ''))
    return wires, nets


def quotient(wires, nets, intern):
    """structural canonical form, insensitive to which member of a CSE class survived:
    every plain wire is replaced by the (interned) structure of its driver"""
    plain = set()
    kinds = {}
    driver = {}
    for od, args, dest in nets:
        if dest != '':
            driver[dest] = (od, args)

    def iid(t):
        if t not in intern:
            intern[t] = len(intern)
        return intern[t]
    memo = {}

    def h(desc, named):
        # desc = ('c', w, v) | ('w', name)
        if desc[0] == 'c':
            return iid(desc)
        name = desc[1]
        if name in named or name not in driver:
            return iid(('name', name))
        if name in memo:
            return memo[name]
        # iterative post-order to avoid deep recursion
        stack = [name]
        while stack:
            cur = stack[-1]
            od, args = driver[cur]
            pending = [a[1] for a in args if a[0] == 'w' and a[1] not in named and a[1] in driver
                       and a[1] not in memo]
            if pending:
                stack.extend(pending)
                continue
            hs = [iid(a) if a[0] == 'c' else
                  (iid(('name', a[1])) if (a[1] in named or a[1] not in driver) else memo[a[1]])
                  for a in args]
            if od[0] in COMMUTATIVE:
                hs = sorted(hs)
            memo[cur] = iid(('net', od, tuple(hs)))
            stack.pop()
        return memo[name]
    return h, driver


def canon_quot(wires, nets, named, intern):
    h, driver = quotient(wires, nets, intern)
    out = []
    for od, args, dest in nets:
        hs = [h(a, named) for a in args]
        if od[0] in COMMUTATIVE:
            hs = sorted(hs)
        dd = ('name', dest) if (dest in named or dest == '') else ('h', h(('w', dest), named))
        out.append(repr((od, tuple(hs), dd)))
    return sorted(out)


# ------------------------------------------------------------------ the check

def snapshot(block):
    return (set(block.logic), set(block.wirevector_set), dict(block.wirevector_by_name))


def restore(block, snap):
    block.logic = set(snap[0])
    block.wirevector_set = set(snap[1])
    block.wirevector_by_name = dict(snap[2])


def net_stats(block):
    return len(block.logic), len(block.wirevector_set)


def culprit(orig_nets_by_dest, res_block, spec_by_name, tracer, ncyc):
    """localise a behavioural difference: first wire of the result (in dependency order)
    whose simulated trace differs from the reference value of the same-named wire in the
    original; return the op of the original net that was folded / merged / rewired wrongly"""
    try:
        order = list(res_block)
    except Exception:
        order = list(res_block.logic)
    for n in order:
        if not n.dests:
            continue
        w = n.dests[0]
        if w.name not in spec_by_name or w.name not in tracer.trace:
            continue
        if list(tracer.trace[w.name][:ncyc]) != spec_by_name[w.name][:ncyc]:
            on = orig_nets_by_dest.get(w.name)
            if on is None:
                return n.op, n
            res_args = [a.name for a in n.args]
            for a in on.args:
                if a.name not in res_args and a.name in orig_nets_by_dest:
                    c = orig_nets_by_dest[a.name]
                    return c.op, c
            return on.op, on
    return '?', None


def signature_for(pname, op, net):
    """stable, predicate-based: which rewrite went wrong"""
    if net is not None and net.dests and net.dests[0].bitwidth > 1 and op in ('&', '|', '^', 'n'):
        nconst = sum(isinstance(a, pyrtl.Const) for a in net.args)
        if op == 'n' and nconst == len(net.args):
            return 'constfold:nand-multibit'
        if nconst == 1:
            return 'constfold:one-const-multibit:%s' % op
    return '%s:%s' % (pname, op)


def has_multibit_const_nand(block):
    for n in block.logic:
        if n.op == 'n' and n.dests[0].bitwidth > 1 and all(isinstance(a, pyrtl.Const) for a in n.args):
            return True
    return False


def has_dup_const_memwrite(block):
    seen = set()
    for n in block.logic:
        if n.op == '@':
            k = (n.op_param[0],) + tuple((a.bitwidth, a.val) if isinstance(a, pyrtl.Const) else id(a)
                                         for a in n.args)
            if k in seen:
                return True
            seen.add(k)
    return False


# Every documented way of calling optimize(): block= given or omitted, update_working_block
# True / False, skip_sanity_check, with the block to optimise being / not being the working
# block ("foreign": another design was built after it and is the working block now).
CONVENTIONS = [
    ('optimize() [B is the working block]', dict(give=False, uwb=True, foreign=False, skip=False)),
    ('optimize(block=B) [another design is the working block]', dict(give=True, uwb=True, foreign=True, skip=False)),
    ('optimize(block=B, skip_sanity_check=True) [another design is the working block]',
     dict(give=True, uwb=True, foreign=True, skip=True)),
    ('optimize(update_working_block=False) [B is the working block]', dict(give=False, uwb=False, foreign=False, skip=False)),
    ('optimize(update_working_block=False, block=B) [B is the working block]',
     dict(give=True, uwb=False, foreign=False, skip=False)),
    ('optimize(update_working_block=False, block=B) [another design is the working block]',
     dict(give=True, uwb=False, foreign=True, skip=False)),
    ('optimize(update_working_block=False, block=B, skip_sanity_check=True) [another design is the working block]',
     dict(give=True, uwb=False, foreign=True, skip=True)),
]


def build_decoy(ctx, i):
    """an unrelated API-built design that becomes the working block"""
    rng = ctx.sub_rng('decoy', i)
    return gen_designs.make_design(rng, n_ops=rng.randint(2, 5), wide_prob=0.0, max_width=4,
                                   allow_mem=False, allow_rom=False)


def call_optimize(ctx, i, target, give, uwb, foreign, skip):
    """-> (returned block, working block before, working block after)"""
    if foreign:
        build_decoy(ctx, i)                       # resets the working block and builds into it
    else:
        pyrtl.set_working_block(target, no_sanity_check=True)
    wb_before = pyrtl.working_block()
    kwargs = dict(update_working_block=uwb, skip_sanity_check=skip)
    if give:
        kwargs['block'] = target
    with quiet():
        res = pyrtl.optimize(**kwargs)
    return res, wb_before, pyrtl.working_block()


def state_by_name(block, regmap, memmap):
    """the same initial state, addressed through the (possibly copied) block's own objects:
    registers by name, memories by memid (memory names need not be unique; a copy keeps the ids)"""
    regs = {r.name: r for r in block.wirevector_subset(pyrtl.Register)}
    mems = {m.id: m for m in block_mems(block)}
    return ({regs[r.name]: v for r, v in regmap.items() if r.name in regs},
            {mems[m.id]: c for m, c in memmap.items() if m.id in mems})


def run(ctx):
    quick = ctx.tier == 'quick'
    ndesigns = (len(DIRECTED) + 4) if quick else (len(DIRECTED) + 80)
    ncyc_max = 6 if quick else 12
    max_model_nets = 320 if quick else 500
    cases = []          # one per (design, form): shared dump + stimulus + spec
    spec_exprs = []
    model_exprs = []
    model_index = []    # (case index, list of (pass, reps))
    for i in range(ndesigns):
        forms = FORMS if i >= len(DIRECTED) else DIRECTED_FORMS[DIRECTED[i]]
        def one_case(form):
            rng = ctx.sub_rng('stim', i, form)
            # ---- one build per (design, form); the in-place passes are undone by restoring
            #      the block's net / wire sets (they never mutate nets or wire objects)
            try:
                d, block = build(ctx, i, form)
            except Exception as e:      # a generator failure on one design must not abort the run
                ctx.count('build_failed', type(e).__name__)
                return
            nnets0 = len(block.logic)
            if nnets0 > (320 if quick else 500):
                ctx.count('skipped', 'too-large (design %d %s: %d nets)' % (i, form, nnets0))
                return
            with quiet():
                block.sanity_check()
            snap0 = snapshot(block)
            regs0 = set(block.wirevector_subset(pyrtl.Register))
            # ---- phase A: which registers do the folding passes eliminate?
            eliminated = set()
            for pname in ('optimize', 'constant_propagation'):
                try:
                    apply_pass(pname, block)
                    apply_pass(pname, block)
                    eliminated |= regs0 - set(block.wirevector_subset(pyrtl.Register))
                except Exception:
                    pass    # reported in phase B
                restore(block, snap0)
            # ---- the original: dump, stimulus, steady-state proviso
            ncyc = rng.randint(3, ncyc_max if form == 'word' else 4)
            regs, regmap, memmap, inputs = make_stimulus(rng, block, ncyc)
            if getattr(d, 'meminit', None) is not None:
                memmap = {m: {a: d.meminit(a) for a in range(1 << m.addrwidth)}
                          for m in block_mems(block) if not isinstance(m, pyrtl.RomBlock)}
            if getattr(d, 'stimulus', None):
                inputs = [dict(st) for st in d.stimulus]    # directed: a distinguishing sequence
                if form != 'word':
                    inputs = inputs[1:7]                    # gate-level evaluation is costly
                ncyc = len(inputs)
            steady = {}
            if eliminated:
                pre_inputs = (inputs * (len(regs) + 2))[:len(regs) + 2]
                sim0, _ = simulate(block, regmap, memmap, pre_inputs)
                for r in regs:
                    if r in eliminated:
                        steady[r.name] = sim0.regvalue[r]
                        regmap[r] = sim0.regvalue[r]
            dump = nlx.Dump(block)
            names = dump.names()
            outs = [w for w in dump.wires if isinstance(w, pyrtl.Output)]
            out_names = [w.name for w in outs]
            in_names = sorted((w.name, w.bitwidth) for w in block.wirevector_subset(pyrtl.Input))
            common = '%s 0 %s %s %s' % (dump.coq(), dump.regmap(regmap), dump.memmap(memmap),
                                        dump.inputs(inputs))
            spec_exprs.append('spec_case %s []' % common)
            orig_nets = [str(n) for n in block.logic]
            orig_by_dest = {n.dests[0].name: n for n in block.logic if n.dests}
            case = dict(i=i, form=form, names=names, out_names=out_names, in_names=in_names,
                        out_iface=sorted((w.name, w.bitwidth) for w in outs),
                        ncyc=ncyc, inputs=inputs, regmap={r.name: v for r, v in regmap.items()},
                        memmap={'%s#%d' % (m.name, m.id): c for m, c in memmap.items()}, steady=steady,
                        orig_nets=orig_nets, orig_by_dest=orig_by_dest, nnets0=nnets0,
                        widths={w.name: w.bitwidth for w in dump.wires}, runs=[], block=block,
                        named={w.name for w in dump.wires
                               if isinstance(w, (pyrtl.Input, pyrtl.Output, pyrtl.Register))},
                        ops=list(d.ops))
            ctx.count('form', form)
            ctx.count('orig_nets', '<50' if nnets0 < 50 else '<200' if nnets0 < 200 else '<1000' if nnets0 < 1000 else '1000+')
            ctx.count('steady_registers', len(steady))
            for o in d.ops:
                if o.startswith('c04:') or o.startswith('directed:'):
                    ctx.count('structures', o)
            # ---- phase B: the real passes
            reqs = []
            for pname in PASSES:
                restore(block, snap0)
                b = block
                for reps in (1, 2):
                    run_ = dict(pname=pname, reps=reps, error=None)
                    before = net_stats(b)
                    regs_before = len(b.wirevector_subset(pyrtl.Register))
                    try:
                        # every other design: the constituent passes run while another design is the working block
                        apply_pass(pname, b, foreign=(i % 2 == 1))
                        ctx.count('pass_called_while_not_working_block', i % 2 == 1 and pname != 'optimize')
                    except Exception as e:
                        run_['error'] = (type(e).__name__, str(e)[:200], traceback.format_exc()[-600:],
                                         has_multibit_const_nand(b), has_dup_const_memwrite(b))
                        case['runs'].append(run_)
                        break
                    after = net_stats(b)
                    run_['changed'] = (after != before)
                    nr = before[0] - after[0]
                    ctx.count('nets_removed_per_application:' + pname,
                              nr if nr < 5 else '%d-%d' % (nr // 10 * 10, nr // 10 * 10 + 9) if nr >= 10 else '5-9')
                    ctx.count('total_nets_removed', pname, nr)
                    ctx.count('total_wires_removed', pname, before[1] - after[1])
                    ctx.count('total_registers_removed', pname,
                              regs_before - len(b.wirevector_subset(pyrtl.Register)))
                    run_['in_names'] = sorted((w.name, w.bitwidth) for w in b.wirevector_subset(pyrtl.Input))
                    run_['out_names'] = sorted((w.name, w.bitwidth) for w in b.wirevector_subset(pyrtl.Output))
                    try:
                        with quiet():
                            b.sanity_check()
                        run_['sanity'] = None
                    except Exception as e:
                        run_['sanity'] = '%s: %s' % (type(e).__name__, str(e)[:200])
                    try:
                        sim, tracer = simulate(b, regmap, memmap, inputs)
                        run_['trace'] = [[tracer.trace[nm][t] for nm in out_names] for t in range(ncyc)] \
                            if all(nm in tracer.trace for nm in out_names) else None
                        run_['tracer'] = tracer
                    except Exception as e:
                        run_['trace'] = None
                        run_['sim_error'] = '%s: %s' % (type(e).__name__, str(e)[:200])
                    run_['res_nets'] = [str(n) for n in b.logic] if after[0] < 80 else None
                    run_['exact'] = real_exact(b)
                    run_['snap'] = snapshot(b)
                    case['runs'].append(run_)
                    # model tie (the search covers every run).  Quick tier: second applications only for optimize,
                    # and on the directed designs only the three composite passes (the removal passes are stages of optimize)
                    if quick and i < len(DIRECTED) and pname.startswith('_remove'):
                        pass
                    elif reps == 1 or pname == 'optimize' or (not quick and pname in ('constant_propagation', 'common_subexp_elimination')):
                        reqs.append((pname, reps))     # model tie (the search covers every run)
            restore(block, snap0)
            # ---- phase C: every documented calling convention of optimize() (word-level designs)
            if form == 'word':
                for cname, cv in CONVENTIONS:
                    restore(block, snap0)
                    target = block
                    for reps in (1, 2):
                        run_ = dict(pname=cname, reps=reps, error=None, convention=True, conv_issues=[])
                        before = net_stats(target)
                        tsnap = snapshot(target)
                        try:
                            res, wb0, wb1 = call_optimize(ctx, i, target, cv['give'], cv['uwb'], cv['foreign'], cv['skip'])
                        except Exception as e:
                            run_['error'] = (type(e).__name__, str(e)[:200], traceback.format_exc()[-600:], False, False)
                            case['runs'].append(run_)
                            break
                        if cv['uwb'] and res is not target:
                            run_['conv_issues'].append('returned-block: update_working_block=True must optimise and return the block itself')
                        if not cv['uwb']:
                            if res is target:
                                run_['conv_issues'].append('returned-block: update_working_block=False must return a copy')
                            elif snapshot(target)[0] != tsnap[0] or snapshot(target)[1] != tsnap[1]:
                                run_['conv_issues'].append('target-modified: update_working_block=False must leave the given block untouched')
                        if wb1 is not wb0:
                            run_['conv_issues'].append('working-block: the call changed which block is the working block')
                        after = net_stats(res)
                        run_['changed'] = (after != before)
                        ctx.count('convention_nets_removed', cname, before[0] - after[0])
                        run_['in_names'] = sorted((w.name, w.bitwidth) for w in res.wirevector_subset(pyrtl.Input))
                        run_['out_names'] = sorted((w.name, w.bitwidth) for w in res.wirevector_subset(pyrtl.Output))
                        try:
                            with quiet():
                                res.sanity_check()
                            run_['sanity'] = None
                        except Exception as e:
                            run_['sanity'] = '%s: %s' % (type(e).__name__, str(e)[:200])
                        try:
                            rm, mm = state_by_name(res, regmap, memmap)
                            sim, tracer = simulate(res, rm, mm, inputs, track=[w for w in res.wirevector_subset(pyrtl.Output)])
                            run_['trace'] = [[tracer.trace[nm][t] for nm in out_names] for t in range(ncyc)] \
                                if all(nm in tracer.trace for nm in out_names) else None
                        except Exception as e:
                            run_['trace'] = None
                            run_['sim_error'] = '%s: %s' % (type(e).__name__, str(e)[:200])
                        run_['res_nets'] = [str(n) for n in res.logic] if after[0] < 80 else None
                        case['runs'].append(run_)
                        target = res
                restore(block, snap0)
            case['reqs'] = reqs if nnets0 <= max_model_nets else []
            if nnets0 > max_model_nets:
                ctx.count('model_skipped', 'original has more than %d nets' % max_model_nets)
            if case['reqs']:
                # quick tier: the theorem premises are evaluated on the first application only
                prs = '; '.join('(%s, (%d, %d))' % ('false' if (quick and r == 2) else 'true', PASS_CODE[p], r)
                                for p, r in case['reqs'])
                model_exprs.append(
                    'let nl := %s in map (fun pr => opt_case2 (fst pr) (fst (snd pr)) (snd (snd pr)) nl 0 %s %s %s %s) [%s]' % (
                        dump.coq(), dump.regmap(regmap), dump.memmap(memmap), dump.inputs(inputs),
                        nlx.zlist([dump.wid[w] for w in outs]), prs))
                model_index.append(len(cases))
            cases.append(case)
        for form in forms:
            try:
                one_case(form)
            except Exception as e:      # a harness failure on one case must not abort the whole run
                ctx.count('case_error', type(e).__name__)
                ctx.notes.append('case (design %d, %s) raised in the harness: %s' % (i, form, traceback.format_exc()[-400:]))
                del spec_exprs[len(cases):]
                while model_index and model_index[-1] >= len(cases):
                    model_index.pop()
                    model_exprs.pop()

    jobs = 14
    import time as _time
    t_py = _time.time() - ctx.t0
    t1 = _time.time()
    spec_results = ctx.coq_eval(spec_exprs, IMPORTS_SPEC, tag='c04spec', shard=2, jobs=jobs)
    t_spec = _time.time() - t1
    t1 = _time.time()
    model_results = None
    try:
        model_results = ctx.coq_eval(model_exprs, IMPORTS_MODEL, tag='c04model',
                                     shard=1, jobs=jobs)
    except Exception as e:
        ctx.model_mismatch('Pass/Opt.v could not be evaluated: %s' % str(e)[-800:], {})
    ctx.notes.append('phases: python %.1fs, spec eval %.1fs (%d exprs), model eval %.1fs (%d exprs)' % (
        t_py, t_spec, len(spec_exprs), _time.time() - t1, len(model_exprs)))
    model_by_case = {}
    if model_results is not None:
        for ci, res in zip(model_index, model_results):
            model_by_case[ci] = {pr: r for pr, r in zip(cases[ci]['reqs'], res)}

    for ci, (c, res) in enumerate(zip(cases, spec_results)):
        wf = res[0][0]
        spec_rows = res[2:]
        idx = {nm: k for k, nm in enumerate(c['names'])}
        spec_trace = [[row[idx[nm]] for nm in c['out_names']] for row in spec_rows]
        spec_by_name = {nm: [row[k] for row in spec_rows] for nm, k in idx.items()}
        varying = any(len({row[k] for row in spec_trace}) > 1 for k in range(len(c['out_names'])))
        base_rep = {'seed': ctx.seed, 'tier': ctx.tier, 'design': c['i'], 'form': c['form'],
                    'original_nets': c['orig_nets'] if len(c['orig_nets']) < 120 else c['orig_nets'][:120],
                    'inputs': c['inputs'], 'regmap': c['regmap'], 'memmap': c['memmap'],
                    'steady_registers': c['steady'], 'outputs': c['out_names']}
        if wf != 1:
            ctx.model_mismatch('wfb is false on an API-built design (%d, %s)' % (c['i'], c['form']), base_rep)
        for r in c['runs']:
            pname, reps = r['pname'], r['reps']
            rep = dict(base_rep, **{'pass': pname, 'applications': reps})
            key = (c['i'], c['form'], pname, reps, repr(r.get('trace')))
            sample = None
            if c['i'] in (0, len(DIRECTED)) and c['form'] == 'word' and pname == 'optimize' and reps == 1:
                sample = {'design': c['i'], 'form': c['form'], 'pass': pname, 'original_nets': c['orig_nets'][:10],
                          'result_nets': (r.get('res_nets') or [])[:10], 'inputs': c['inputs'][:2],
                          'output_trace': (r.get('trace') or [])[:2]}
            ctx.case(key, nontrivial=bool(r.get('changed')) and varying, sample=sample)
            ctx.count('pass', pname if not r.get('convention') else 'optimize-calling-conventions')
            if r['error'] is not None:
                etype, msg, tb, nandc, dupw = r['error']
                if nandc and '_constant_prop_pass' in tb:
                    sig = 'constfold:nand-multibit'
                elif dupw and etype == 'IndexError' and '_has_normal_dest_wire' in tb:
                    sig = 'cse:duplicate-const-memwrite-crash'
                else:
                    sig = '%s:raises:%s' % (pname if not r.get('convention') else 'optimize-call', etype)
                ctx.spec_violation(sig, '%s raised %s on a well-formed %s design: %s' % (pname, etype, c['form'], msg),
                                   dict(rep, traceback=tb))
                continue
            if r.get('conv_issues'):
                for issue in r['conv_issues']:
                    ctx.spec_violation('optimize-call:%s' % issue.split(':')[0],
                                       '%s (x%d): %s' % (pname, reps, issue), rep)
            # --- search: interface, well-formedness, behaviour vs the reference semantics of the original
            sigp = pname if not r.get('convention') else 'optimize-call'
            if r['in_names'] != c['in_names'] or r['out_names'] != c['out_iface']:
                ctx.spec_violation('%s:io-names' % sigp, '%s changed the Input/Output interface (names + bitwidths): Inputs %s -> %s, Outputs %s -> %s' % (
                                       pname, c['in_names'], r['in_names'], c['out_iface'], r['out_names']),
                                   dict(rep, inputs_before=c['in_names'], inputs_after=r['in_names'],
                                        outputs_before=c['out_iface'], outputs_after=r['out_names']))
                continue
            if r['sanity'] is not None:
                ctx.spec_violation('%s:sanity' % sigp, 'result of %s fails sanity_check: %s' % (pname, r['sanity']), rep)
                continue
            if r.get('trace') is None:
                ctx.spec_violation('%s:simulation' % sigp, 'result of %s cannot be simulated: %s' % (
                    pname, r.get('sim_error', 'output missing from trace')), rep)
                continue
            bad = None
            for t in range(c['ncyc']):
                for k, nm in enumerate(c['out_names']):
                    if r['trace'][t][k] != spec_trace[t][k]:
                        bad = (t, nm, spec_trace[t][k], r['trace'][t][k])
                        break
                if bad:
                    break
            if bad:
                op, net = '?', None
                if r.get('tracer') is not None and not r.get('convention'):
                    restore(c['block'], r['snap'])
                    op, net = culprit(c['orig_by_dest'], c['block'], spec_by_name, r['tracer'], c['ncyc'])
                sig = signature_for(pname, op, net) if not r.get('convention') else 'optimize-call:wrong-behaviour'
                ctx.spec_violation(sig, '%s (x%d) on a %s design changes Output %s at cycle %d: reference %d, got %d '
                                        '(first wrong net of the original: %s)' % (
                                            pname, reps, c['form'], bad[1], bad[0], bad[2], bad[3], net),
                                   dict(rep, first_difference={'cycle': bad[0], 'output': bad[1],
                                                               'expected': bad[2], 'got': bad[3]},
                                        culprit=str(net), result_nets=r.get('res_nets')))
            # --- tie: the Coq model of the pass
            m = model_by_case.get(ci, {}).get((pname, reps))
            if m is None:
                continue
            rows_w, rows_n, mtr = m
            mwf, api_ok, side_ok, steady_ok = mtr[0]
            mtrace = mtr[1:]
            ctx.count('tie_cases', pname)
            ctx.count('api_built_assumption', 'holds' if api_ok == 1 else 'fails')
            if api_ok != 1:
                ctx.model_mismatch('api_built (Pass/OptCheck.v) is false on an API-built design: the assumption of the '
                                   'C04 theorems does not cover design %d %s' % (c['i'], c['form']), rep)
            if pname in PREMISE:
                ctx.count('theorem_premise:' + PREMISE[pname], {1: 'holds', 2: 'not-evaluated'}.get(side_ok, 'fails'))
                if side_ok not in (1, 2):
                    ctx.model_mismatch('decidable premise %s of the preservation theorem of %s is false '
                                       '(design %d %s x%d)' % (PREMISE[pname], pname, c['i'], c['form'], reps), rep)
            if mtrace != r['trace']:
                if not bad:
                    ctx.model_mismatch('Output traces of the model result and the real result of %s differ '
                                       '(design %d %s x%d)' % (pname, c['i'], c['form'], reps), rep)
                continue
            if mwf != 1:
                ctx.model_mismatch('model result of %s is not wfb (design %d %s x%d)' % (pname, c['i'], c['form'], reps), rep)
            if pname in ('optimize', 'constant_propagation'):
                ctx.count('theorem_steady_hypothesis:' + pname, {1: 'holds', 2: 'not-evaluated'}.get(steady_ok, 'fails'))
                if steady_ok not in (1, 2):
                    ctx.model_mismatch('the initial state does not satisfy the steady-state hypothesis of the '
                                       'preservation theorem of %s (design %d %s x%d)' % (pname, c['i'], c['form'], reps), rep)
            mw, mn = model_exact(rows_w, rows_n, c['names'])
            rw, rn = r['exact']
            if pname in CSE_LIKE:
                intern = {}
                # which member of a CSE class survives decides which (equal-valued) Const OBJECTS stay
                # in use, so Const wires are compared as a set of (width, value), other wires by count
                def wire_summary(ws):
                    return (sum(1 for x in ws if x[0] == 'w'), sorted({x for x in ws if x[0] == 'c'}))
                same = canon_quot(mw, mn, c['named'], intern) == canon_quot(rw, rn, c['named'], intern) \
                    and wire_summary(mw) == wire_summary(rw)
            else:
                same = canon_exact(mw, mn) == canon_exact(rw, rn)
            if same:
                ctx.count('tie_structural_equal', pname)
            else:
                ctx.count('tie_structural_diff', pname)
                if not bad:
                    ctx.model_mismatch('result netlist of the model and of the real %s differ structurally '
                                       '(design %d %s x%d): model %d nets / %d wires, real %d nets / %d wires' % (
                                           pname, c['i'], c['form'], reps, len(mn), len(mw), len(rn), len(rw)),
                                       dict(rep, model_nets=[repr(x) for x in sorted(mn, key=repr)[:60]],
                                            real_nets=[repr(x) for x in sorted(rn, key=repr)[:60]]))


def replay(ctx, data):
    print(data)
    run(ctx)
