"""C02: FastSimulation and CompiledSimulation are observably identical to Simulation.

Per design / initial state / input sequence the three REAL simulators are run on
the same block: every traced wire on every cycle and the final memory contents
are compared, over {pre-synthesis, synthesized (merged / unmerged I/O), optimized}
blocks.

 tie   (a) Coq Sim/FastModel.v (c02_case) == pyrtl.FastSimulation on every wire, cycle and
           final memory word (and == pyrtl.Simulation wherever fast_wfb holds, i.e. where
           C02_fast_refines_spec applies); the mask-elision decision per net read off
           FastSimulation._compiled()'s generated source == Gen/FastMask.v's decision
           (fast_elides); sampled nets x operand values: Coq Sim/CLimb.v builders (climb_check)
           == the value the C simulator shows (through an exact-width probe Output when there
           is one, else Simulation's value); Coq Sim/CEmitModel.v (cemit_case: the whole emitted C
           program on limb arrays) == pyrtl.CompiledSimulation on every wire it can show, every
           cycle, and the final memory (and == pyrtl.Simulation on ALL wires where c_wfb holds).
 search(b) FastSimulation / CompiledSimulation vs Simulation AND vs Netlist/Sem.v; a
           disagreement is attributed to the first net (block order) whose observable
           destination differs -> signature '<simulator>:<op>[:limb]', with dedicated
           signatures for the known defect classes (see net_signature).

Values cross the Coq boundary as hexadecimal numerals / 61-bit polynomial fingerprints of
each row (decimal 100+-bit numerals cost ~5 ms each to parse or print); on a fingerprint
mismatch the case is re-evaluated with every value printed (spec_case / fastmodel_case).
"""
import concurrent.futures
import re

import pyrtl
import gen_designs
import nlx

RULE = ('three real simulators on the same (block, initial registers/memories, input sequence): '
        '(1) limb-sweep designs: every primitive op at operand widths 63,64,65,127,128,129 (+ mixed-width '
        'concats whose pieces straddle 64-bit limbs, strided/reversed selects across limbs, wide registers '
        'and memories, raw LogicNets with truncating destinations so that every mask branch of both code '
        'generators is reached); (1b) hash-map designs: one MemBlock with addrwidth 9/12/16/33 and 65..129-bit data whose '
        'initial map and run-time writes use addresses k, k+256, k+512, k+2^32 (one bucket of the 256-bucket C hash map), '
        'inserted in different cycles in a shuffled order, a disabled write to a further colliding key, overwrites inside '
        'and at the end of a chain, read-back of every address in several orders on two read ports, final inspect_mem at '
        'every touched address and untouched neighbours; (1c) module designs: one sub-module builder instantiated 2-3 '
        'times, so the design holds several MemBlocks all named "scratch" and RomBlocks all named "lut" with different '
        'contents (memory names need not be unique), plus near-miss names, every memory with its own initial map, '
        'shared or separate address inputs; (1e) multi-limb arithmetic: `*` (full, squared, mixed-width, truncated raw '
        'products, multiply-accumulate), `+`, `-`, comparisons on operands of 129..260 bits with value classes all-ones, '
        'per-limb extreme patterns (0, 1, 2^64-1, 2^64-2, 2^63, ...), dense and random, 11+ cycles; default_value drawn '
        'from 0 / small / values exceeding memory, register or output bitwidths (reads of never-written memory words); '
        'every simulator kind is also built two or three times per block in the process (bare initial state with every '
        'keyword omitted on the working block, then the stated initial state), after earlier instances on this block and '
        'on sibling blocks sharing its memory ids have run; (1d) hostile names: sweep / random designs whose inputs, outputs, registers, '
        'internal wires, constants and memories are renamed (WireVector.name setter) from a pool of Python keywords and '
        'builtins, every identifier found in the code FastSimulation and CompiledSimulation emit NOW for a sample design '
        '(d, regs, outs, mem_ws, carry, tmplo, lookup, uint64_t, w<uid>_<name> ...), the sanitizers\' temporaries and their '
        'prefixes, C keywords / libc names, names needing sanitising (spaces, dots, brackets, quotes, backslash, unicode, '
        'leading digit, trailing newline, format directives, comment markers) and near-duplicates differing only in '
        'sanitised characters; (2) random API-built designs (gen_designs, probe Outputs on every internal '
        'wire; alternately wide_prob 0.55 and small ones cheap enough to synthesize) plus a few raw truncating '
        'nets; each also optimized and, when its gate count allows, synthesized (merge_io_vectors True/False); a case = '
        '(block variant, stimulus), distinct by hash of its Simulation trace, non-trivial when at least '
        'half of its non-constant wires changed value')
IMPORTS_SPEC = 'From PyRTL Require Import Netlist.Sem Netlist.WFDefs Netlist.SpecHarness.'
IMPORTS_FAST = 'From PyRTL Require Import Sim.FastModel Sim.FastModelHarness.'
IMPORTS_CLIMB = 'From PyRTL Require Import Netlist.Syntax Sim.CLimb Sim.CLimbHarness.'
IMPORTS_CEMIT = 'From PyRTL Require Import Sim.CEmitModel Sim.CEmitHarness.'
IMPORTS_HASH = 'From PyRTL Require Import Sim.CEmitHash.'
COQ_TARGETS = ['theories/Netlist/SpecHarness.vo', 'theories/Sim/FastModelHarness.vo',
               'theories/Sim/CLimbHarness.vo', 'theories/Sim/CEmitHarness.vo', 'theories/Sim/CEmitHash.vo']
TRUSTED = ['Sim/CLimb.v `limbs_to_Z` / `limbs_ok` + the per-builder statements in Props/C02.v (what a limb array denotes)',
           'Sim/CLimb.v and Sim/FastModel.v are hand transliterations of the emitters (tied by translated fragments: mask '
           'tables, emitted expression texts, assignment templates, memory-store key, _limbs/_makemask/_getarglimb, '
           'concat loop-test order, hash-map bucket count, AST digests of _build_add/_sub/_mul and of the C hash-map helper text; '
           'and behaviourally on every run)',
           'gcc -O0 and the x86-64 `mulq` inline asm implement C99 uint64_t arithmetic / a 64x64->128 multiply '
           '(the C text is modelled per builder; its compilation is exercised only behaviourally)']
ASSUMPTIONS = [
    'initial REGISTER values are within range (legal_init): registers without reset_value get an explicit '
    'register_value_map entry whenever default_value would not fit them; default_value itself may exceed any '
    'memory bitwidth (reads of never-written words are masked by Simulation / the reference semantics)',
    'Coq-side comparison is by 61-bit polynomial fingerprint per trace row (mod 2^61-1); all values are fetched '
    'and compared individually whenever a fingerprint differs',
    'the design space includes sanity_check-valid blocks that the construction API cannot build (LogicNets whose '
    'destination is narrower than the natural result); they are what reaches the mask branches of both generators',
    'sanctioned difference: CompiledSimulation does not apply a non-zero default_value to memories; such '
    '(design, default) pairs are excluded from the Compiled comparison only',
    'FastModel: every select has a non-empty op_param and every register has an `r` net (Block.sanity_check)',
    'the C hash map is modelled in Sim/CEmitHash.v (buckets, chains, in-place update / new head node, default array) '
    'and proved to refine the finite map of Sim/CEmitModel.v; its malloc/memcpy/pointer layer is abstracted to lists '
    '(a chain = the list of its nodes from the head)',
    'CEmitModel applies the `@` inserts in net-list order; the C code iterates a Python set (the generator only '
    'builds write ports with provably distinct addresses)',
    'Coq-side evaluation (FastModel / Sem) is restricted to blocks with at most MAX_COQ_NETS nets; larger '
    'synthesized blocks get the three-simulator differential only',
    'on a PostSynthBlock, Simulation is given memory_value_map keyed by the key of block.mem_map (the only key '
    'it accepts), FastSimulation/CompiledSimulation by the block\'s own MemBlock',
]

SWEEP_WIDTHS = [63, 64, 65, 127, 128, 129]
MAX_COQ_NETS = 260
MAX_SYNTH_COST = 1300
WORKERS = 12


# ----------------------------------------------------------------------------- designs

def probe(block, name, w):
    o = pyrtl.Output(len(w), name, block=block)
    o <<= w
    return o


def raw_net(block, op, param, args, bw, name):
    """a LogicNet added directly (destination narrower than the natural result is legal)"""
    if op == 'r':
        dest = pyrtl.Register(bw, name, block=block)
    else:
        dest = pyrtl.WireVector(bw, name, block=block)
    block.add_net(pyrtl.LogicNet(op, param, tuple(args), (dest,)))
    return dest


def narrower(rng, natural):
    cands = [w for w in (natural - 1, natural - 2, 129, 128, 127, 65, 64, 63, 33, 1) if 1 <= w < natural]
    return rng.choice(cands) if cands else natural


def add_raw_nets(rng, block, pool, count, tag, with_xcs=True):
    """truncating-destination nets of every maskable op over wires of `pool`; truncating
    mux/concat/select (outside C02_fast_refines_spec: FastSimulation mis-parenthesises them)
    only when with_xcs"""
    made = []
    ops = ['w', '~', '&', '|', '^', 'n', '+', '-', '*', 'r'] + (['x', 'c', 's'] * 2 if with_xcs else [])
    for k in range(count):
        op = rng.choice(ops)
        a = rng.choice(pool)
        nm = '%sraw%d' % (tag, k)
        same = [w for w in pool if len(w) == len(a)]
        if op in 'w~r':
            d = raw_net(block, op, None, (a,), narrower(rng, len(a)), nm)
        elif op in '&|^n':
            d = raw_net(block, op, None, (a, rng.choice(same)), narrower(rng, len(a)), nm)
        elif op in '+-':
            d = raw_net(block, op, None, (a, rng.choice(same)), narrower(rng, len(a) + 1), nm)
        elif op == '*':
            if len(a) > 130:
                continue
            d = raw_net(block, op, None, (a, rng.choice(same)), narrower(rng, 2 * len(a)), nm)
        elif op == 'x':
            sels = [w for w in pool if len(w) == 1]
            if not sels:
                continue
            d = raw_net(block, op, None, (rng.choice(sels), a, rng.choice(same)), narrower(rng, len(a)), nm)
        elif op == 'c':
            parts = [a] + [rng.choice(pool) for _ in range(rng.randint(1, 2))]
            tot = sum(len(p) for p in parts)
            if tot > 300:
                continue
            d = raw_net(block, op, None, parts, narrower(rng, tot), nm)
        else:  # 's'
            n = rng.randint(2, min(len(a) + 3, 140))
            idx = tuple(rng.randrange(len(a)) for _ in range(n)) if rng.random() < 0.5 else \
                tuple(range(len(a)))[-n:]
            d = raw_net(block, op, idx, (a,), narrower(rng, len(idx)), nm)
        made.append((op, d))
        if op != 'r':
            probe(block, nm + '_o', d)
        else:
            probe(block, nm + '_o', d)
    return made


def sweep_design(rng, W, k):
    """every primitive at operand width W (crossing / touching a limb boundary)"""
    pyrtl.reset_working_block()
    block = pyrtl.working_block()
    d = gen_designs.Design(block)
    a, b = pyrtl.Input(W, 'a'), pyrtl.Input(W, 'b')
    s = pyrtl.Input(1, 's')
    cw = [1, 31, 32, 33, 63][k % 5] if k < 5 else rng.choice([2, 30, 34, 62, 64, 66])
    c = pyrtl.Input(cw, 'c')
    d.inputs = [a, b, s, c]
    r = pyrtl.Register(W, 'r', reset_value=gen_designs.boundary_value(rng, W) if k % 2 else None)
    r2 = pyrtl.Register(W + 1, 'r2')
    d.regs = [r, r2]
    m = pyrtl.MemBlock(bitwidth=W, addrwidth=2, name='m', max_read_ports=None, max_write_ports=None,
                       asynchronous=True)
    d.mems = [m]
    items = [('and', a & b), ('or', a | b), ('xor', a ^ b), ('not', ~a), ('nand', a.nand(b)),
             ('add', a + b), ('sub', a - b), ('lt', a < b), ('gt', a > b), ('eq', a == b),
             ('mux', pyrtl.select(s, a, b)), ('cat_ab', pyrtl.concat(a, b)), ('cat_ca', pyrtl.concat(c, a)),
             ('cat_ac', pyrtl.concat(a, c)), ('cat_cab', pyrtl.concat(c, a, b)),
             ('cat_scas', pyrtl.concat(s, c, a, s)), ('rev', a[::-1]), ('odd', a[1::2]),
             ('hi', a[W - 1]), ('mid', a[W // 2 - 3:W // 2 + 5]), ('x60', a[60:min(W, 70)]),
             ('addr', (a + r)[:W]), ('subr', (r - b)[:W]), ('sext', c.sign_extended(cw + W)),
             ('memrd', pyrtl.as_wires(m[a[:2]])), ('addreg', r2 + pyrtl.concat(s, a)),
             ('eqr', r == a), ('ltr', r2 < pyrtl.concat(s, b))]
    if W <= 65 or k % 3 == 0:
        items.append(('mul', a * b))
    else:
        items.append(('mul', a[:64] * b[W - 64:]))
    items.append(('mulc', c * a[:cw]))
    for nm, w in items:
        probe(block, 'o_' + nm, w)
        d.ops.append(nm)
    m[b[:2]] <<= pyrtl.MemBlock.EnabledWrite(a ^ r, s)
    r.next <<= a ^ (r + b)[:W]
    r2.next <<= pyrtl.concat(s, a) - r2
    pool = [a, b, c, s, r, r2] + [w for _, w in items]
    add_raw_nets(rng, block, pool, 14, 'w%d_' % W, with_xcs=(k % 3 == 2))
    return d


def random_design(rng, small):
    if small:   # cheap enough to synthesize: the synthesized variants come from these
        d = gen_designs.make_design(rng, wide_prob=0.04, probe_all=True, n_ops=rng.randint(4, 9),
                                    max_width=rng.choice([8, 8, 65]))
    else:
        d = gen_designs.make_design(rng, wide_prob=0.55, probe_all=True, n_ops=rng.randint(6, 20))
    block = d.block
    pool = [w for w in block.wirevector_set
            if not isinstance(w, (pyrtl.Output, pyrtl.Const))]
    pool.sort(key=lambda w: w.name)
    add_raw_nets(rng, block, pool, rng.randint(1, 3) if small else rng.randint(2, 6), 'z',
                 with_xcs=(rng.random() < 0.3))
    return d


def modules_design(rng):
    """a top level that instantiates the same sub-module builder several times.  Memory names, unlike wire
    names, need not be unique (Block.sanity_check does not look at them; Simulation keys memories by id), so
    every instance carries a MemBlock called 'scratch' and a RomBlock called 'lut' with its OWN contents,
    next to memories whose names are near misses ('scratch_', 'scratch0')."""
    pyrtl.reset_working_block()
    block = pyrtl.working_block()
    d = gen_designs.Design(block)
    aw = rng.choice([2, 3, 4])
    dw = rng.choice([5, 8, 33, 64, 65, 129])
    n_inst = rng.choice([2, 2, 3])
    share_addr = rng.random() < 0.6
    if share_addr:
        waddr, raddr = pyrtl.Input(aw, 'waddr'), pyrtl.Input(aw, 'raddr')
        d.inputs += [waddr, raddr]

    def scratchpad(k, name, romname):
        wa = waddr if share_addr else pyrtl.Input(aw, 'waddr%d' % k)
        ra = raddr if share_addr else pyrtl.Input(aw, 'raddr%d' % k)
        wdata, we = pyrtl.Input(dw, 'd%d' % k), pyrtl.Input(1, 'we%d' % k)
        d.inputs.extend(([] if share_addr else [wa, ra]) + [wdata, we])
        mem = pyrtl.MemBlock(bitwidth=dw, addrwidth=aw, name=name, max_read_ports=None,
                             max_write_ports=None, asynchronous=True)
        mem[wa] <<= pyrtl.MemBlock.EnabledWrite(wdata, we)
        vals = [gen_designs.boundary_value(rng, dw) for _ in range(1 << aw)]
        rom = pyrtl.RomBlock(bitwidth=dw, addrwidth=aw, romdata=list(vals), name=romname,
                             max_read_ports=None, asynchronous=True)
        rom._verif_table = list(vals)
        d.mems.append(mem)
        d.roms.append(rom)
        q = pyrtl.as_wires(mem[ra])
        l = pyrtl.as_wires(rom[ra])
        probe(block, 'q%d' % k, q)
        probe(block, 'l%d' % k, l)
        acc = pyrtl.Register(dw, 'acc%d' % k)
        acc.next <<= (acc + (q ^ l))[:dw]
        d.regs.append(acc)
        probe(block, 's%d' % k, acc)
    for k in range(n_inst):
        scratchpad(k, 'scratch', 'lut')
    for k, nm in enumerate(rng.sample(['scratch_', 'scratch0', 'Scratch', 'scratc'], rng.randint(0, 2))):
        scratchpad(n_inst + k, nm, 'lut' + nm[-1])
    d.ops = ['modules:%d-same-named' % n_inst]
    return d


def distinct_memmaps(rng, block, memmap):
    """every (non-ROM) memory gets its own non-empty initial contents"""
    for m in block_mems(block):
        if isinstance(m, pyrtl.RomBlock):
            continue
        c = memmap.setdefault(m, {})
        a = rng.randrange(1 << m.addrwidth)
        c[a] = ((m.id * 37 + 1 + rng.getrandbits(m.bitwidth)) % ((1 << m.bitwidth) - 1)) + 1
    return memmap


# ---- hostile names -----------------------------------------------------------------------------
C_KEYWORDS = ('auto break case char const continue default do double else enum extern float for goto if '
              'inline int long register restrict return short signed sizeof static struct switch typedef '
              'union unsigned void volatile while _Bool NULL main malloc memcpy free size_t uint64_t uint8_t').split()
NEED_SANITISING = ['a b', 'a.b', 'a[0]', 'a[1]', 'x(y)', 'p->q', 'a-b', 'a+b', 'a*b', 'q?', '0abc', '9', 'x\n', '\ty',
                   "a'b", 'a"b', 'a\\b', '%s', '%d', '{}', '{0}', '*/', '/*', '//c', '#define', ';', 'a;b', 'a,b',
                   '\u00e9t\u00e9', '\u03bb', '\u4e2d\u6587', 'na\u00efve', ' ', ' lead', 'trail ', "it's", '$x', '@x', 'x:y', 'a=b', 'a = b',
                   "d['x']", 'outs["o"]']
NEAR_DUPLICATES = ['nd_ab', 'nd ab', 'nd.ab', 'nd-ab', 'nd_a_b', 'nd a b', 'nd.a.b', 'ndab', 'NDAB', 'ndab_', '_ndab', 'nd__ab']
_HOSTILE_POOL = []


def emitted_identifiers():
    """every identifier the two code generators use themselves, read off what they emit NOW for a
    sample design that has an input, a register, a memory, a ROM, wide arithmetic and an output"""
    pyrtl.reset_working_block()
    a, b = pyrtl.Input(70, 'sa'), pyrtl.Input(70, 'sb')
    r = pyrtl.Register(70, 'sr')
    m = pyrtl.MemBlock(bitwidth=70, addrwidth=2, name='sm', max_read_ports=None, asynchronous=True)
    rom = pyrtl.RomBlock(bitwidth=4, addrwidth=2, romdata=[1, 2, 3, 4], name='srom', max_read_ports=None,
                         asynchronous=True)
    o = pyrtl.Output(141, 'so')
    t = (a * b) + pyrtl.concat(~a, (a - b)[:70]) + pyrtl.select(a < b, m[a[:2]], r) + rom[b[:2]]
    o <<= t
    r.next <<= (r + a)[:70]
    m[b[:2]] <<= pyrtl.MemBlock.EnabledWrite(a, a == b)
    block = pyrtl.working_block()
    idents = set()
    fs = pyrtl.FastSimulation(tracer=pyrtl.SimulationTrace(wires_to_track='all', block=block), block=block)
    idents.update(re.findall(r'[A-Za-z_][A-Za-z_0-9]*', fs._compiled()))
    pre = getattr(fs.internal_names, 'internal_prefix', '')          # the sanitizer's own temporaries
    if pre:
        idents.update([pre, pre + '0', pre + '1', pre + '2', pre + '10', pre + 'x'])
    cs = pyrtl.CompiledSimulation(tracer=pyrtl.SimulationTrace(block=block), block=block)
    import os
    with open(os.path.join(cs._dir, 'pyrtlsim.c')) as f:
        idents.update(re.findall(r'[A-Za-z_][A-Za-z_0-9]*', f.read()))
    del cs
    own = {w.name for w in block.wirevector_set}
    pyrtl.reset_working_block()
    return sorted(x for x in idents if x not in own and len(x) < 24)


def hostile_pool():
    """names a design may legally carry and that could confuse a code generator"""
    if not _HOSTILE_POOL:
        import keyword
        import builtins
        emitted = emitted_identifiers()
        temps = set()
        for x in emitted:                         # internal temporaries of each generator: the name, its prefix, neighbours
            mt = re.match(r'^(.*?)(\d+)(_?.*)$', x)
            if mt and mt.group(1):
                temps.update([x, mt.group(1), mt.group(1) + '0', mt.group(1) + '1', mt.group(1) + '999' + mt.group(3)])
        temps.update(['_fastsim_tmp_', '_fastsim_tmp_0', '_fastsim_tmp_1', '_fastsim_tmp_2', '_sani_temp0', '_vcd_tmp_0',
                      'tmp0', 'tmp1', 'tmp', 'const_0_1', 'regtmp0', 'regtmp1', 't0', 't1', 'w0_', 'm0_'])
        py_names = list(keyword.kwlist) + ['int', 'len', 'print', 'str', 'dict', 'list', 'bool', 'max', 'sum', 'id',
                                           'type', 'object', 'self', 'exec', 'compile', 'range', '__builtins__',
                                           '__name__', 'd', 'regs', 'outs', 'mem_ws', 'sim_func', 'get', 'append']
        py_names += [x for x in dir(builtins) if x.islower() and len(x) <= 5][:25]
        pool = []
        for grp in (py_names, emitted, sorted(temps), C_KEYWORDS, NEED_SANITISING, NEAR_DUPLICATES):
            for x in grp:
                if x and x not in pool:
                    pool.append(x)
        _HOSTILE_POOL.extend(pool)
    return _HOSTILE_POOL


def apply_hostile_names(rng, d, frac):
    """rename a fraction of the inputs, outputs, registers, internal wires, constants and memories of a
    built design with names from the hostile pool (WireVector.name is a documented read/write property)"""
    block = d.block
    pool = list(hostile_pool())
    rng.shuffle(pool)
    used = set(block.wirevector_by_name)
    renamed = []
    for w in sorted(block.wirevector_set, key=lambda x: x.name):
        if rng.random() >= frac:
            continue
        while pool and pool[-1] in used:
            pool.pop()
        if not pool:
            break
        nm = pool.pop()
        used.add(nm)
        renamed.append((type(w).__name__, w.name, nm))
        w.name = nm
    for m in block_mems(block):
        if rng.random() < frac:
            m.name = rng.choice(hostile_pool())       # memory names need not even be unique
            renamed.append(('Mem', m.id, m.name))
    d.renamed = renamed
    return d


# ---- multi-limb arithmetic ---------------------------------------------------------------------
BIG_WIDTHS = [129, 130, 160, 191, 192, 193, 256, 257, 260]
LIMB_ATOMS = [0, 1, (1 << 64) - 1, (1 << 64) - 2, 1 << 63, (1 << 63) - 1, (1 << 32) - 1, 1 << 32]


def limb_pattern_value(rng, w):
    """value in [0, 2^w) from classes that stress the carry / partial-product chains of EVERY limb"""
    r = rng.random()
    top = (1 << w) - 1
    if r < 0.12:
        return top                                             # all-ones in every limb
    if r < 0.20:
        return top - 1
    if r < 0.26:
        return 1 << (w - 1)
    if r < 0.50:                                               # each limb an extreme pattern or random
        v = 0
        for k in range((w + 63) // 64):
            limb = rng.choice(LIMB_ATOMS) if rng.random() < 0.7 else rng.getrandbits(64)
            v |= limb << (64 * k)
        return v & top
    if r < 0.60:                                               # dense, all high bits set
        return top ^ rng.getrandbits(max(w - 8, 1))
    return rng.getrandbits(w)                                  # random dense


def biglimb_design(rng, i):
    """`*`, `+`, `-`, comparisons and accumulations on operands of three to five 64-bit limbs"""
    pyrtl.reset_working_block()
    block = pyrtl.working_block()
    d = gen_designs.Design(block)
    W = BIG_WIDTHS[i % len(BIG_WIDTHS)]
    W2 = rng.choice([65, 100, 128, 129, W - 1, W])
    a, b, c = pyrtl.Input(W, 'a'), pyrtl.Input(W, 'b'), pyrtl.Input(W2, 'c')
    s = pyrtl.Input(1, 's')
    d.inputs = [a, b, c, s]
    acc = pyrtl.Register(2 * W, 'acc')
    cnt = pyrtl.Register(W, 'cnt')
    d.regs = [acc, cnt]
    prod = a * b
    items = [('mul', prod), ('mul_ac', a * c), ('sq', a * a), ('mul_lo', prod[:W]), ('mul_hi', prod[W:]),
             ('add', a + b), ('addc', a + c), ('sub', a - b), ('subc', c - a), ('add3', (a + b) + c),
             ('lt', a < b), ('gt', a > b), ('eq', a == b), ('le', a <= c), ('ge', c >= b),
             ('mac', acc + prod), ('dec', cnt - a), ('mulreg', cnt * b), ('neg', ~a + 1),
             ('muxmul', pyrtl.select(s, prod, (b * b)))]
    for nm, w in items:
        probe(block, 'o_' + nm, w)
        d.ops.append(nm)
    acc.next <<= (acc + prod)[:2 * W]
    cnt.next <<= (cnt - a + pyrtl.select(s, b, c.zero_extended(W)))[:W]
    pool = [a, b, cnt]
    for k, dw in enumerate(sorted({W + 1, 2 * W - 1, 128, 129, 192, 193, 2 * W - 64})):   # truncated products
        if dw < 2 * W:
            x, y = rng.choice(pool), rng.choice(pool)
            probe(block, 'rawmul%d_o' % k, raw_net(block, '*', None, (x, y), dw, 'rawmul%d' % k))
    for k, (op, nat) in enumerate([('+', W + 1), ('-', W + 1), ('+', W + 1), ('-', W + 1)]):
        x, y = rng.choice(pool), rng.choice(pool)
        probe(block, 'rawas%d_o' % k, raw_net(block, op, None, (x, y), narrower(rng, nat), 'rawas%d' % k))
    d.big_w = W
    return d


def biglimb_stimulus(rng, block, ncycles):
    regmap, memmap, _ = make_stimulus(rng, block, 0)
    for r in list(regmap):
        regmap[r] = limb_pattern_value(rng, len(r))
    ins = sorted(block.wirevector_subset(pyrtl.Input), key=lambda w: w.name)
    inputs = [{w.name: limb_pattern_value(rng, len(w)) for w in ins} for _ in range(ncycles)]
    return regmap, memmap, inputs


def pick_default_value(rng, block, family):
    """default_value: mostly 0; otherwise small, or LARGER than what some memory / register / wire of the
    design can hold (a simulator-wide constant need not fit a particular memory)"""
    p_zero = {'memhash': 1.0, 'modules': 0.5, 'biglimb': 0.9}.get(family, 0.8)
    if rng.random() < p_zero:
        return 0
    widths = sorted({m.bitwidth for m in block_mems(block)} | {len(r) for r in block.wirevector_subset(pyrtl.Register)}
                    | {len(w) for w in block.wirevector_subset(pyrtl.Output)})
    cands = [1, 1, 0xA5, (1 << 64) | 5, (1 << 130) + 3]
    for w in widths[:4] + widths[-2:]:
        cands += [1 << w, (1 << w) - 1, (1 << w) | 1, (3 << w) | rng.getrandbits(max(w, 1))]
    return rng.choice(cands)


def shield_registers(rng, block, regmap, dflt):
    """a default_value that does not fit a register is not a legal initial value of that register (the
    simulators disagree with each other and with the documentation about it, outside C02's statement: see
    ASSUMPTIONS): such registers get an explicit in-range register_value_map entry instead"""
    for r in block.wirevector_subset(pyrtl.Register):
        if r not in regmap and r.reset_value is None and dflt >= (1 << len(r)):
            regmap[r] = gen_designs.boundary_value(rng, len(r))
    return regmap


MEMHASH_AW = [9, 12, 16, 33]
MEMHASH_OFFSETS = {9: [0, 256], 12: [0, 256, 512, 2048], 16: [0, 256, 512, 25600],
                   33: [0, 256, 512, 1 << 32, (1 << 32) + 256]}


def memhash_design(rng, aw, dw):
    """one wide-data memory with a large address space: CompiledSimulation keeps it in a chained hash map
    with 256 buckets (key % 256), so addresses k, k+256, k+512, k+2^32 share a bucket"""
    pyrtl.reset_working_block()
    block = pyrtl.working_block()
    d = gen_designs.Design(block)
    waddr, wdata, we = pyrtl.Input(aw, 'waddr'), pyrtl.Input(dw, 'wdata'), pyrtl.Input(1, 'we')
    ra, rb = pyrtl.Input(aw, 'raddr'), pyrtl.Input(aw, 'raddr2')
    d.inputs = [waddr, wdata, we, ra, rb]
    m = pyrtl.MemBlock(bitwidth=dw, addrwidth=aw, name='hm', max_read_ports=None, max_write_ports=None,
                       asynchronous=True)
    d.mems = [m]
    ra_v, rb_v = pyrtl.as_wires(m[ra]), pyrtl.as_wires(m[rb])
    probe(block, 'o_ra', ra_v)
    probe(block, 'o_rb', rb_v)
    acc = pyrtl.Register(dw, 'acc')
    acc.next <<= acc ^ ra_v
    d.regs = [acc]
    probe(block, 'o_acc', acc + rb_v)
    m[waddr] <<= pyrtl.MemBlock.EnabledWrite(wdata, we)
    d.ops = ['memhash:aw%d' % aw]
    d.aw, d.dw = aw, dw
    return d


def memhash_stimulus(rng, block, aw, dw):
    """initial map with two colliding addresses; further colliding keys inserted at run time in a random
    order, one per cycle; a disabled write to yet another colliding key; read-back of every address in
    both orders on the two read ports; overwrites of keys in the middle / at the end of a chain; read-back"""
    mem = [m for m in block_mems(block) if not isinstance(m, pyrtl.RomBlock)][0]
    top = 1 << aw
    k = rng.randrange(256)
    k2 = (k + 1 + rng.randrange(254)) % 256
    chain = [k + o for o in MEMHASH_OFFSETS[aw] if k + o < top]
    chain2 = [a for a in (k2, k2 + 256) if a < top]
    val = lambda: gen_designs.boundary_value(rng, dw) or 1          # noqa: E731  (non-zero: a lost word reads 0)
    memmap = {mem: {chain[0]: val(), chain[1]: val(), chain2[0]: val()}}
    ghost = [a for a in (k + 768, k + 1024) if a < top and a not in chain]
    every = chain + chain2
    inputs = []

    def step(wa, wd, en, r1, r2):
        inputs.append({'waddr': wa, 'wdata': wd, 'we': en, 'raddr': r1, 'raddr2': r2})
    order = chain[2:] + chain2[1:] + [chain[0]]
    rng.shuffle(order)
    prev = chain[0]
    for a in order:                                   # run-time inserts into occupied buckets
        step(a, val(), 1, prev, rng.choice(every))
        prev = a
    if ghost:
        step(ghost[0], val(), 0, prev, chain[0])      # disabled write: must not insert
    for i, a in enumerate(every):                     # read back, both orders
        step(rng.choice(every), val(), 0, a, every[len(every) - 1 - i])
    for a in (chain[1], chain[-1], chain2[0]):        # overwrite keys inside / at the end of a chain
        step(a, val(), 1, a, chain[0])
    perm = list(every)
    rng.shuffle(perm)
    for i, a in enumerate(perm):
        step(0, 0, 0, a, every[i])
    touched = sorted(set(every + ghost + [0, top - 1]))
    return {}, memmap, inputs, touched


def synth_cost(block):
    c = 0
    for n in block.logic:
        w = max([len(x) for x in n.args] + [1])
        if n.op == '*':
            c += 6 * w * w
        elif n.op in '+-<>=':
            c += 8 * w
        else:
            c += w
    return c


def block_variants(block, label):
    out = [('pre', block)]
    if synth_cost(block) <= MAX_SYNTH_COST:
        for merge in (True, False):
            try:
                out.append(('synth-merged' if merge else 'synth-unmerged',
                            pyrtl.synthesize(update_working_block=False, merge_io_vectors=merge, block=block)))
            except Exception as e:  # noqa  (a pass refusing / crashing on a block is C03/C04's subject)
                out.append(('unavailable:synth-%s: %s: %s' % ('merged' if merge else 'unmerged',
                                                              type(e).__name__, str(e)[:50]), None))
    try:
        out.append(('optimized', pyrtl.optimize(update_working_block=False, block=block)))
    except Exception as e:  # noqa
        out.append(('unavailable:optimize: %s: %s' % (type(e).__name__, str(e)[:50]), None))
    return out


# ----------------------------------------------------------------------------- stimulus / running

def block_mems(block):
    mems = {}
    for n in block.logic:
        if n.op in 'm@':
            mems[n.op_param[1].id] = n.op_param[1]
    return [mems[k] for k in sorted(mems)]


def make_stimulus(rng, block, ncycles):
    regs = sorted(block.wirevector_subset(pyrtl.Register), key=lambda w: w.name)
    ins = sorted(block.wirevector_subset(pyrtl.Input), key=lambda w: w.name)
    regmap = {r: gen_designs.boundary_value(rng, len(r)) for r in regs if rng.random() < 0.4}
    memmap = {}
    for m in block_mems(block):
        if not isinstance(m, pyrtl.RomBlock) and rng.random() < 0.6:
            memmap[m] = {a: gen_designs.boundary_value(rng, m.bitwidth)
                         for a in range(1 << m.addrwidth) if rng.random() < 0.5}
    inputs = [{w.name: gen_designs.boundary_value(rng, len(w)) for w in ins} for _ in range(ncycles)]
    return regmap, memmap, inputs


def sim_memmap(block, memmap):
    """Simulation on a PostSynthBlock looks the key up in block.mem_map"""
    if isinstance(block, pyrtl.core.PostSynthBlock):
        inv = {v: k for k, v in block.mem_map.items()}
        return {inv.get(m, m): dict(c) for m, c in memmap.items()}
    return {m: dict(c) for m, c in memmap.items()}


def mem_addr_list(case, m):
    """addresses of memory m that are compared: all of them, or (hash-collision family, whose
    address space is too large to enumerate) every touched address plus untouched neighbours"""
    addrs = case.get('mem_addrs')
    if addrs is not None:
        return addrs
    return list(range(1 << m.addrwidth))


def final_mems(case, getter, dflt):
    res = {}
    for m in block_mems(case['block']):
        if isinstance(m, pyrtl.RomBlock):
            continue
        view = getter(m)
        res[m.id] = {a: (view.get(a, dflt) if isinstance(view, dict) else view[a])
                     for a in mem_addr_list(case, m)}
    return res


def run_python_sims(case):
    block, regmap, memmap, inputs, dflt = (case['block'], case['regmap'], case['memmap'],
                                           case['inputs'], case['dflt'])
    res = {}
    for kind in ('sim', 'fast'):
        try:
            tracer = pyrtl.SimulationTrace(wires_to_track='all', block=block)
            if kind == 'sim':
                s = pyrtl.Simulation(tracer=tracer, register_value_map=dict(regmap),
                                     memory_value_map=sim_memmap(block, memmap),
                                     default_value=dflt, block=block)
                case['ordered_nets'] = list(s.ordered_nets)
            else:
                s = pyrtl.FastSimulation(tracer=tracer, register_value_map=dict(regmap),
                                         memory_value_map={m: dict(c) for m, c in memmap.items()},
                                         default_value=dflt, block=block)
                case['fast_src'] = s._compiled()
                case['fast_obj'] = s
            for step in inputs:
                s.step(dict(step))
            res[kind] = ({k: list(v) for k, v in tracer.trace.items()},
                         final_mems(case, s.inspect_mem, dflt))
        except Exception as e:  # noqa
            res[kind] = 'EXC %s: %s' % (type(e).__name__, str(e)[:200])
    return res


def run_plain(kind, case, bare):
    import time
    res = None
    for k in range(3 if kind == 'compiled' else 1):
        res = run_plain_once(kind, case, bare)
        if not (isinstance(res, str) and res.split()[1].rstrip(':') in
                ('CalledProcessError', 'OSError', 'MemoryError', 'BlockingIOError', 'FileNotFoundError')):
            return res
        time.sleep(1.5 * (k + 1))
    return res


def run_plain_once(kind, case, bare):
    """one more simulator instance of `kind`, built the way a user would: the block is the working block
    and every keyword whose value is the default is OMITTED (bare: no initial maps, no default_value, no
    tracer argument at all)"""
    block = case['block']
    cls = {'sim': pyrtl.Simulation, 'fast': pyrtl.FastSimulation, 'compiled': pyrtl.CompiledSimulation}[kind]
    kw = {}
    if not bare:
        if case['regmap']:
            kw['register_value_map'] = dict(case['regmap'])
        if case['memmap']:
            kw['memory_value_map'] = (sim_memmap(block, case['memmap']) if kind == 'sim'
                                      else {m: dict(c) for m, c in case['memmap'].items()})
        if case['dflt'] != 0:
            kw['default_value'] = case['dflt']
    try:
        with pyrtl.set_working_block(block, no_sanity_check=True):
            s = cls(**kw)
            for step in case['inputs']:
                s.step(dict(step))
            out = ({k: list(v) for k, v in s.tracer.trace.items()},
                   final_mems(case, s.inspect_mem, 0 if (bare or kind == 'compiled') else case['dflt']))
        del s
        return out
    except Exception as e:  # noqa
        return 'EXC %s: %s' % (type(e).__name__, str(e)[:200])


def repeat_instances(ctx, case, with_compiled):
    """every simulator kind is built MORE THAN ONCE on the same block in this process -- after earlier
    instances (of this block, and of sibling blocks sharing its memory ids) have run and written memories
    and registers: twice from the bare initial state with all keywords omitted, then once more from the
    case's stated initial state.  Each instance must equal a Simulation from the same initial state."""
    ref_bare = run_plain('sim', case, True)
    if isinstance(ref_bare, str):
        ctx.spec_violation('sim:raises:' + ref_bare.split()[1].rstrip(':'),
                           'Simulation() with all keywords omitted raised: ' + ref_bare, replay_dict(ctx, case))
        return
    main_ref = case['py']['sim']
    excl = case['dflt'] != 0 and case['has_mem']
    plan = [('sim', True, 2), ('fast', True, 1), ('fast', True, 2), ('fast', False, 3), ('sim', False, 3)]
    if with_compiled:
        plan += [('compiled', True, 1), ('compiled', True, 2)] + ([] if excl else [('compiled', False, 3)])
    for kind, bare, nth in plan:
        got = run_plain(kind, case, bare)
        ref = ref_bare if bare else main_ref
        what = '%s instance #%d of this block in the process, %s' % (
            {'sim': 'Simulation', 'fast': 'FastSimulation', 'compiled': 'CompiledSimulation'}[kind], nth,
            'all keywords omitted (bare initial state)' if bare else 'stated initial state, default keywords omitted')
        ctx.count('repeat_instances', '%s %s' % (kind, 'bare' if bare else 'stated'))
        sig = '%s:instance-%s' % (kind, 'bare' if bare else 'stated')
        if isinstance(got, str):
            ctx.spec_violation(sig + ':raises:' + got.split()[1].rstrip(':'), what + ' raised: ' + got,
                               replay_dict(ctx, case, {'instance': what}))
            continue
        if isinstance(ref, str):
            continue
        bad = [nm for nm in got[0] if nm in ref[0] and got[0][nm] != ref[0][nm]
               and not (kind == 'compiled' and nm in truncated_probes(case['block']))]
        if bad or got[1] != ref[1]:
            nm = sorted(bad)[0] if bad else None
            ctx.spec_violation(sig, what + ' differs from a Simulation from the same initial state: ' + (
                'wire %s %s instead of %s' % (nm, got[0][nm][:6], ref[0][nm][:6]) if nm else
                'final memory contents %s instead of %s' % (str(got[1])[:150], str(ref[1])[:150])),
                replay_dict(ctx, case, {'instance': what, 'wire': nm}))


def run_compiled(case, attempts=3):
    """a failing gcc / OS call can be a transient effect of a loaded machine (fork, memory, tmp space): the
    build is retried; only a failure that persists over all attempts is reported (a C text gcc rejects is
    deterministic and still surfaces)"""
    import subprocess
    import time
    res = None
    for k in range(attempts):
        res = run_compiled_once(case)
        if not (isinstance(res, str) and res.split()[1].rstrip(':') in
                ('CalledProcessError', 'OSError', 'MemoryError', 'BlockingIOError', 'FileNotFoundError')):
            return res
        time.sleep(1.5 * (k + 1))
    return res


def run_compiled_once(case):
    block, regmap, memmap, inputs, dflt = (case['block'], case['regmap'], case['memmap'],
                                           case['inputs'], case['dflt'])
    try:
        tracer = pyrtl.SimulationTrace(block=block)
        s = pyrtl.CompiledSimulation(tracer=tracer, register_value_map=dict(regmap),
                                     memory_value_map={m: dict(c) for m, c in memmap.items()},
                                     default_value=dflt, block=block)
        if case['idx'] % 2:
            s.run([dict(st) for st in inputs])          # one call
        else:
            for step in inputs:                          # step by step
                s.step(dict(step))
        out = ({k: list(v) for k, v in tracer.trace.items()}, final_mems(case, s.inspect_mem, 0))
        del s
        return out
    except Exception as e:  # noqa
        return 'EXC %s: %s' % (type(e).__name__, str(e)[:200])


# ----------------------------------------------------------------------------- attribution

def straddles(net):
    """does some limb-piece of this concat cross a 64-bit boundary of the destination?"""
    pos = 0
    for a in reversed(net.args):
        bw = len(a)
        lx = 0
        while lx * 64 < bw:
            size = min(64, bw - 64 * lx)
            if pos // 64 != (pos + size - 1) // 64:
                return True
            pos += size
            lx += 1
    return False


def natural_width(net):
    if net.op in 'w~&|^nrx':
        return len(net.args[-1])
    if net.op in '+-':
        return len(net.args[0]) + 1
    if net.op == '*':
        return 2 * len(net.args[0])
    if net.op == 'c':
        return sum(len(a) for a in net.args)
    if net.op == 's':
        return len(net.op_param)
    return len(net.dests[0]) if net.dests else 0


def truncating(net):
    return bool(net.dests) and len(net.dests[0]) < natural_width(net)


def net_signature(simname, net):
    if net is None:
        return '%s:?' % simname
    if net.op == 'c' and simname == 'compiled' and straddles(net):
        return 'compiled:concat-limb-straddle'
    if simname == 'fast' and net.op in 'xcs' and truncating(net):
        return 'fast:%s-truncating-dest' % net.op      # `mask & <unparenthesised expr>`
    if simname == 'compiled' and net.op == 'r' and truncating(net):
        return 'compiled:r-truncating-dest'            # register copy without mask
    wide = any(len(w) > 64 for w in net.args + net.dests)
    return '%s:%s%s' % (simname, net.op, ':limb' if wide else '')


def truncated_probes(block):
    """names of non-I/O wires with a `w` net to a NARROWER Output (CompiledSimulation may pick it as probe)"""
    out = set()
    for n in block.logic:
        if n.op == 'w' and isinstance(n.dests[0], pyrtl.Output) and len(n.dests[0]) < len(n.args[0]) \
                and not isinstance(n.args[0], (pyrtl.Input, pyrtl.Output)):
            out.add(n.args[0].name)
    return out


def observable_map(block, traced):
    """wire name -> traced name showing exactly its value (itself, or a same-or-wider probe Output)"""
    obs = {}
    bad_probe = truncated_probes(block)
    for nm in traced:
        if nm not in bad_probe:
            obs[nm] = nm
    for n in sorted((x for x in block.logic if x.op == 'w'), key=lambda x: x.dests[0].name):
        if n.dests[0].name in traced and len(n.dests[0]) >= len(n.args[0]):
            obs.setdefault(n.args[0].name, n.dests[0].name)
    return obs


def first_bad_net(block, order, ref, got, ncyc):
    """first (cycle, net in block order) whose observable destination differs"""
    traced = set(got)
    obs = observable_map(block, traced)
    for t in range(ncyc):
        for n in order:
            if not n.dests:
                continue
            dn = n.dests[0].name
            if isinstance(n.dests[0], pyrtl.Register):
                continue
            o = obs.get(dn)
            if o is None or dn not in ref:
                continue
            if got[o][t] != ref[dn][t]:
                # walk back through plain wire nets to the op that computed the value
                src = n
                while src.op == 'w':
                    if len(src.dests[0]) < len(src.args[0]):
                        break
                    prev = [p for p in order if p.dests and p.dests[0] is src.args[0]]
                    if not prev:
                        break
                    if prev[0].op == 'r':
                        # a register is only as good as the value latched: blame a truncating `r` net
                        if truncating(prev[0]):
                            src = prev[0]
                        break
                    src = prev[0]
                return t, n, src, ref[dn][t], got[o][t]
        for nm in sorted(traced):
            if nm in ref and got[nm][t] != ref[nm][t]:
                w = block.wirevector_by_name[nm]
                if isinstance(w, pyrtl.Register):
                    rn = [p for p in order if p.op == 'r' and p.dests[0] is w]
                    return t, rn[0] if rn else None, rn[0] if rn else None, ref[nm][t], got[nm][t]
                return t, None, None, ref[nm][t], got[nm][t]
    return None


def replay_dict(ctx, case, extra=None):
    block = case['block']
    rep = {'seed': ctx.seed, 'tier': ctx.tier, 'design': case['design'], 'variant': case['variant'],
           'family': case['family'],
           'wires': {w.name: [type(w).__name__, len(w)] for w in sorted(block.wirevector_set, key=lambda x: x.name)}
           if len(block.wirevector_set) < 200 else '(large)',
           'nets': [str(n) for n in case.get('ordered_nets', [])][:250],
           'inputs': case['inputs'], 'default_value': case['dflt'],
           'regmap': {r.name: v for r, v in case['regmap'].items()},
           'memmap': {'%s#id%d' % (m.name, m.id): c for m, c in case['memmap'].items()},
           'renamed': case.get('renamed')}
    rep.update(extra or {})
    return rep


# ----------------------------------------------------------------------------- Coq expressions

def hexlit(v):
    """Coq parses `0x..` numerals in time linear in their length (decimal: quadratic)"""
    if v < 0:
        return '(%d)' % v
    return str(v) if v < (1 << 30) else hex(v)


def hexpairs(d):
    return '[' + '; '.join('(%s, %s)' % (hexlit(k), hexlit(v)) for k, v in d) + ']'


class HexDump(nlx.Dump):
    """nlx.Dump with large values written as hexadecimal numerals"""

    def kind(self, w):
        if isinstance(w, pyrtl.Const):
            return '(KConst %s)' % hexlit(w.val)
        if isinstance(w, pyrtl.Register) and w.reset_value is not None:
            return '(KReg (Some %s))' % hexlit(w.reset_value)
        return nlx.Dump.kind(self, w)

    def regmap(self, regmap):
        return hexpairs(sorted((self.wid[r], v) for r, v in regmap.items()))

    def memmap(self, memmap):
        return '[' + '; '.join('(%d, %s)' % (m.id, hexpairs(sorted(d.items())))
                               for m, d in sorted(memmap.items(), key=lambda kv: kv[0].id)) + ']'

    def inputs(self, seq):
        byname = self.block.wirevector_by_name
        return '[' + '; '.join(
            hexpairs(sorted((self.wid[byname[nm]], v) for nm, v in step.items()))
            for step in seq) + ']'

    def mem(self, memid, m):
        if isinstance(m, pyrtl.RomBlock):
            tab = []
            for a in range(1 << m.addrwidth):
                try:
                    tab.append((a, m._get_read_data(a)))
                except pyrtl.PyrtlError:
                    pass
            return 'mkMem %d %d %d (Some %s)' % (memid, m.addrwidth, m.bitwidth, hexpairs(tab))
        return nlx.Dump.mem(self, memid, m)


FP_P = (1 << 61) - 1


def fingerprint(row):
    h = 7
    for x in row:
        h = (h * 1000003 + x % FP_P) % FP_P
    return h


def coq_args(dump, case, probes):
    return '%s %d %s %s %s %s' % (
        dump.coq(), case['dflt'], dump.regmap(case['regmap']), dump.memmap(case['memmap']),
        dump.inputs(case['inputs']), nlx.pairs(probes))


def climb_check_expr(net, vals, expected):
    if net.op == 's':
        op = '(OpSelect %s)' % nlx.zlist(net.op_param)
    else:
        op = nlx.OPNAME[net.op]
    args = hexpairs([(v, len(a)) for v, a in zip(vals, net.args)])
    return '(%s, %s, %d, %s)' % (op, args, len(net.dests[0]), hexlit(expected))


def climb_expr(net, vals):
    if net.op == 's':
        op = '(OpSelect %s)' % nlx.zlist(net.op_param)
    else:
        op = nlx.OPNAME[net.op]
    args = nlx.pairs([(v, len(a)) for v, a in zip(vals, net.args)])
    return '(%s, %s, %d)' % (op, args, len(net.dests[0]))


MASK_RE = re.compile(r'^(\d+) & ')


def fast_elision_from_source(case):
    """per net of case['ordered_nets']: 1 = `dest = expr`, 0 = `dest = mask & expr`, 2 = '@' (no assignment)"""
    fs = case['fast_obj']
    src_lines = [ln for ln in case['fast_src'].split('\n') if ln.startswith('    ')]
    flags = []
    for n in case['ordered_nets']:
        if n.op == '@':
            flags.append(2)
            continue
        prefix = '    %s = ' % fs._dest_varname(n.dests[0])
        rhs = next((ln[len(prefix):] for ln in src_lines if ln.startswith(prefix)), None)
        if rhs is None:
            flags.append(-1)
            continue
        m = MASK_RE.match(rhs)
        flags.append(0 if (m and int(m.group(1)) == n.dests[0].bitmask) else 1)
    return flags


# ----------------------------------------------------------------------------- main

def name_class(nm):
    import keyword
    if keyword.iskeyword(nm):
        return 'python keyword'
    if nm in C_KEYWORDS:
        return 'C keyword/library'
    if nm in NEED_SANITISING or not re.match(r'^[A-Za-z_][A-Za-z_0-9]*$', nm):
        return 'needs sanitising'
    if nm in NEAR_DUPLICATES:
        return 'near-duplicate'
    if re.search(r'\d', nm) or nm.endswith('_'):
        return 'temporary-like'
    return 'identifier used by generated code / builtin'


def width_bucket(w):
    if w <= 8:
        return str(w)
    if w < 63:
        return '9-62'
    if w <= 65:
        return str(w)
    if w < 127:
        return '66-126'
    if w <= 129:
        return str(w)
    return '130+'


def run(ctx):
    import time
    t0 = time.time()
    marks = []

    def mark(name):
        marks.append('%s=%.1fs' % (name, time.time() - t0))
    quick = ctx.tier == 'quick'
    n_sweep = 18 if quick else 72
    n_random = 36 if quick else 760
    hostile_pool()                                # built once, before any design exists (it resets the working block)

    designs = []                                  # a design whose generation hits an error is measured, not fatal

    def guarded(family, i, build):
        try:
            designs.append((family, i, build()))
        except Exception as e:  # noqa
            ctx.count('design_generation_error', '%s: %s: %s' % (family, type(e).__name__, str(e)[:60]))
    for i in range(n_sweep):
        rng = ctx.sub_rng('sweep', i)
        guarded('sweep', i, lambda: sweep_design(rng, SWEEP_WIDTHS[i % 6], i // 6))   # i//6 % 3 == 2: with truncating x/c/s
    n_modules = 6 if quick else 60
    for i in range(n_modules):                    # one sub-module instantiated several times
        rng = ctx.sub_rng('modules', i)
        guarded('modules', i, lambda: modules_design(rng))
    n_hostile = 12 if quick else 120
    for i in range(n_hostile):                    # hostile names on every kind of wire and on memories
        rng = ctx.sub_rng('hostile', i)
        def hostile_build():
            d = sweep_design(rng, SWEEP_WIDTHS[(i // 6) % 6], i // 6) if i % 6 == 0 else random_design(rng, i % 2 == 1)
            d = apply_hostile_names(rng, d, rng.choice([0.35, 0.7, 1.0]))
            for kind, _, nm in d.renamed:
                ctx.count('hostile_names', '%s: %s' % (kind if kind != 'WireVector' else 'Wire', name_class(nm)))
            return d
        guarded('hostile', i, hostile_build)
    n_biglimb = 9 if quick else 72
    for i in range(n_biglimb):                    # 3..5-limb multiplications, additions, subtractions, comparisons
        rng = ctx.sub_rng('biglimb', i)
        guarded('biglimb', i, lambda: biglimb_design(rng, i))
    n_memhash = 8 if quick else 48
    for i in range(n_memhash):                    # hash-map collisions in the C memories
        rng = ctx.sub_rng('memhash', i)
        guarded('memhash', i, lambda: memhash_design(rng, MEMHASH_AW[i % 4], rng.choice([65, 70, 128, 129])))
    for i in range(n_random):
        rng = ctx.sub_rng('random', i)
        guarded('random', i, lambda: random_design(rng, i % 2 == 1))

    # phase 1: variants, stimulus, Python simulators (main thread: PyRTL's working block is global)
    cases = []
    for family, i, d in designs:
        for variant, block in block_variants(d.block, (family, i)):
            if block is None:
                # synthesize/optimize refusing a design is C03/C04's business; measured, not judged here
                ctx.count('variant_unavailable', variant[:70])
                continue
            rng = ctx.sub_rng('stim', family, i, variant)
            ncyc = rng.randint(3, 6 if quick else 12)
            mem_addrs = None
            if family == 'memhash':
                if variant == 'synth-unmerged':
                    continue                      # its inputs are per-bit; the other three variants cover it
                regmap, memmap, inputs, mem_addrs = memhash_stimulus(rng, block, d.aw, d.dw)
            elif family == 'modules':
                regmap, memmap, inputs = make_stimulus(rng, block, ncyc + 6)
                memmap = distinct_memmaps(rng, block, memmap)
            elif family == 'biglimb':
                regmap, memmap, inputs = biglimb_stimulus(rng, block, ncyc + 8)
            else:
                regmap, memmap, inputs = make_stimulus(rng, block, ncyc)
            has_mem = any(not isinstance(m, pyrtl.RomBlock) for m in block_mems(block))
            dflt = pick_default_value(rng, block, family)
            regmap = shield_registers(rng, block, regmap, dflt)
            ctx.count('default_value', '0' if dflt == 0 else '1' if dflt == 1 else
                      'exceeds some memory bitwidth' if any(dflt >= (1 << m.bitwidth) for m in block_mems(block)
                                                           if not isinstance(m, pyrtl.RomBlock))
                      else 'other non-zero')
            case = dict(idx=len(cases), family=family, design=i, variant=variant, block=block, mem_addrs=mem_addrs,
                        regmap=regmap, memmap=memmap, inputs=inputs, dflt=dflt, has_mem=has_mem,
                        ops=list(d.ops), renamed=getattr(d, 'renamed', None) if variant == 'pre' else None)
            case['py'] = run_python_sims(case)
            if (has_mem or regmap or block.wirevector_subset(pyrtl.Register)) and len(block.logic) <= 400 \
                    and not isinstance(case['py']['sim'], str):
                n_comp = sum(1 for c in cases if c.get('repeat_compiled'))
                case['repeat_compiled'] = bool(has_mem and len(block.logic) <= 150
                                               and n_comp < (14 if quick else 90) and len(cases) % 3 == 0)
                repeat_instances(ctx, case, case['repeat_compiled'])
            if 'fast_obj' in case:                # keep the flags, not the generated program (memory)
                if len(block.logic) <= MAX_COQ_NETS:          # only compared for Coq-evaluated cases
                    case['src_flags'] = fast_elision_from_source(case)
                del case['fast_obj'], case['fast_src']
            cases.append(case)
    pyrtl.reset_working_block()
    mark('build+python-sims')

    # phase 2: CompiledSimulation (gcc) in parallel threads
    with concurrent.futures.ThreadPoolExecutor(max_workers=WORKERS) as ex:
        comp = list(ex.map(run_compiled, cases))
    for case, c in zip(cases, comp):
        case['comp'] = c
    mark('compiled')

    # phase 3: Coq evaluation of the reference semantics and of the Fast model
    coq_cases = []
    spec_exprs = []
    for case in cases:
        if isinstance(case['py']['sim'], str):
            continue
        if len(case['block'].logic) > MAX_COQ_NETS:
            ctx.count('coq_evaluated', 'no (block too large)')
            continue
        ctx.count('coq_evaluated', 'yes')
        dump = HexDump(case['block'], net_order=case['ordered_nets'])
        probes = [(m.id, a) for m in block_mems(case['block']) if not isinstance(m, pyrtl.RomBlock)
                  for a in mem_addr_list(case, m)]
        case['dump'] = dump
        case['probes'] = probes
        spec_exprs.append(coq_args(dump, case, probes))
        coq_cases.append(case)
    shard = 8 if quick else 20
    try:
        fp_res = ctx.coq_eval(['c02_case ' + e for e in spec_exprs], IMPORTS_FAST, tag='c02fp',
                              shard=shard, jobs=WORKERS)
    except Exception as e:  # noqa
        fp_res = None
        ctx.model_mismatch('Sim/FastModel.v could not be evaluated: %s' % str(e)[-600:], {})
    # routine comparison by fingerprint; every value is fetched (spec_case / fastmodel_case) only for
    # the cases whose fingerprints differ from the implementation's
    full_spec, full_fast = [], []
    for k, case in enumerate(coq_cases):
        dn = case['dump'].names()
        ncyc = len(case['inputs'])
        sim_tr, sim_mem = case['py']['sim']
        sim_rows = [[sim_tr[nm][t] for nm in dn] for t in range(ncyc)]
        sim_flat = [sim_mem[mid][a] for (mid, a) in case['probes']]
        fast = case['py']['fast']
        if isinstance(fast, str):
            f_rows, f_flat = sim_rows, sim_flat
        else:
            f_rows = [[fast[0][nm][t] for nm in dn] for t in range(ncyc)]
            f_flat = [fast[1][mid][a] for (mid, a) in case['probes']]
        if fp_res is None:
            full_spec.append(k)
            case['fastmodel'] = None
            continue
        r = fp_res[k]
        if r[3] == [fingerprint(row) for row in sim_rows] and r[2][0] == fingerprint(sim_flat):
            case['spec'] = [[r[0][0]], sim_flat] + sim_rows
            ctx.count('coq_comparison', 'spec: fingerprints equal')
        else:
            full_spec.append(k)
            ctx.count('coq_comparison', 'spec: fingerprints differ -> all values fetched')
        if r[4] == [fingerprint(row) for row in f_rows] and r[2][1] == fingerprint(f_flat):
            case['fastmodel'] = [r[0], r[1], f_flat] + f_rows
            ctx.count('coq_comparison', 'fastmodel: fingerprints equal')
        else:
            full_fast.append(k)
            ctx.count('coq_comparison', 'fastmodel: fingerprints differ -> all values fetched')
    if full_spec:
        res = ctx.coq_eval(['spec_case ' + spec_exprs[k] for k in full_spec], IMPORTS_SPEC, tag='c02spec',
                           shard=4, jobs=WORKERS)
        for k, r in zip(full_spec, res):
            coq_cases[k]['spec'] = r
    if full_fast:
        res = ctx.coq_eval(['fastmodel_case ' + spec_exprs[k] for k in full_fast], IMPORTS_FAST, tag='c02fast',
                           shard=4, jobs=WORKERS)
        for k, r in zip(full_fast, res):
            coq_cases[k]['fastmodel'] = r
    mark('coq-spec+fast')

    # whole-design C model (Sim/CEmitModel.v) on the same cases
    cem_exprs = []
    for k, case in enumerate(coq_cases):
        comp = case['comp']
        byname = case['block'].wirevector_by_name
        if isinstance(comp, str):
            obs_names = []
        else:
            sus = truncated_probes(case['block'])
            obs_names = sorted(nm for nm in comp[0] if nm not in sus and nm in byname)
        case['cemit_obs'] = obs_names
        cem_exprs.append('cemit_case %s %s' % (spec_exprs[k], nlx.zlist([case['dump'].wid[byname[nm]] for nm in obs_names])))
    try:
        cem_res = ctx.coq_eval(cem_exprs, IMPORTS_CEMIT, tag='c02cemit', shard=shard, jobs=WORKERS)
        for case, r in zip(coq_cases, cem_res):
            case['cemit'] = r
    except Exception as e:  # noqa
        ctx.model_mismatch('Sim/CEmitModel.v could not be evaluated: %s' % str(e)[-600:], {})
    mark('coq-cemit')

    # the C hash map model (Sim/CEmitHash.v) replays every memory's history: initialize_mems() inserts in
    # memory_value_map order, then the enabled writes cycle by cycle (operands from Simulation's trace)
    hm_jobs = []
    for case in cases:
        if isinstance(case['py']['sim'], str) or isinstance(case['comp'], str):
            continue
        if case['dflt'] != 0 and case['has_mem']:
            continue          # the write operands come from Simulation's trace, which legitimately differs here
        trace = case['py']['sim'][0]
        for m in block_mems(case['block']):
            if isinstance(m, pyrtl.RomBlock):
                continue
            nl_ = (m.bitwidth + 63) // 64
            limbs = lambda v: [(v >> (64 * k)) & ((1 << 64) - 1) for k in range(nl_)]   # noqa: E731
            ops = [(a, limbs(v)) for a, v in case['memmap'].get(m, {}).items()]
            wnets = [n for n in case['ordered_nets'] if n.op == '@' and n.op_param[1] is m]
            for t in range(len(case['inputs'])):
                for n in wnets:
                    if trace[n.args[2].name][t]:
                        ops.append((trace[n.args[0].name][t], limbs(trace[n.args[1].name][t])))
            addrs = mem_addr_list(case, m)
            if len(ops) > 300 or m.addrwidth > 64:
                continue
            hm_jobs.append((case, m, nl_, ops, addrs))
    if hm_jobs:
        try:
            hm_res = ctx.coq_eval(['hm_replay %d [%s] %s' % (
                nl_, '; '.join('(%s, %s)' % (hexlit(a), '[' + '; '.join(hexlit(x) for x in ls) + ']') for a, ls in ops),
                nlx.zlist(addrs)) for (_, _, nl_, ops, addrs) in hm_jobs], IMPORTS_HASH, tag='c02hash',
                shard=40, jobs=WORKERS)
            for (case, m, nl_, ops, addrs), res in zip(hm_jobs, hm_res):
                got = {a: sum(x << (64 * k) for k, x in enumerate(ls)) for a, ls in zip(addrs, res)}
                ctx.count('hashmap_replay', 'memories replayed')
                ctx.count('hashmap_replay_inserts', min(len(ops), 40) // 10 * 10)
                if got != case['comp'][1][m.id]:
                    ctx.model_mismatch('Sim/CEmitHash.v replay of memory %s#id%d differs from CompiledSimulation.inspect_mem'
                                       % (m.name, m.id), replay_dict(ctx, case, {'ops': str(ops)[:2000]}))
        except Exception as e:  # noqa
            ctx.model_mismatch('Sim/CEmitHash.v could not be evaluated: %s' % str(e)[-600:], {})
    mark('coq-hash')

    # CLimb samples: nets x cycles of the pre-synthesis / optimized blocks with operand values from Simulation
    samples = []
    per_case = 26 if quick else 14
    for case in cases:
        if case['variant'] not in ('pre', 'optimized') or isinstance(case['py']['sim'], str):
            continue
        rng = ctx.sub_rng('climb', case['family'], case['design'], case['variant'])
        trace = case['py']['sim'][0]
        nets = [n for n in case['ordered_nets'] if n.op in 'w~&|^n+-*<>=xcs']
        wide = [n for n in nets if any(len(w) > 64 for w in n.args + n.dests)]
        chosen = rng.sample(wide, min(len(wide), per_case)) + rng.sample(nets, min(len(nets), per_case // 3))
        for n in chosen:
            t = rng.randrange(len(case['inputs']))
            vals = [trace[a.name][t] for a in n.args]
            samples.append((case, n, t, vals) + climb_expected(case, n, t))
    try:
        chunk = 60
        climb_res = ctx.coq_eval(['climb_check [%s]' % '; '.join(
            climb_check_expr(n, vals, exp) for (_, n, _, vals, exp, _, _) in samples[k:k + chunk])
            for k in range(0, len(samples), chunk)], IMPORTS_CLIMB, tag='c02climb', shard=3, jobs=WORKERS)
        climb_bad = {}
        for ci, bad in enumerate(climb_res):
            for idx, got in bad:
                climb_bad[ci * chunk + idx] = got
    except Exception as e:  # noqa
        climb_bad = None
        ctx.model_mismatch('Sim/CLimb.v could not be evaluated: %s' % str(e)[-600:], {})

    mark('coq-climb')
    # phase 4: comparisons
    for case in cases:
        try:
            compare_case(ctx, case)
        except Exception as e:  # noqa  one broken comparison must not hide the other cases
            import traceback
            ctx.model_mismatch('harness exception while comparing %s %s %s: %s' % (
                case['family'], case['design'], case['variant'], traceback.format_exc()[-700:]), {})
    if climb_bad is not None:
        compare_climb(ctx, samples, climb_bad)
    roundtrip_check(ctx)
    mark('compare')
    ctx.notes.append('phase wall clock (cumulative): ' + ' '.join(marks))


def compare_case(ctx, case):
    block = case['block']
    sim, fast, comp = case['py']['sim'], case['py']['fast'], case['comp']
    ncyc = len(case['inputs'])
    ctx.count('variants', case['variant'])
    ctx.count('family', case['family'])
    for n in block.logic:
        wide = any(len(w) > 64 for w in n.args + n.dests)
        ctx.count('ops_all', n.op)
        if wide:
            ctx.count('ops_with_width_over_64', n.op)
        if case['variant'] == 'pre':
            for w in n.args:
                ctx.count('arg_widths_pre', width_bucket(len(w)))
        if n.op == 'c' and straddles(n):
            ctx.count('concat_with_straddling_piece', case['variant'])
    if isinstance(sim, str):
        ctx.spec_violation('simulation-rejects-design', 'pyrtl.Simulation raised on a sanity-checked block: ' + sim,
                           replay_dict(ctx, case))
        return
    order = case['ordered_nets']
    ref_trace, ref_mem = sim
    names = sorted(ref_trace)
    wires = block.wirevector_by_name
    varying = sum(1 for nm in names if len(set(ref_trace[nm])) > 1)
    nonconst = sum(1 for nm in names if not isinstance(wires[nm], pyrtl.Const))
    sample = None
    if case['idx'] in (0, 5):
        sample = {'family': case['family'], 'design': case['design'], 'variant': case['variant'],
                  'nets': [str(n) for n in order[:6]], 'inputs': case['inputs'][:1],
                  'trace_row0': {nm: ref_trace[nm][0] for nm in names[:6]}}
    ctx.case((case['family'], case['design'], case['variant'],
              tuple((nm, tuple(ref_trace[nm])) for nm in names)),
             nontrivial=(2 * varying >= nonconst), sample=sample)

    # ---- search: FastSimulation vs Simulation
    if isinstance(fast, str):
        ctx.spec_violation('fast:raises:' + fast.split()[1].rstrip(':'), 'FastSimulation raised where Simulation ran: ' + fast,
                           replay_dict(ctx, case))
    else:
        ftrace, fmem = fast
        ctx.count('compared', 'fast-vs-sim')
        if set(ftrace) != set(ref_trace):
            ctx.spec_violation('fast:traced-wire-set', 'FastSimulation traces a different set of wires',
                               replay_dict(ctx, case, {'only_sim': sorted(set(ref_trace) - set(ftrace))[:10],
                                                       'only_fast': sorted(set(ftrace) - set(ref_trace))[:10]}))
        common = {k: v for k, v in ftrace.items() if k in ref_trace}
        bad = first_bad_net(block, order, ref_trace, common, ncyc)
        if bad:
            t, n, src, exp, got = bad
            ctx.spec_violation(net_signature('fast', src),
                               'FastSimulation differs from Simulation at cycle %d, net %s: expected %s got %s'
                               % (t, src, exp, got),
                               replay_dict(ctx, case, {'first_difference': {'cycle': t, 'net': str(src), 'observed_at': str(n),
                                                                            'simulation': exp, 'fast': got}}))
        elif fmem != ref_mem:
            ctx.spec_violation('fast:@' + (':limb' if any(m.bitwidth > 64 for m in block_mems(block)) else ''),
                               'FastSimulation final memory contents differ from Simulation',
                               replay_dict(ctx, case, {'simulation_mem': ref_mem, 'fast_mem': fmem}))

    # ---- search: CompiledSimulation vs Simulation
    if case['dflt'] != 0 and case['has_mem']:
        ctx.count('compared', 'compiled excluded (non-zero default_value with memories: sanctioned)')
    elif isinstance(comp, str):
        ctx.spec_violation('compiled:raises:' + comp.split()[1].rstrip(':'), 'CompiledSimulation raised where Simulation ran: ' + comp,
                           replay_dict(ctx, case))
    else:
        ctrace, cmem = comp
        ctx.count('compared', 'compiled-vs-sim')
        ctx.count('compiled_traced_wires', min(len(ctrace), 40) // 10 * 10)
        # what a default tracer tracks (names that look internal -- tmp*, const_*, *' -- are left out by
        # SimulationTrace itself, for every simulator)
        default_tracked = set(pyrtl.SimulationTrace(block=block).trace)
        missing = [nm for nm in ref_trace if isinstance(wires[nm], (pyrtl.Input, pyrtl.Output))
                   and nm in default_tracked and nm not in ctrace]
        if missing:
            ctx.spec_violation('compiled:traced-wire-set', 'CompiledSimulation does not trace some Inputs/Outputs',
                               replay_dict(ctx, case, {'missing': missing[:10]}))
        # a wire traced through a probe Output (CompiledSimulation._probe_mapping) whose `w` net truncates
        suspect = truncated_probes(block)
        for nm in sorted(suspect & set(ctrace)):
            if nm in ref_trace and ctrace[nm] != ref_trace[nm]:
                ctx.spec_violation('compiled:probe-through-truncating-w',
                                   'CompiledSimulation reports wire %s through a NARROWER probe Output: %s instead of %s'
                                   % (nm, ctrace[nm][:3], ref_trace[nm][:3]),
                                   replay_dict(ctx, case, {'wire': nm, 'simulation': ref_trace[nm], 'compiled': ctrace[nm]}))
        common = {k: v for k, v in ctrace.items() if k in ref_trace and k not in suspect}
        bad = first_bad_net(block, order, ref_trace, common, ncyc)
        if bad:
            t, n, src, exp, got = bad
            ctx.spec_violation(net_signature('compiled', src),
                               'CompiledSimulation differs from Simulation at cycle %d, net %s: expected %s got %s'
                               % (t, src, exp, got),
                               replay_dict(ctx, case, {'first_difference': {'cycle': t, 'net': str(src), 'observed_at': str(n),
                                                                            'simulation': exp, 'compiled': got}}))
        elif cmem != ref_mem:
            ctx.spec_violation('compiled:@' + (':limb' if any(m.bitwidth > 64 for m in block_mems(block)) else ''),
                               'CompiledSimulation final memory contents differ from Simulation',
                               replay_dict(ctx, case, {'simulation_mem': ref_mem, 'compiled_mem': cmem}))

    # ---- vs the reference semantics and the Coq model
    if 'spec' not in case:
        return
    dump = case['dump']
    dnames = dump.names()
    res = case['spec']
    wf = res[0][0]
    spec_mem = res[1]
    spec_trace = {nm: [res[2 + t][k] for t in range(ncyc)] for k, nm in enumerate(dnames)}
    if wf != 1:
        ctx.model_mismatch('wfb is false on a sanity-checked block', replay_dict(ctx, case))
    probes = case['probes']
    for simname, result in (('sim', sim), ('fast', fast), ('compiled', comp)):
        if isinstance(result, str):
            continue
        if simname == 'compiled' and case['dflt'] != 0 and case['has_mem']:
            continue
        tr, mem = result
        skip = truncated_probes(block) if simname == 'compiled' else set()
        common = {k: v for k, v in tr.items() if k in spec_trace and k not in skip}
        bad = first_bad_net(block, order, spec_trace, common, ncyc)
        if bad:
            t, n, src, exp, got = bad
            sig = net_signature(simname, src) if simname != 'sim' else 'sim-vs-spec:op=%s' % (src.op if src else '?')
            ctx.spec_violation(sig, '%s differs from the reference semantics (Sem.v) at cycle %d, net %s: expected %s got %s'
                               % (simname, t, src, exp, got),
                               replay_dict(ctx, case, {'first_difference': {'cycle': t, 'net': str(src),
                                                                            'spec': exp, simname: got}}))
        else:
            flat = [mem[mid][a] for (mid, a) in probes]
            if flat != spec_mem:
                ctx.spec_violation('%s:@-vs-spec' % simname, '%s final memory differs from the reference semantics' % simname,
                                   replay_dict(ctx, case, {'spec_mem': spec_mem, 'got': flat}))
        ctx.count('compared', '%s-vs-spec' % simname)
    # ---- tie: Fast model
    fm = case['fastmodel']
    if fm is not None:
        trunc_xcs = [n for n in order if n.op in 'xcs' and truncating(n)]
        # fast_wfb may only fail because of truncating mux/concat/select nets, and only while the source's
        # masked assignment text is unparenthesised (Gen/FastOps.fast_mask_parenthesised = false)
        if fm[0][0] != 1 or (fm[0][1] != 1 and not trunc_xcs):
            ctx.model_mismatch('wfb / fast_wfb = %s on a sanity-checked block with %d truncating x/c/s nets'
                               % (fm[0], len(trunc_xcs)), replay_dict(ctx, case))
        ctx.count('fast_wfb', 'true (C02_fast_refines_spec applies)' if fm[0][1] == 1
                  else 'false (block has a truncating mux/concat/select net)')
        ctx.count('truncating_mux_concat_select_nets', len(trunc_xcs))
        model_flags = fm[1]
        model_mem = fm[2]
        model_trace = {nm: [fm[3 + t][k] for t in range(ncyc)] for k, nm in enumerate(dnames)}
        sim_mem_flat = [ref_mem[mid][a] for (mid, a) in probes]
        if not isinstance(fast, str):
            # the tie proper: the model is a model of FastSimulation (including its defects)
            if model_trace != {nm: fast[0][nm] for nm in dnames if nm in fast[0]} or \
                    model_mem != [fast[1][mid][a] for (mid, a) in probes]:
                ctx.model_mismatch('pyrtl.FastSimulation and Sim/FastModel.v disagree (%s %d %s)' % (
                    case['family'], case['design'], case['variant']), replay_dict(ctx, case))
        if fm[0][1] == 1 and (model_trace != {nm: ref_trace[nm] for nm in dnames} or model_mem != sim_mem_flat):
            # where the refinement theorem applies, the model must also equal Simulation
            ctx.model_mismatch('pyrtl.Simulation and Sim/FastModel.v disagree although fast_wfb holds (%s %d %s)' % (
                case['family'], case['design'], case['variant']), replay_dict(ctx, case))
        if not isinstance(fast, str):
            src_flags = case.get('src_flags', [])
            for n, a, b in zip(order, src_flags, model_flags):
                ctx.count('fast_mask', '%s:%s' % (n.op, {0: 'masked', 1: 'elided', 2: 'n/a'}.get(a, 'unparsed')))
                if a != b:
                    ctx.model_mismatch('mask elision: FastSimulation._compiled() source says %s, Gen/FastMask.v says %s for %s'
                                       % (a, b, n), replay_dict(ctx, case, {'net': str(n)}))
                    break
        ctx.count('compared', 'fastmodel-tie')
    # ---- tie: whole-design C model vs the real CompiledSimulation (and vs Simulation where c_wfb holds)
    cem = case.get('cemit')
    if cem is not None:
        if cem[0] != [1, 1]:
            ctx.model_mismatch('c_wfb / wfb = %s on a sanity-checked block' % cem[0], replay_dict(ctx, case))
        if not isinstance(comp, str):
            obs = case['cemit_obs']
            want = [fingerprint([comp[0][nm][t] for nm in obs]) for t in range(ncyc)]
            want_mem = fingerprint([comp[1][mid][a] for (mid, a) in probes])
            if cem[2] != want or cem[1][0] != want_mem:
                ctx.model_mismatch('pyrtl.CompiledSimulation and Sim/CEmitModel.v disagree (%s %d %s)' % (
                    case['family'], case['design'], case['variant']), replay_dict(ctx, case))
            ctx.count('compared', 'cemit-tie (wires CompiledSimulation shows: %s)' % (
                '1-9' if len(obs) < 10 else '10-39' if len(obs) < 40 else '40+'))
        if cem[0] == [1, 1] and not (case['dflt'] != 0 and case['has_mem']):
            want_all = [fingerprint([ref_trace[nm][t] for nm in dnames]) for t in range(ncyc)]
            if cem[3] != want_all:
                ctx.model_mismatch('pyrtl.Simulation and Sim/CEmitModel.v disagree although c_wfb holds (%s %d %s)' % (
                    case['family'], case['design'], case['variant']), replay_dict(ctx, case))
            ctx.count('compared', 'cemit-vs-sim (all wires)')


def climb_expected(case, n, t):
    """(value the C simulator shows for the destination, its source, observable?) -- CompiledSimulation's
    own value where a probe Output exposes it exactly, else Simulation's"""
    dest = n.dests[0].name
    comp = case['comp']
    if not isinstance(comp, str) and not (case['dflt'] != 0 and case['has_mem']):
        obs = observable_map(case['block'], set(comp[0]))
        if dest in obs:
            return comp[0][obs[dest]][t], 'CompiledSimulation', True
    return case['py']['sim'][0][dest][t], 'Simulation', False


def compare_climb(ctx, samples, climb_bad):
    for k, (case, n, t, vals, expected, source, observable) in enumerate(samples):
        wide = any(len(w) > 64 for w in n.args + n.dests)
        ctx.count('climb_samples', '%s%s' % (n.op, ':limb' if wide else ''))
        ctx.count('climb_expected_from', source)
        if k not in climb_bad:
            continue
        got = climb_bad[k]
        if got is None:
            ctx.model_mismatch('climb_op has no builder for %s' % n, {'net': str(n)})
            continue
        ctx.model_mismatch('Sim/CLimb.v builder for %r gives %s, %s shows %s' % (n.op, got, source, expected),
                           replay_dict(ctx, case, {'net': str(n), 'cycle': t, 'operands': vals,
                                                   'widths': [len(a) for a in n.args], 'dest_width': len(n.dests[0])}))


def roundtrip_check(ctx):
    """input packing / output unpacking of run(): model vs identity, at limb-boundary widths"""
    exprs = []
    vals = []
    rng = ctx.sub_rng('roundtrip')
    for w in (1, 63, 64, 65, 127, 128, 129, 192, 193):
        for _ in range(3):
            v = gen_designs.boundary_value(rng, w)
            vals.append(v)
            exprs.append('climb_roundtrip %d %d' % (w, v))
    res = ctx.coq_eval(['[%s]' % '; '.join(exprs)], IMPORTS_CLIMB, tag='c02rt')[0]
    for v, r in zip(vals, res):
        if v != r:
            ctx.model_mismatch('c_unpack (c_pack v) <> v', {'v': v, 'got': r})


def replay(ctx, data):
    print(data)
    run(ctx)
