"""C12: input_from_blif / input_from_iscas_bench compute the function the file defines.

Every case is generated as AST + text together (printer below).  The text goes
to the real importer, the imported block is simulated with pyrtl.Simulation and
its Output traces are compared with
  (tie)    the Coq model of the importer   (IO/BlifImport.v, IO/Iscas.v; tables from Gen/BlifTables.v) and the
           name-resolution model over numbered wires (IO/BlifLow.v; Subcircuit's dictionaries from Gen/BlifNames.v)
  (spec)   the Coq BLIF / .bench semantics (IO/BlifSem.v, IO/Iscas.v), and
  (search) an independent plain-Python evaluator of the same AST (hierarchical,
           denotational: sub-circuit instances keep their own state; cell names
           decoded by a regular expression).
impl != Python evaluator  -> ctx.spec_violation (a concrete failing input);
impl != Coq model         -> ctx.model_mismatch (tie broken);
Python evaluator != Coq spec -> ctx.model_mismatch (the two specifications disagree).
"""
import hashlib
import io
import itertools
import os
import re
import contextlib

import pyrtl

import pyfrag
import genfrag_C12

RULE = ('BLIF/bench AST + text generated together; Output trace of the imported block under pyrtl.Simulation '
        'vs Coq importer model, Coq BLIF semantics and an independent Python evaluator. Families: '
        '(1) every single-output cover of n<=2 inputs with <=3 ordered rows and every set of <=3 distinct rows '
        'over n=3 inputs (plus shuffled/duplicated samples), all 2^n valuations, constant covers; '
        '(2) .latch with each init code 0/1/2/3/omitted, plus several latches on ONE next-state net with every '
        'ordered pair of init codes (and sampled triples/quadruples), compared from cycle 0; (3) every cell of dff_names with the pins its name '
        'demands, driven by a de Bruijn sequence over all 16 (D,E,S,R) valuations (every window of 3 consecutive '
        'cycles occurs) plus from-reset prefixes; (4) random hierarchical designs (one- and two-level .subckt, '
        'state inside instances, outputs read internally, bit-indexed vector ports) imported with '
        'merge_io_vectors in {True, False}; (4b) vector input AND output ports of width 1,2,9,10,11,12,17,33 '
        '(1- and 2-digit indices) with y[i] = a[i] xor b[(i+1) mod n], z = a with one bit inverted, walking-one + '
        'random stimulus (any permutation of port bits changes the trace), ports declared in ascending and in '
        'shuffled order, merge in {True, False}; ports whose indices do not start at 0 and a lone a[0] are tried and '
        'counted/skipped when the importer rejects them; merged port values go through the Coq vec_bit/vec_merge '
        'of C12_vector_ports; (4c) import SESSIONS: sequences of imports in one process whose clock input, clock-buffer alias '
        '(.names clk c) / custom clock_name and data inputs are drawn from one pool of names (clk c ck phi gclk x), so a '
        'name registered as a clock by one import is plain data in a later one; each import is compared on its own '
        '(the semantics has no history) and a failing case replays with the list of earlier imports; (4d) reader x net-kind mix: covers, latch D, flop D/E/S/R pins and .subckt actuals read '
        'inputs, internal nets, state, sub-circuit outputs and (with a bias) top-level OUTPUTS, scalar and vector bits, '
        'merge in {True, False}; (5b) .bench netlists renamed with names hostile to the importer (<x>_reg, <x>_i, tmp<N> '
        'around the live temporary counter, const_*, gate names/keywords, clk), failing category isolated by re-import; '
        '(5) random .bench netlists with 2-ary and n-ary gates and DFFs. '
        'A case is distinct by its AST and non-trivial when its outputs depend on an input or on state '
        '(covers: the function is not constant, except the two constant covers themselves).')
IMPORTS = ('From Coq Require Import ZArith List Bool String.\n'
           'From PyRTL Require Import IO.BlifSyntax IO.BlifSem Gen.BlifTables Gen.BlifNames IO.BlifImport IO.BlifLow IO.Iscas IO.BlifHarness.\n'
           'Import ListNotations. Open Scope string_scope. Open Scope Z_scope.')
COQ_TARGETS = ['theories/IO/BlifHarness.vo']
TRUSTED = [
    'IO/BlifSem.v: BLIF semantics (on-set covers, .latch init codes, $_DFF/$_SDFF cells decoded from their names '
    'per the Yosys cell library, .subckt = renamed copy with formals tied to actuals); IO/Iscas.v gate_sem',
    'py/checks/C12.py: BLIF/.bench printers (AST -> text) and the independent Python evaluator',
    'py/genfrag_C12.py: translator of flop_next / dff_names / latch init map / cover literals / ISCAS dispatch / '
    'class Subcircuit (which dictionary each add_* method and twire reads and writes) / the register-name suffix',
]
ASSUMPTIONS = [
    'one global positive-edge clock (named clk or given as clock_name), optionally through one clock buffer '
    '(.names clk alias); sub-circuits receive it on their formal clk; clocks and their aliases never feed logic',
    'covers are on-set covers (output plane 1); off-set rows are rejected by the importer (checked: PyrtlError)',
    'well-formed covers: every row as wide as the input list (no rows at all = constant 0 at any arity); '
    'a constant cover (no inputs) has <= 1 row',
    'vector ports have >= 2 bits, indices 0..n-1 (a lone a[0] is rejected by the importer: wire never driven)',
    'unconstrained initial values (latch init 2/3, $_DFF cells, .bench DFF) resolve to 0 (Simulation default_value)',
    '.bench: INPUT/OUTPUT declarations precede gate definitions; input and output names are distinct',
    'the pyparsing grammars themselves are not modelled (a mis-parse surfaces as a trace disagreement)',
    'IO/BlifLow.v (name resolution: twire, per-instance dictionaries, output indirection, register keys) is tied to '
    'IO/BlifImport.v (wires identified with net names, the model the refinement theorems are about) by evaluation on '
    'every generated BLIF case, not by a theorem; its independence of net names IS a theorem '
    '(C12_import_invariant_under_renaming)',
]

PL = {'0': 'P0', '1': 'P1', '-': 'PD'}


# ----------------------------------------------------------------------------- AST
class Model(object):
    def __init__(self, name, mid, inputs, outputs, cmds):
        self.name, self.mid, self.inputs, self.outputs, self.cmds = name, mid, inputs, outputs, cmds
        self.clock = 'clk'      # name of the clock input of this model (not part of the AST: clocks carry no data)
        self.alias = None       # optional clock-buffer net: '.names <clock> <alias> / 1 1', state elements use it
        self.ids = {}
        for s in self.signals():
            self.ids.setdefault(s, len(self.ids))

    def signals(self):
        for s in self.inputs + self.outputs:
            yield s
        for c in self.cmds:
            if c[0] == 'names':
                for s in c[1]:
                    yield s
            elif c[0] == 'latch':
                yield c[1]
                yield c[2]
            elif c[0] == 'flop':
                for s in c[2:]:
                    if s is not None:
                        yield s
            elif c[0] == 'subckt':
                for f, a in c[2]:
                    yield a

    def sig(self, s):
        return '(L %d)' % self.ids[s]

    def has_state(self, lib):
        for c in self.cmds:
            if c[0] in ('latch', 'flop'):
                return True
            if c[0] == 'subckt' and lib[c[1]].has_state(lib):
                return True
        return False


def blif_text(models, top):
    """models: list of Model (top first)."""
    lines = []
    for m in models:
        eff = m.alias or m.clock
        lines.append('.model %s' % m.name)
        lines.append('.inputs ' + ' '.join([m.clock] + m.inputs))
        lines.append('.outputs ' + ' '.join(m.outputs))
        if m.alias:
            lines.append('.names %s %s' % (m.clock, m.alias))
            lines.append('1 1')
        for c in m.cmds:
            if c[0] == 'names':
                lines.append('.names ' + ' '.join(c[1]))
                for r in c[2]:
                    lines.append((r + ' 1') if r else '1')
            elif c[0] == 'latch':
                lines.append('.latch %s %s re %s%s' % (c[1], c[2], eff, '' if c[3] is None else ' %d' % c[3]))
            elif c[0] == 'flop':
                _, cell, d, q, e, s, r = c
                t = '.subckt %s C=%s D=%s' % (cell, eff, d)
                if e is not None:
                    t += ' E=%s' % e
                t += ' Q=%s' % q
                if s is not None:
                    t += ' S=%s' % s
                if r is not None:
                    t += ' R=%s' % r
                lines.append(t)
            elif c[0] == 'subckt':
                sub = next(x for x in models if x.name == c[1])
                lines.append('.subckt %s %s %s=%s' % (c[1], ' '.join('%s=%s' % fa for fa in c[2]), sub.clock, eff))
        lines.append('.end')
        lines.append('')
    return '\n'.join(lines)


def coq_rows(rows):
    return '[' + '; '.join('[' + '; '.join(PL[ch] for ch in r) + ']' for r in rows) + ']'


def coq_model(m, lib):
    def osig(s):
        return 'None' if s is None else '(Some %s)' % m.sig(s)
    cs = []
    for c in m.cmds:
        if c[0] == 'names':
            cs.append('Names [%s] %s' % ('; '.join(m.sig(s) for s in c[1]), coq_rows(c[2])))
        elif c[0] == 'latch':
            cs.append('Latch %s %s %s' % (m.sig(c[1]), m.sig(c[2]),
                                         'latch_init_default' if c[3] is None else str(c[3])))
        elif c[0] == 'flop':
            _, cell, d, q, e, s, r = c
            cs.append('Flop "%s" %s %s %s %s %s' % (cell, m.sig(d), m.sig(q), osig(e), osig(s), osig(r)))
        elif c[0] == 'subckt':
            sub = lib[c[1]]
            cs.append('Subckt %d [%s]' % (sub.mid, '; '.join('(%s, %s)' % (sub.sig(f), m.sig(a)) for f, a in c[2])))
    return '(mkModel [%s] [%s] [%s])' % ('; '.join(m.sig(s) for s in m.inputs),
                                         '; '.join(m.sig(s) for s in m.outputs), '; '.join(cs))


def port_groups(names, merge):
    """top-level port list -> [(port name, [bit names LSB first])] in the importer's order"""
    groups = []
    seen = {}
    for n in names:
        base = re.sub(r'\[([0-9]+)\]$', '', n)
        if merge and base != n:
            if base not in seen:
                seen[base] = []
                groups.append((base, seen[base]))
            seen[base].append(n)
        else:
            groups.append((n, [n]))
    for base, bits in groups:
        if len(bits) > 1:
            bits.sort(key=lambda b: int(re.search(r'\[([0-9]+)\]$', b).group(1)))
    return groups


# ----------------------------------------------------------------------------- independent evaluator
CELL_RE = re.compile(r'^\$_(DFF|DFFE|DFFSR|DFFSRE|SDFF|SDFFE|SDFFCE)_([NP])([NP01]*)_?$')


def cell_info(cell):
    """Yosys cell library, by name: returns dict(en, rst=(pol,val), set, ce) with polarities as bools."""
    m = CELL_RE.match(cell)
    if not m:
        raise ValueError('unknown cell %s' % cell)
    kind, clk, rest = m.groups()
    if clk != 'P':
        raise ValueError('negative-edge clock')
    P = {'P': True, 'N': False}
    info = {'en': None, 'rst': None, 'set': None, 'ce': kind == 'SDFFCE'}
    if kind in ('DFF', 'DFFE'):
        if len(rest) >= 2 and rest[1] in '01':
            info['rst'] = (P[rest[0]], rest[1] == '1')
            rest = rest[2:]
        if kind == 'DFFE':
            info['en'] = P[rest[0]]
            rest = rest[1:]
    elif kind in ('DFFSR', 'DFFSRE'):
        info['set'] = P[rest[0]]
        info['rst'] = (P[rest[1]], False)
        rest = rest[2:]
        if kind == 'DFFSRE':
            info['en'] = P[rest[0]]
            rest = rest[1:]
    else:
        info['rst'] = (P[rest[0]], rest[1] == '1')
        rest = rest[2:]
        if kind != 'SDFF':
            info['en'] = P[rest[0]]
            rest = rest[1:]
    if rest:
        raise ValueError('trailing polarity characters in %s' % cell)
    return info


def cell_next(info, d, e, s, r, q):
    en = True if info['en'] is None else (e == info['en'])
    rst = False if info['rst'] is None else (r == info['rst'][0])
    st = False if info['set'] is None else (s == info['set'])
    if info['ce']:
        if not en:
            return q
        return info['rst'][1] if rst else d
    if rst:
        return info['rst'][1]
    if st:
        return True
    return d if en else q


def cover_value(rows, vals):
    for r in rows:
        if all(ch == '-' or (ch == '1') == bool(v) for ch, v in zip(r, vals)):
            return True
    return False


class Inst(object):
    """one instance of a model: its own state and child instances"""

    def __init__(self, lib, model):
        self.lib, self.model = lib, model
        self.state = {}
        self.children = {}
        self.driver = {}
        for k, c in enumerate(model.cmds):
            if c[0] == 'names':
                self.driver.setdefault(c[1][-1], ('names', c))
            elif c[0] == 'latch':
                self.driver.setdefault(c[2], ('state', c))
                self.state.setdefault(c[2], c[3] == 1)
            elif c[0] == 'flop':
                self.driver.setdefault(c[3], ('state', c))
                self.state.setdefault(c[3], False)
            elif c[0] == 'subckt':
                child = Inst(lib, lib[c[1]])
                child.bind = dict(c[2])      # formal -> actual
                self.children[k] = child
                for f, a in c[2]:
                    if f in child.model.outputs:
                        self.driver.setdefault(a, ('child', (child, f)))

    def begin(self, parent, inputs):
        self.parent, self.inputs, self.memo, self.busy = parent, inputs, {}, set()
        for ch in self.children.values():
            ch.begin(self, None)

    def value(self, s):
        if s in self.memo:
            return self.memo[s]
        if s in self.busy:
            raise ValueError('combinational loop through %s' % s)
        self.busy.add(s)
        if s in self.model.inputs:
            if self.inputs is not None:
                v = self.inputs[s]
            else:
                v = self.parent.value(self.bind[s])
        else:
            kind, what = self.driver[s]
            if kind == 'names':
                v = cover_value(what[2], [self.value(x) for x in what[1][:-1]])
            elif kind == 'state':
                v = self.state[s]
            else:
                v = what[0].value(what[1])
        self.busy.discard(s)
        self.memo[s] = bool(v)
        return bool(v)

    def next_state(self):
        nxt = {}
        for c in self.model.cmds:
            if c[0] == 'latch':
                nxt.setdefault(c[2], self.value(c[1]))
            elif c[0] == 'flop':
                _, cell, d, q, e, s, r = c
                o = lambda x: self.value(x) if x is not None else False
                nxt.setdefault(q, cell_next(cell_info(cell), self.value(d), o(e), o(s), o(r), self.value(q)))
        return nxt, {k: ch.next_state() for k, ch in self.children.items()}

    def commit(self, ns):
        self.state = ns[0]
        for k, ch in self.children.items():
            ch.commit(ns[1][k])


def py_blif_run(lib, top, ogroups, igroups, inss):
    inst = Inst(lib, top)
    trace = []
    for vals in inss:
        bits = {}
        for (pname, names), v in zip(igroups, vals):
            for i, n in enumerate(names):
                bits[n] = bool((v >> i) & 1)
        inst.begin(None, bits)
        trace.append([sum(int(inst.value(n)) << i for i, n in enumerate(names)) for pname, names in ogroups])
        inst.commit(inst.next_state())
    return trace


# ----------------------------------------------------------------------------- implementation under test
# every earlier import of this process that used a clock alias or a non-default clock_name, in order: the
# block built for a file must not depend on it, so it is part of a failing case's replay
HISTORY = []


def impl_blif_run(text, merge, igroups, ogroups, inss, clock_name='clk'):
    pyrtl.reset_working_block()
    if clock_name == 'clk':
        pyrtl.input_from_blif(text, merge_io_vectors=merge)
    else:
        pyrtl.input_from_blif(text, merge_io_vectors=merge, clock_name=clock_name)
    block = pyrtl.working_block()
    tracer = pyrtl.SimulationTrace(block=block)
    sim = pyrtl.Simulation(tracer=tracer, block=block)
    trace = []
    for vals in inss:
        sim.step({p: v for (p, _), v in zip(igroups, vals)})
        trace.append([sim.inspect(p) for p, _ in ogroups])
    return trace, block



# ----------------------------------------------------------------------------- names reserved by PyRTL
def reserved_name(nm):
    """PyRTL refuses / reserves these for its own wires: clk, tmp*, const_* (documented)"""
    base = re.sub(r'\[[0-9]+\]$', '', nm)
    return base == 'clk' or base.startswith('tmp') or base.startswith('const_')


def rename_top(models, mp):
    """the same netlist with the top model's signals renamed through mp (whole names)"""
    top = models[0]
    f = lambda x: None if x is None else mp.get(x, x)
    cmds = []
    for c in top.cmds:
        if c[0] == 'names':
            cmds.append(('names', [f(x) for x in c[1]], c[2]))
        elif c[0] == 'latch':
            cmds.append(('latch', f(c[1]), f(c[2]), c[3]))
        elif c[0] == 'flop':
            cmds.append(('flop', c[1]) + tuple(f(x) for x in c[2:]))
        else:
            cmds.append(('subckt', c[1], [(fo, f(a)) for fo, a in c[2]]))
    t2 = Model(top.name, top.mid, [f(x) for x in top.inputs], [f(x) for x in top.outputs], cmds)
    t2.clock, t2.alias = top.clock, top.alias
    return [t2] + list(models[1:])


def unreserve_ports(models):
    """ports of the top model whose names PyRTL reserves -> plain names (internal names kept); None if no such port"""
    top = models[0]
    mp = {}
    for nm in top.inputs + top.outputs:
        if reserved_name(nm) and nm not in (top.clock, top.alias) and nm not in mp:
            base = re.sub(r'\[[0-9]+\]$', '', nm)
            mp[nm] = 'port%d_%s' % (len(mp), re.sub(r'\W', '_', base)[:6]) + nm[len(base):]
    return rename_top(models, mp) if mp else None


def blif_attempt(models, merge, bits):
    """import + simulate; bits = per-cycle list of per-input bit values (top.inputs order). -> (trace|None, err, expected)"""
    top = models[0]
    lib = {m.name: m for m in models}
    ig, og = port_groups(top.inputs, merge), port_groups(top.outputs, merge)
    pos = {nm: k for k, nm in enumerate(top.inputs)}
    inss = [[sum(row[pos[nm]] << j for j, nm in enumerate(names)) for _, names in ig] for row in bits]
    expected = py_blif_run(lib, top, og, ig, inss)
    text = blif_text(models, top)
    try:
        try:
            got, _ = impl_blif_run(text, merge, ig, og, inss, top.clock)
        finally:
            if top.clock != 'clk' or any(m.alias for m in models):
                HISTORY.append({'blif': text, 'clock_name': top.clock, 'merge_io_vectors': merge})
        return got, None, expected
    except Exception as e:
        return None, '%s: %s' % (type(e).__name__, ' '.join(str(e).split())[:160]), expected


def port_name_is_the_cause(models, merge, inss):
    """does the failing netlist stop failing when ONLY its reserved-named ports get plain names?"""
    alt = unreserve_ports(models)
    if alt is None:
        return False
    top = models[0]
    ig = port_groups(top.inputs, merge)
    pos = {nm: k for k, nm in enumerate(top.inputs)}
    bits = []
    for vals in inss:
        row = [0] * len(top.inputs)
        for (_, names), v in zip(ig, vals):
            for j, nm in enumerate(names):
                row[pos[nm]] = (v >> j) & 1
        bits.append(row)
    got, err, expected = blif_attempt(alt, merge, bits)
    return got is not None and got == expected


PORT_SIG = 'import:port-has-reserved-name'
PORT_WHAT = ('a top-level port (INPUT/OUTPUT) of the imported file is called clk / tmp<N> / const_*, names PyRTL '
             'reserves for itself; ports must keep their file names, so the import or the simulation is refused '
             '(Clock signals should never be explicit / Duplicate wire names); the same netlist with plain port names '
             'imports correctly')

_REG_SUFFIX = []


def reg_suffix():
    """the suffix under which extract_latch / extract_flop file a register (read from the source)"""
    if not _REG_SUFFIX:
        tree = pyfrag.parse_file(os.path.join(os.environ.get('PYRTL_REPO', '/repo'), 'pyrtl', 'importexport.py'))
        try:
            _REG_SUFFIX.append(genfrag_C12.gen_reg_suffix(tree))
        except Exception:
            _REG_SUFFIX.append('_reg')
    return _REG_SUFFIX[0]


def coq_blif_expr(models, merge, inss, fuel=None):
    """blif_case3: Coq BLIF semantics, importer model, and name-resolution model of one case"""
    top = models[0]
    lib = {m.name: m for m in models}
    ig = port_groups(top.inputs, merge)
    og = port_groups(top.outputs, merge)
    nsub = sum(len(m.cmds) for m in models)
    fuel = fuel or (3 * nsub + 8)
    idx = {n: i for i, n in enumerate(top.outputs)}
    suf = reg_suffix()
    rn = []
    for m in models:
        pairs = ['(%s, %s)' % (m.sig(q), m.sig(q + suf)) for q in m.ids if (q + suf) in m.ids]
        if pairs:
            rn.append('(%d, [%s])' % (m.mid, '; '.join(pairs)))
    return 'blif_case3 %d [%s] %d [%s] %s [%s] [%s] [%s]' % (
        fuel,
        '; '.join('(%d, %s)' % (m.mid, coq_model(m, lib)) for m in models[1:]),
        top.mid, '; '.join(rn),
        coq_model(top, lib),
        '; '.join('[' + '; '.join(top.sig(n) for n in names) + ']' for _, names in ig),
        '; '.join('[' + '; '.join('%d%%nat' % idx[n] for n in names) + ']' for _, names in og),
        '; '.join('[' + '; '.join(str(v) for v in row) + ']' for row in inss))


def run_blif_case(ctx, fam, key, models, inss, merge, fuel=None, nontrivial=None, sample=False, extra=None,
                  reject_ok=None, coq=True):
    """returns a pending-case dict (Coq results are filled in later, in one batch)"""
    top = models[0]
    lib = {m.name: m for m in models}
    text = blif_text(models, top)
    ig = port_groups(top.inputs, merge)
    og = port_groups(top.outputs, merge)
    rep = {'family': fam, 'blif': text, 'merge_io_vectors': merge, 'clock_name': top.clock,
           'input_ports': [p for p, _ in ig], 'output_ports': [p for p, _ in og], 'inputs': inss,
           'repro': 'for h in history: input_from_blif(h.blif, clock_name=h.clock_name) on a fresh working block; then '
                    'pyrtl.input_from_blif(blif, merge_io_vectors=%s, clock_name=%r); Simulation.step per input row'
                    % (merge, top.clock)}
    if extra:
        rep.update(extra)
    nhist = len(HISTORY)
    expected = py_blif_run(lib, top, og, ig, inss)
    try:
        try:
            got, block = impl_blif_run(text, merge, ig, og, inss, top.clock)
        finally:
            rep['history'] = HISTORY[:nhist] if fam == 'session' or nhist <= 40 else HISTORY[nhist - 40:nhist]
            if top.clock != 'clk' or any(m.alias for m in models):
                HISTORY.append({'blif': text, 'clock_name': top.clock, 'merge_io_vectors': merge})
    except Exception as e:  # the importer / simulator rejected a file of the supported subset
        if reject_ok is not None:     # outside the supported subset: rejection is acceptable, count and skip
            ctx.count('rejected_outside_subset', '%s(%s)' % (reject_ok, type(e).__name__))
            return None
        if port_name_is_the_cause(models, merge, inss):
            ctx.spec_violation(PORT_SIG, 'input_from_blif: ' + PORT_WHAT + ' [%s: %s]' % (
                type(e).__name__, ' '.join(str(e).split())[:120]), dict(rep, expected=expected))
            return None
        ctx.spec_violation('blif:%s:rejected' % fam, 'input_from_blif/Simulation raised %s: %s on a supported BLIF file'
                           % (type(e).__name__, str(e)[:200]), dict(rep, expected=expected))
        return None
    if nontrivial is None:
        nontrivial = any(len({row[j] for row in expected}) > 1 for j in range(len(og)))
    ctx.case((fam, key, merge), nontrivial=nontrivial,
             sample={'family': fam, 'blif': text[:600], 'merge_io_vectors': merge, 'inputs': inss[:3],
                     'outputs': got[:3]} if sample else None)
    if got != expected:
        t = next(i for i in range(len(inss)) if got[i] != expected[i])
        ctx.spec_violation('blif:%s:trace' % fam,
                           'imported BLIF block differs from BLIF semantics (%s) at cycle %d: expected %s got %s'
                           % (fam, t, expected[t], got[t]), dict(rep, expected=expected, got=got, cycle=t))
    if not coq:      # search only (implementation vs independent evaluator); the Coq models see a shorter run
        return None
    expr = coq_blif_expr(models, merge, inss, fuel)
    return {'expr': expr, 'got': got, 'expected': expected, 'rep': rep, 'fam': fam}


def settle_blif(ctx, pend, tag):
    pend = [p for p in pend if p is not None]
    if not pend:
        return
    try:
        res = ctx.coq_eval([p['expr'] for p in pend], IMPORTS, tag=tag, shard=max(1, (len(pend) + 11) // 12), jobs=12)
    except Exception as e:
        ctx.model_mismatch('Coq BLIF model/semantics could not be evaluated: %s' % str(e)[-800:], {'tag': tag})
        return
    for p, (spec, model, low) in zip(pend, res):
        if low is None or not low[0]:
            ctx.model_mismatch('Coq name-resolution model (IO/BlifLow.v) rejects a file the real importer accepts (%s)'
                               % p['fam'], p['rep'])
        elif [list(r) for r in low[1]] != p['got']:
            ctx.model_mismatch('input_from_blif and the name-resolution model IO/BlifLow.v disagree (%s)' % p['fam'],
                               dict(p['rep'], coq_low=low[1], got=p['got']))
        if spec is None or not spec[0]:
            ctx.model_mismatch('Coq BLIF semantics undefined on a generated %s case (flatten failed / not determined)'
                               % p['fam'], p['rep'])
        elif [list(r) for r in spec[1]] != p['expected']:
            ctx.model_mismatch('Coq BLIF semantics and the Python evaluator disagree (%s)' % p['fam'],
                               dict(p['rep'], coq_spec=spec[1], python=p['expected']))
        if model is None or not model[0]:
            ctx.model_mismatch('Coq importer model rejects a file the real importer accepts (%s)' % p['fam'], p['rep'])
        elif [list(r) for r in model[1]] != p['got']:
            ctx.model_mismatch('input_from_blif and IO/BlifImport.v disagree (%s)' % p['fam'],
                               dict(p['rep'], coq_model=model[1], got=p['got']))


# ----------------------------------------------------------------------------- family 1: covers
def all_planes(n):
    return [''.join(p) for p in itertools.product('01-', repeat=n)]


def cover_lists(ctx, tier):
    """(n, rows) for every cover of the bounded-exhaustive family"""
    out = [(0, []), (0, [''])]
    for n in (1, 2, 3, 4):
        out.append((n, []))          # no rows at all: constant 0, whatever the input list
    for n in (1, 2):
        planes = all_planes(n)
        for k in (1, 2, 3):
            for rows in itertools.product(planes, repeat=k):
                out.append((n, list(rows)))
    planes3 = all_planes(3)
    if tier == 'quick':
        for k in (1, 2, 3):
            for rows in itertools.combinations(planes3, k):
                out.append((3, list(rows)))
        rng = ctx.sub_rng('covers', 'shuffled')
        for i in range(300):
            k = rng.choice((2, 3, 3, 4))
            rows = [rng.choice(planes3) for _ in range(k)]
            out.append((3, rows))
    else:
        for k in (1, 2, 3):
            for rows in itertools.product(planes3, repeat=k):
                out.append((3, list(rows)))
        rng = ctx.sub_rng('covers', 'wide')
        planes4 = all_planes(4)
        for i in range(3000):
            k = rng.randint(1, 6)
            out.append((4, [rng.choice(planes4) for _ in range(k)]))
    return out


def run_covers(ctx):
    covers = cover_lists(ctx, ctx.tier)
    batch = 700
    nbad = 0
    coq_exprs = []
    coq_meta = []
    for n in sorted({c[0] for c in covers}):
        group = [rows for (m, rows) in covers if m == n]
        for b0 in range(0, len(group), batch):
            chunk = group[b0:b0 + batch]
            ins = ['x%d' % i for i in range(n)]
            outs = ['o%d' % j for j in range(len(chunk))]
            cmds = [('names', ins + [outs[j]], rows) for j, rows in enumerate(chunk)]
            # each output is also read internally by an inverter feeding a second output
            m = Model('covers', 0, ins, outs, cmds)
            text = blif_text([m], m)
            inss = [[(v >> i) & 1 for i in range(n)] for v in range(1 << n)]
            try:
                got, block = impl_blif_run(text, True, [(x, [x]) for x in ins], [(o, [o]) for o in outs], inss)
            except Exception as e0:
                # some cover of the batch makes the importer / simulator raise: import every cover on its own
                # so that each offending cover is reported (and the others are still compared)
                got = [[None] * len(chunk) for _ in inss]
                for j, rows in enumerate(chunk):
                    single = Model('c', 0, ins, ['o'], [('names', ins + ['o'], rows)])
                    try:
                        g1, _ = impl_blif_run(blif_text([single], single), True, [(x, [x]) for x in ins],
                                              [('o', ['o'])], inss)
                        for v in range(len(inss)):
                            got[v][j] = g1[v][0]
                    except Exception as e:
                        ctx.spec_violation('blif:cover:rejected',
                                           'input_from_blif/Simulation raised %s: %s on the well-formed cover %s over '
                                           '%d inputs' % (type(e).__name__, ' '.join(str(e).split())[:160], rows, n),
                                           {'blif': blif_text([single], single), 'inputs_lsb_first': inss,
                                            'expected': [int(cover_value(rows, r)) for r in inss]})
            for j, rows in enumerate(chunk):
                impl_tt = [got[v][j] for v in range(1 << n)]
                if impl_tt and impl_tt[0] is None:     # rejected above
                    ctx.case(('cover', n, tuple(rows)), nontrivial=False)
                    coq_meta.append((n, rows, None, [int(cover_value(rows, inss[v])) for v in range(1 << n)]))
                    continue
                want_tt = [int(cover_value(rows, inss[v])) for v in range(1 << n)]
                nontriv = len(set(want_tt)) > 1 or n == 0 or not rows
                ctx.case(('cover', n, tuple(rows)), nontrivial=nontriv,
                         sample={'family': 'cover', 'names': ins + ['o'], 'rows': rows, 'truth_table': impl_tt}
                         if (n == 3 and j == 40 and b0 == 0) else None)
                ctx.count('cover_inputs', n)
                ctx.count('cover_rows', len(rows))
                if impl_tt != want_tt:
                    nbad += 1
                    single = Model('c', 0, ins, ['o'], [('names', ins + ['o'], rows)])
                    ctx.spec_violation('blif:cover:function',
                                       'cover %s over %d inputs imports as truth table %s, BLIF defines %s'
                                       % (rows, n, impl_tt, want_tt),
                                       {'blif': blif_text([single], single), 'inputs_lsb_first': inss,
                                        'expected': want_tt, 'got': impl_tt})
                coq_meta.append((n, rows, impl_tt, want_tt))
            for c0 in range(0, len(chunk), 100):
                coq_exprs.append('map (cover_case %d) [%s]' % (n, '; '.join(coq_rows(r) for r in chunk[c0:c0 + 100])))
    try:
        res = ctx.coq_eval(coq_exprs, IMPORTS, tag='c12cover', shard=max(1, (len(coq_exprs) + 11) // 12), jobs=12)
    except Exception as e:
        ctx.model_mismatch('cover_case could not be evaluated: %s' % str(e)[-800:], {})
        return
    flat = [x for r in res for x in r]
    special = 0
    for (n, rows, impl_tt, want_tt), (spec, model) in zip(coq_meta, flat):
        if [int(b) for b in spec] != want_tt:
            ctx.model_mismatch('cover_sem and the Python cover evaluator disagree', {'n': n, 'rows': rows})
        if impl_tt is None:
            continue
        if model is None or [int(b) for b in model] != impl_tt:
            ctx.model_mismatch('extract_cover model and input_from_blif disagree on a cover',
                               {'n': n, 'rows': rows, 'impl': impl_tt, 'model': model})
    ctx.count('cover_total', 'covers', len(coq_meta))
    # observation (outside C12's statement, which quantifies over files / inputs / merge_io_vectors): importing
    # into a block that is not the working block
    for label, call in (('input_from_blif', lambda b: pyrtl.input_from_blif(
            '.model t\n.inputs clk a b\n.outputs o\n.names a b o\n1- 1\n-0 1\n.latch o q re clk 1\n.end\n', block=b)),
                        ('input_from_iscas_bench', lambda b: pyrtl.input_from_iscas_bench(
                            'INPUT(a)\nINPUT(b)\nOUTPUT(y)\ny = NAND(a, b)\n', block=b))):
        pyrtl.reset_working_block()
        other = pyrtl.Block()
        try:
            call(other)
            ctx.count('observation', '%s(block=non-working block): accepted' % label)
        except Exception as e:
            ctx.count('observation', '%s(block=non-working block): raises %s' % (label, type(e).__name__))
    pyrtl.reset_working_block()
    # fail-closed probes (not counted as cases): off-set row, malformed tail
    for bad in ('.model t\n.inputs a\n.outputs o\n.names a o\n1 0\n0 1\n.end\n',):
        pyrtl.reset_working_block()
        try:
            pyrtl.input_from_blif(bad)
            ctx.count('failclosed', 'offset-cover-accepted')
        except pyrtl.PyrtlError:
            ctx.count('failclosed', 'offset-cover-rejected')
        except Exception as e:
            ctx.count('failclosed', 'offset-cover-' + type(e).__name__)


# ----------------------------------------------------------------------------- family 2/3: latches, flops
def de_bruijn(k, n):
    a = [0] * k * n
    seq = []

    def db(t, p):
        if t > n:
            if n % p == 0:
                seq.extend(a[1:p + 1])
        else:
            a[t] = a[t - p]
            db(t + 1, p)
            for j in range(a[t - p] + 1, k):
                a[t] = j
                db(t + 1, t)
    db(1, 1)
    return seq + seq[:n - 1]


INIT_CODES = (0, 1, 2, 3, None)


def run_latches(ctx):
    pend = []
    for trial in range(2 if ctx.tier == 'quick' else 20):
        rng = ctx.sub_rng('latch', trial)
        ins = ['a', 'b']
        cmds = []
        outs = []
        for code in INIT_CODES:
            tag = 'n' if code is None else str(code)
            d, q = 'd' + tag, 'q' + tag
            rows = [''.join(rng.choice('01-') for _ in range(3)) for _ in range(rng.randint(1, 3))]
            cmds.append(('names', ['a', 'b', q, d], rows))
            cmds.append(('latch', d, q, code))
            outs.append(q)
            ctx.count('latch_init', tag)
            # further latches on the same next-state net, each with its own init code
            for k in range(rng.randint(0, 2)):
                q2 = '%s_%d' % (q, k)
                cmds.append(('latch', d, q2, rng.choice(INIT_CODES)))
                outs.append(q2)
        rng.shuffle(cmds)
        m = Model('latches', 0, ins, outs, cmds)
        inss = [[rng.randint(0, 1), rng.randint(0, 1)] for _ in range(8)]
        pend.append(run_blif_case(ctx, 'latch', trial, [m], inss, True, sample=(trial == 0)))
    # several latches fed by ONE next-state net: every ordered pair of init codes (and sampled triples),
    # latches listed in both orders relative to the cover that drives the net
    for variant in range(2 if ctx.tier == 'quick' else 8):
        rng = ctx.sub_rng('latch-fan', variant)
        groups = [list(p) for p in itertools.product(INIT_CODES, repeat=2)]
        groups += [[rng.choice(INIT_CODES) for _ in range(rng.randint(3, 4))] for _ in range(10)]
        cmds, outs = [], []
        for g, codes in enumerate(groups):
            d = 'n%d' % g
            part = [('names', ['a', 'b', d], rand_cover(rng, 2))]
            for j, code in enumerate(codes):
                q = 'q%d_%d' % (g, j)
                part.append(('latch', d, q, code))
                outs.append(q)
            ctx.count('latch_fanout_per_d_net', len(codes))
            if len(codes) == 2:
                ctx.count('latch_shared_d_init_pair', '%s,%s' % tuple('-' if c is None else c for c in codes))
            if variant % 2:
                rng.shuffle(part)
            cmds.extend(part)
        if variant >= 2:
            rng.shuffle(cmds)
        m = Model('latchfan', 0, ['a', 'b'], outs, cmds)
        inss = [[rng.randint(0, 1), rng.randint(0, 1)] for _ in range(6)]
        pend.append(run_blif_case(ctx, 'latch', ('fan', variant), [m], inss, True, sample=False))
    settle_blif(ctx, pend, 'c12latch')


def flop_model(cells):
    ins = ['d', 'e', 's', 'r']
    cmds, outs = [], []
    for k, cell in enumerate(cells):
        info = cell_info(cell)
        q = 'q%d' % k
        cmds.append(('flop', cell, 'd', q, 'e' if info['en'] is not None else None,
                     's' if info['set'] is not None else None, 'r' if info['rst'] is not None else None))
        outs.append(q)
    return Model('flops', 0, ins, outs, cmds)


def run_flops(ctx):
    tree = pyfrag.parse_file(os.path.join(os.environ.get('PYRTL_REPO', '/repo'), 'pyrtl', 'importexport.py'))
    cells = genfrag_C12.gen_dff_names(pyfrag.find_def(tree, 'input_from_blif'))
    for c in cells:
        ctx.count('cells', c)
        if not c.endswith('_'):
            ctx.notes.append('observation: dff_names lists %r without the trailing underscore of the Yosys cell name; '
                             'the real name %r is not recognised by the grammar' % (c, c + '_'))
            # confirm the observation on the real importer
            pyrtl.reset_working_block()
            try:
                pyrtl.input_from_blif('.model t\n.inputs clk d s r\n.outputs q\n.subckt %s_ C=clk D=d Q=q S=s R=r\n.end\n' % c)
                ctx.count('observation', 'yosys-name-accepted:' + c + '_')
            except Exception as e:
                ctx.count('observation', 'yosys-name-rejected(%s):%s_' % (type(e).__name__, c))
    m = flop_model(cells)
    order = 3
    seq = de_bruijn(16, order)
    inss = [[(v >> i) & 1 for i in range(4)] for v in seq]
    # every window of 3 consecutive pin valuations: implementation vs the independent evaluator; the three Coq
    # evaluators (semantics, importer model, name-resolution model) get the order-2 sequence in the quick tier
    # (every window of 2; the per-cell next-state function is proved exhaustively in C12_flop_table_correct)
    pend = [run_blif_case(ctx, 'flop', 'debruijn3', [m], inss, True, fuel=6, nontrivial=True, sample=False,
                          coq=(ctx.tier != 'quick'))]
    if ctx.tier == 'quick':
        inss2 = [[(v >> i) & 1 for i in range(4)] for v in de_bruijn(16, 2)]
        pend.append(run_blif_case(ctx, 'flop', 'debruijn2', [m], inss2, True, fuel=6, nontrivial=True))
    # per-cell cases from reset: every 2-cycle prefix (quick) / 3-cycle prefix (thorough), one model per cell group
    depth = 2 if ctx.tier == 'quick' else 3
    prefixes = list(itertools.product(range(16), repeat=depth))
    step = 8 if ctx.tier == 'quick' else 1
    # evaluate prefixes on the 32-flop model: each prefix is its own simulation from the initial state
    text = blif_text([m], m)
    ig = [(x, [x]) for x in m.inputs]
    og = [(o, [o]) for o in m.outputs]
    pyrtl.reset_working_block()
    pyrtl.input_from_blif(text)
    block = pyrtl.working_block()
    lib = {m.name: m}
    bad = {}
    for pi in range(0, len(prefixes), step):
        pre = prefixes[pi]
        rows = [[(v >> i) & 1 for i in range(4)] for v in pre]
        sim = pyrtl.Simulation(tracer=pyrtl.SimulationTrace(block=block), block=block)
        got = []
        for r in rows:
            sim.step(dict(zip(m.inputs, r)))
            got.append([sim.inspect(o) for o in m.outputs])
        # one more cycle to observe the state after the last edge
        sim.step(dict(zip(m.inputs, [0, 0, 0, 0])))
        got.append([sim.inspect(o) for o in m.outputs])
        want = py_blif_run(lib, m, og, ig, rows + [[0, 0, 0, 0]])
        for k, cell in enumerate(cells):
            ctx.case(('flop-prefix', cell, pre), nontrivial=True,
                     sample={'family': 'flop', 'cell': cell, 'pins_DESR_per_cycle': rows,
                             'Q_per_cycle': [g[k] for g in got]} if (pi == 0 and k == 5) else None)
            if [g[k] for g in got] != [w[k] for w in want] and cell not in bad:
                bad[cell] = (rows, [g[k] for g in got], [w[k] for w in want])
    for cell, (rows, g, w) in bad.items():
        one = flop_model([cell])
        ctx.spec_violation('blif:flop:%s' % cell, 'cell %s: Q trace %s, the cell library defines %s for (D,E,S,R)=%s'
                           % (cell, g, w, rows),
                           {'blif': blif_text([one], one), 'inputs_DESR': rows + [[0, 0, 0, 0]], 'expected_Q': w, 'got_Q': g})
    settle_blif(ctx, pend, 'c12flop')


# ----------------------------------------------------------------------------- family 4: hierarchy, vectors
def rand_cover(rng, n):
    return [''.join(rng.choice('01-') for _ in range(n)) for _ in range(rng.choice((0, 1, 1, 2, 2, 3, 3)))]


def gen_leaf(rng, name, mid, vec_formals):
    nin = rng.randint(1, 3)
    if vec_formals and nin >= 2:
        ins = ['p[%d]' % i for i in range(nin)]
    else:
        ins = ['p%d' % i for i in range(nin)]
    nout = rng.randint(1, 2)
    outs = ['r%d' % i for i in range(nout)]
    cmds = []
    avail = list(ins)
    if rng.random() < 0.6:
        # a state element inside the instance
        if rng.random() < 0.5:
            cmds.append(('latch', 'sd', 'sq', rng.choice((0, 1, 2, 3, None))))
        else:
            cmds.append(('flop', rng.choice(('$_DFF_P_', '$_DFFE_PP_', '$_SDFF_PP1_', '$_SDFFCE_PN0P_', '$_DFFE_PN_')),
                         'sd', 'sq', None, None, None))
            c = cmds[-1]
            info = cell_info(c[1])
            cmds[-1] = ('flop', c[1], 'sd', 'sq', ins[0] if info['en'] is not None else None, None,
                        ins[-1] if info['rst'] is not None else None)
        k = rng.randint(1, min(3, len(avail) + 1))
        srcs = rng.sample(avail + ['sq'], k)
        cmds.append(('names', srcs + ['sd'], rand_cover(rng, k)))
        avail.append('sq')
    for i in range(rng.randint(0, 2)):
        k = rng.randint(1, min(3, len(avail)))
        w = 'w%d' % i
        cmds.append(('names', rng.sample(avail, k) + [w], rand_cover(rng, k)))
        avail.append(w)
    for i, o in enumerate(outs):
        k = rng.randint(1, min(3, len(avail)))
        cmds.append(('names', rng.sample(avail, k) + [o], rand_cover(rng, k)))
        if i == 0 and nout > 1 and rng.random() < 0.5:
            avail.append(o)   # an output read internally (inside a sub-model)
    rng.shuffle(cmds)
    return Model(name, mid, ins, outs, cmds)


def gen_parent(rng, name, mid, subs, top, vec_ports):
    """a model instantiating 1..3 of `subs`"""
    nin = rng.randint(2, 4)
    if top and vec_ports:
        ins = ['a[%d]' % i for i in range(nin)]
        if rng.random() < 0.5:
            ins.append('b')
    else:
        ins = ['i%d' % i for i in range(nin)]
    cmds = []
    avail = list(ins)
    deferred = []
    for k in range(rng.randint(1, 3)):
        sub = rng.choice(subs)
        binds = []
        for f in sub.inputs:
            binds.append((f, rng.choice(avail)))
        newsigs = []
        for f in sub.outputs:
            a = 'u%d_%s' % (k, re.sub(r'\W', '_', f))
            binds.append((f, a))
            newsigs.append(a)
        rng.shuffle(binds)
        cmds.append(('subckt', sub.name, binds))
        avail.extend(newsigs)
        if rng.random() < 0.5:
            kk = rng.randint(1, min(3, len(avail)))
            w = 'g%d' % k
            cmds.append(('names', rng.sample(avail, kk) + [w], rand_cover(rng, kk)))
            avail.append(w)
    nout = rng.randint(2, 3)
    if top and vec_ports:
        outs = ['y[%d]' % i for i in range(nout)]
        if rng.random() < 0.5:
            outs.append('z')
    else:
        outs = ['o%d' % i for i in range(nout)]
    internal = [s for s in avail if s not in ins]
    for i, o in enumerate(outs):
        pool = avail if (i == 0 or not internal) else internal + ins
        kk = rng.randint(1, min(3, len(pool)))
        cmds.append(('names', rng.sample(pool, kk) + [o], rand_cover(rng, kk)))
        if i == 0:
            avail.append(o)      # the first output is read internally by later covers
            internal.append(o)
    rng.shuffle(cmds)
    return Model(name, mid, ins, outs, cmds)


def run_hier(ctx):
    n = 40 if ctx.tier == 'quick' else 700
    pend = []
    for i in range(n):
        rng = ctx.sub_rng('hier', i)
        two_level = (i % 2 == 1)
        vec = (i % 4 != 3)
        leaves = [gen_leaf(rng, 'leaf%d' % j, 10 + j, vec_formals=(j == 0)) for j in range(rng.randint(1, 2))]
        if two_level:
            mids = [gen_parent(rng, 'mid%d' % j, 20 + j, leaves, False, False) for j in range(rng.randint(1, 2))]
            top = gen_parent(rng, 'top', 1, mids + leaves, True, vec)
            models = [top] + mids + leaves
        else:
            top = gen_parent(rng, 'top', 1, leaves, True, vec)
            models = [top] + leaves
        ctx.count('hier_levels', 2 if two_level else 1)
        ctx.count('hier_vector_ports', vec)
        ncyc = rng.randint(4, 8)
        for merge in (True, False):
            ig = port_groups(top.inputs, merge)
            r2 = ctx.sub_rng('hier-in', i)
            bits = [[r2.randint(0, 1) for _ in top.inputs] for _ in range(ncyc)]
            pos = {nm: k for k, nm in enumerate(top.inputs)}
            inss = [[sum(row[pos[nm]] << j for j, nm in enumerate(names)) for _, names in ig] for row in bits]
            ctx.count('merge_io_vectors', merge)
            pend.append(run_blif_case(ctx, 'hier', i, models, inss, merge, sample=(i < 2 and merge)))
    settle_blif(ctx, pend, 'c12hier')



# ----------------------------------------------------------------------------- family 4b: wide vector ports
VEC_WIDTHS = (1, 2, 9, 10, 11, 12, 17, 33)


def vec_model(n, rng, shuffle_decl, start=0):
    """y[i] = a[i] xor b[(i+1) mod n]  (odd i through the generic sum-of-products path),
    z = a with bit k inverted, p = s.  Every permutation of the bits of a, b, y or z changes a trace
    under the walking-one stimulus."""
    a = ['a[%d]' % (i + start) for i in range(n)]
    b = ['b[%d]' % (i + start) for i in range(n)]
    y = ['y[%d]' % (i + start) for i in range(n)]
    z = ['z[%d]' % (i + start) for i in range(n)]
    k = rng.randrange(n)
    cmds = []
    for i in range(n):
        rows = ['10', '01'] if i % 2 == 0 else ['01', '10']
        cmds.append(('names', [a[i], b[(i + 1) % n], y[i]], rows))
        cmds.append(('names', [a[i], z[i]], ['0'] if i == k else ['1']))
    cmds.append(('names', ['s', 'p'], ['1']))
    ins = a + b + ['s']
    outs = y + z + ['p']
    if shuffle_decl:
        rng.shuffle(ins)
        rng.shuffle(outs)
        rng.shuffle(cmds)
    return Model('vec', 0, ins, outs, cmds)


def vec_stimulus(m, n, rng, merge):
    """walking ones over a then over b, all-ones, then random rows; as port values"""
    names = m.inputs
    pos = {nm: j for j, nm in enumerate(names)}
    avec = sorted([x for x in names if x.startswith('a[')], key=lambda t: int(t[2:-1]))
    bvec = sorted([x for x in names if x.startswith('b[')], key=lambda t: int(t[2:-1]))
    rows = []
    for vec in (avec, bvec):
        for nm in vec:
            r = [0] * len(names)
            r[pos[nm]] = 1
            r[pos['s']] = rng.randint(0, 1)
            rows.append(r)
    rows.append([1] * len(names))
    for _ in range(4):
        rows.append([rng.randint(0, 1) for _ in names])
    ig = port_groups(names, merge)
    return [[sum(row[pos[nm]] << j for j, nm in enumerate(bits)) for _, bits in ig] for row in rows]


def run_vectors(ctx):
    pend = []
    variants = 1 if ctx.tier == 'quick' else 6
    widths = list(VEC_WIDTHS) if ctx.tier == 'quick' else list(VEC_WIDTHS) + [3, 5, 20, 21, 40]
    for n in widths:
        for v in range(variants):
            for shuffle_decl in (False, True):
                rng = ctx.sub_rng('vector', n, v, shuffle_decl)
                m = vec_model(n, rng, shuffle_decl)
                for merge in (True, False):
                    inss = vec_stimulus(m, n, ctx.sub_rng('vector-in', n, v, shuffle_decl), merge)
                    ctx.count('vector_width', n)
                    ctx.count('vector_decl_order', 'shuffled' if shuffle_decl else 'ascending')
                    ctx.count('vector_merge', merge)
                    # a lone a[0] is outside the supported subset (see ASSUMPTIONS): count and skip if rejected
                    pend.append(run_blif_case(ctx, 'vector', (n, v, shuffle_decl), [m], inss, merge,
                                              sample=(n == 11 and v == 0 and shuffle_decl and merge),
                                              extra={'width': n, 'declaration_order': m.inputs},
                                              reject_ok=('lone-bit-port-width-1' if n == 1 else None)))
    # ports whose indices do not start at 0: exercised only if the importer accepts them
    for n, start in ((2, 1), (11, 1), (12, 5)):
        rng = ctx.sub_rng('vector-offset', n, start)
        m = vec_model(n, rng, False, start=start)
        for merge in (True, False):
            inss = vec_stimulus(m, n, ctx.sub_rng('vector-offset-in', n, start), merge)
            ctx.count('vector_offset_start', start)
            pend.append(run_blif_case(ctx, 'vector-offset', (n, start), [m], inss, merge,
                                      extra={'width': n, 'first_index': start},
                                      reject_ok='indices-start-at-%d' % start))
    settle_blif(ctx, pend, 'c12vec')


# ----------------------------------------------------------------------------- family 4c: import sessions
# The block built for a file must not depend on what was imported before it in the same process.  A session
# is a sequence of imports whose clock inputs, clock-buffer aliases and data inputs are all drawn from one
# small pool of names, so a name that is a clock (or a clock alias, or a custom clock_name) in one import is
# an ordinary data input, output driver or internal net in a later one, and vice versa.
NAME_POOL = ['clk', 'c', 'ck', 'phi', 'gclk', 'x']


def gen_session_model(rng, i):
    clock = rng.choice(['clk', 'clk', 'clk', 'c', 'phi', 'ck'])
    alias = rng.choice([None, None, 'c', 'ck', 'gclk', 'phi', 'x'])
    if alias == clock:
        alias = None
    free = [n for n in NAME_POOL if n not in (clock, alias)]
    ins = rng.sample(free, rng.randint(1, min(3, len(free)))) + ['a', 'b'][:rng.randint(1, 2)]
    rng.shuffle(ins)
    cmds, outs, models = [], [], []
    avail = list(ins)
    for k in range(rng.randint(1, 2)):
        kk = rng.randint(1, min(3, len(avail)))
        w = 'w%d' % k
        cmds.append(('names', rng.sample(avail, kk) + [w], rand_cover(rng, kk)))
        avail.append(w)
    r = rng.random()
    if r < 0.45:
        kk = rng.randint(1, min(3, len(avail)))
        cmds.append(('names', rng.sample(avail, kk) + ['sd'], rand_cover(rng, kk)))
        for j in range(rng.randint(1, 3)):
            cmds.append(('latch', 'sd', 'sq%d' % j, rng.choice(INIT_CODES)))
            outs.append('sq%d' % j)
            avail.append('sq%d' % j)
    elif r < 0.75:
        cell = rng.choice(('$_DFF_P_', '$_DFFE_PP_', '$_SDFF_PN1_', '$_DFFSR_PPP', '$_SDFFCE_PP0N_'))
        info = cell_info(cell)
        pick = lambda: rng.choice(avail)
        cmds.append(('flop', cell, pick(), 'sq0', pick() if info['en'] is not None else None,
                     pick() if info['set'] is not None else None, pick() if info['rst'] is not None else None))
        outs.append('sq0')
        avail.append('sq0')
    else:
        leaf = gen_leaf(rng, 'leaf', 10, vec_formals=False)
        binds = [(f, rng.choice(avail)) for f in leaf.inputs]
        for f in leaf.outputs:
            binds.append((f, 'u_' + f))
            avail.append('u_' + f)
            outs.append('u_' + f)
        rng.shuffle(binds)
        cmds.append(('subckt', leaf.name, binds))
        models.append(leaf)
    kk = rng.randint(1, min(3, len(avail)))
    cmds.append(('names', rng.sample(avail, kk) + ['o'], rand_cover(rng, kk)))
    outs.append('o')
    rng.shuffle(cmds)
    top = Model('s%d' % i, 1, ins, outs, cmds)
    top.clock, top.alias = clock, alias
    return [top] + models


def run_sessions(ctx):
    nsess, ncase = (1, 36) if ctx.tier == 'quick' else (12, 48)
    pend = []
    for sidx in range(nsess):
        for i in range(ncase):
            rng = ctx.sub_rng('session', sidx, i)
            models = gen_session_model(rng, i)
            top = models[0]
            ctx.count('session_clock_name', top.clock)
            ctx.count('session_clock_alias', top.alias)
            for nm in top.inputs:
                if nm in NAME_POOL:
                    ctx.count('session_data_input_named', nm)
            inss = [[rng.randint(0, 1) for _ in top.inputs] for _ in range(6)]
            pend.append(run_blif_case(ctx, 'session', (sidx, i), models, inss, True, sample=(sidx == 0 and i == 3)))
    settle_blif(ctx, pend, 'c12sess')


# ----------------------------------------------------------------------------- family 4d: every reader x every net kind
MIX_CELLS = ('$_DFF_P_', '$_DFFE_PN_', '$_DFF_PP1_', '$_DFFSR_PPP', '$_SDFF_PN0_', '$_SDFFE_PP1N_', '$_SDFFCE_PN1P_')


def gen_mix(rng, i):
    """Covers, latches (D), flip-flop cells (D/E/S/R pins) and .subckt actuals each read nets of every kind --
    top-level inputs (scalar and vector bits), internal nets, state outputs, sub-circuit outputs and, with a bias,
    top-level OUTPUTS (scalar and vector bits).  Shift registers with exported taps and outputs feeding
    sub-circuits arise as instances."""
    ins = ['a', 'b'] + (['v[0]', 'v[1]'] if rng.random() < 0.5 else [])
    pending = ['o%d' % k for k in range(rng.randint(2, 4))]
    w = rng.choice((0, 2, 3))
    pending += ['y[%d]' % k for k in range(w)]
    rng.shuffle(pending)
    leaves = [gen_leaf(rng, 'leaf%d' % j, 10 + j, vec_formals=(j == 1)) for j in range(rng.randint(1, 2))]
    pool, outs, cmds, stats = list(ins), [], [], []
    steps = len(pending) + rng.randint(0, 3)

    def pick(reader):
        if outs and rng.random() < 0.55:
            s = rng.choice(outs)
            stats.append((reader, 'vector-output-bit' if '[' in s else 'scalar-output'))
        else:
            s = rng.choice(pool)
            stats.append((reader, 'input' if s in ins else ('output' if s in outs else 'internal')))
        return s

    def new_net(force):
        if pending and (force or rng.random() < 0.6):
            nm = pending.pop()
            outs.append(nm)
        else:
            fresh[0] += 1
            nm = 'n%d' % fresh[0]
        return nm

    fresh = [0]
    step = 0
    while step < steps or pending:
        force = (steps - step) <= len(pending)
        kind = rng.choice(('cover', 'latch', 'flop', 'subckt', 'flop', 'latch'))
        made = []
        if kind == 'cover':
            srcs = []
            for _ in range(rng.randint(1, 3)):
                x = pick('cover-input')
                if x not in srcs:
                    srcs.append(x)
            nm = new_net(force)
            cmds.append(('names', srcs + [nm], rand_cover(rng, len(srcs))))
            made.append(nm)
        elif kind == 'latch':
            d = pick('latch-D')
            nm = new_net(force)
            cmds.append(('latch', d, nm, rng.choice(INIT_CODES)))
            made.append(nm)
        elif kind == 'flop':
            cell = rng.choice(MIX_CELLS)
            info = cell_info(cell)
            d = pick('flop-D')
            e = pick('flop-E') if info['en'] is not None else None
            st = pick('flop-S') if info['set'] is not None else None
            r = pick('flop-R') if info['rst'] is not None else None
            nm = new_net(force)
            cmds.append(('flop', cell, d, nm, e, st, r))
            made.append(nm)
        else:
            leaf = rng.choice(leaves)
            binds = [(f, pick('subckt-actual')) for f in leaf.inputs]
            for f in leaf.outputs:
                nm = new_net(force and len(pending) > 0)
                binds.append((f, nm))
                made.append(nm)
            rng.shuffle(binds)
            cmds.append(('subckt', leaf.name, binds))
        pool.extend(made)
        step += 1
    rng.shuffle(cmds)
    outs_decl = list(outs)
    rng.shuffle(outs_decl)
    return [Model('mix%d' % i, 1, ins, outs_decl, cmds)] + leaves, stats


def run_mix(ctx):
    n = 40 if ctx.tier == 'quick' else 600
    pend = []
    for i in range(n):
        rng = ctx.sub_rng('mix', i)
        models, stats = gen_mix(rng, i)
        top = models[0]
        for reader, kind in stats:
            ctx.count('mix_reader_x_net', '%s<-%s' % (reader, kind))
        ncyc = rng.randint(5, 8)
        bits = [[rng.randint(0, 1) for _ in top.inputs] for _ in range(ncyc)]
        pos = {nm: k for k, nm in enumerate(top.inputs)}
        for merge in (True, False):
            ig = port_groups(top.inputs, merge)
            inss = [[sum(row[pos[nm]] << j for j, nm in enumerate(names)) for _, names in ig] for row in bits]
            pend.append(run_blif_case(ctx, 'mix', i, models, inss, merge, sample=(i == 1 and merge)))
    settle_blif(ctx, pend, 'c12mix')

# ----------------------------------------------------------------------------- family 5: ISCAS .bench
NARY = ('AND', 'OR', 'NAND', 'NOR', 'XOR')


def bench_text(b):
    lines = ['# generated']
    lines += ['INPUT(%s)' % s for s in b['inputs']]
    lines += ['OUTPUT(%s)' % s for s in b['outputs']]
    lines += ['%s = %s(%s)' % (d, g, ', '.join(srcs)) for d, g, srcs in b['gates']]
    return '\n'.join(lines) + '\n'


def gate_value(g, vs, first_two_only=False):
    if first_two_only and g in NARY:
        vs = vs[:2]
    if g == 'AND':
        return all(vs)
    if g == 'OR':
        return any(vs)
    if g == 'NAND':
        return not all(vs)
    if g == 'NOR':
        return not any(vs)
    if g == 'XOR':
        return sum(vs) % 2 == 1
    if g == 'NOT':
        return not vs[0]
    if g == 'BUFF':
        return vs[0]
    raise ValueError(g)


def py_bench_run(b, inss, first_two_only=False):
    drv = {}
    for d, g, srcs in b['gates']:
        drv.setdefault(d, (g, srcs))
    state = {d: False for d, g, _ in b['gates'] if g == 'DFF'}
    trace = []
    for row in inss:
        memo = dict(zip(b['inputs'], [bool(v) for v in row]))

        def val(s, busy=()):
            if s in memo:
                return memo[s]
            if s in busy:
                raise ValueError('loop')
            g, srcs = drv[s]
            v = state[s] if g == 'DFF' else gate_value(g, [val(x, busy + (s,)) for x in srcs], first_two_only)
            memo[s] = bool(v)
            return memo[s]
        trace.append([int(val(o)) for o in b['outputs']])
        state = {d: val(srcs[0]) for d, (g, srcs) in drv.items() if g == 'DFF'}
    return trace


def gen_bench(rng, nary):
    nin = rng.randint(2, 4)
    ins = ['G%d' % i for i in range(nin)]
    avail = list(ins)
    gates = []
    dffs = []
    for k in range(rng.randint(0, 2)):
        q = 'Q%d' % k
        dffs.append(q)
        avail.append(q)
    for k in range(rng.randint(3, 8)):
        d = 'n%d' % k
        r = rng.random()
        if r < 0.12:
            gates.append((d, 'NOT', [rng.choice(avail)]))
        elif r < 0.2:
            gates.append((d, 'BUFF', [rng.choice(avail)]))
        else:
            ar = 2
            if nary and rng.random() < 0.6:
                ar = rng.randint(3, 5)
            gates.append((d, rng.choice(NARY), [rng.choice(avail) for _ in range(ar)]))
        avail.append(d)
    for q in dffs:
        gates.append((q, 'DFF', [rng.choice(avail)]))
    cands = [d for d, g, _ in gates]
    outs = rng.sample(cands, min(len(cands), rng.randint(1, 3)))
    rng.shuffle(gates)
    # outputs get an internal reader too: nothing to do, gates may already read them
    return {'inputs': ins, 'outputs': outs, 'gates': gates}


def coq_bench(b):
    ids = {}
    for s in b['inputs'] + b['outputs'] + [x for d, g, srcs in b['gates'] for x in [d] + srcs]:
        ids.setdefault(s, len(ids))

    def L(s):
        return '(L %d)' % ids[s]
    return '(mkBench [%s] [%s] [%s])' % (
        '; '.join(L(s) for s in b['inputs']), '; '.join(L(s) for s in b['outputs']),
        '; '.join('(%s, "%s", [%s])' % (L(d), g, '; '.join(L(x) for x in srcs)) for d, g, srcs in b['gates']))


def impl_bench_run(text, b, inss):
    pyrtl.reset_working_block()
    with contextlib.redirect_stdout(io.StringIO()):
        pyrtl.input_from_iscas_bench(text)
    block = pyrtl.working_block()
    sim = pyrtl.Simulation(tracer=pyrtl.SimulationTrace(block=block), block=block)
    trace = []
    for row in inss:
        sim.step(dict(zip(b['inputs'], row)))
        trace.append([sim.inspect(o) for o in b['outputs']])
    return trace


def run_bench(ctx):
    n = 60 if ctx.tier == 'quick' else 1200
    pend = []
    # the minimal n-ary probe first (the documented counterexample), then random netlists
    fixed = [{'inputs': ['a', 'b', 'c'], 'outputs': ['y'], 'gates': [('y', g, ['a', 'b', 'c'])]} for g in NARY]
    for i in range(len(fixed) + n):
        rng = ctx.sub_rng('bench', i)
        if i < len(fixed):
            b = fixed[i]
            nary = True
        else:
            nary = (i % 2 == 0)
            b = gen_bench(rng, nary)
        text = bench_text(b)
        nin = len(b['inputs'])
        if i < len(fixed) or not any(g == 'DFF' for _, g, _ in b['gates']):
            inss = [[(v >> k) & 1 for k in range(nin)] for v in range(1 << nin)]
        else:
            inss = [[rng.randint(0, 1) for _ in range(nin)] for _ in range(10)]
        expected = py_bench_run(b, inss)
        rep = {'family': 'bench', 'bench': text, 'inputs': inss, 'input_names': b['inputs'],
               'output_names': b['outputs'], 'repro': 'pyrtl.input_from_iscas_bench(bench); Simulation.step per row'}
        try:
            got = impl_bench_run(text, b, inss)
        except Exception as e:
            ctx.spec_violation('iscas:rejected', 'input_from_iscas_bench/Simulation raised %s: %s'
                               % (type(e).__name__, str(e)[:200]), dict(rep, expected=expected))
            continue
        maxar = max(len(s) for _, g, s in b['gates'] if g in NARY) if any(g in NARY for _, g, _ in b['gates']) else 0
        ctx.count('bench_max_arity', maxar)
        for _, g, _ in b['gates']:
            ctx.count('bench_gates', g)
        ctx.case(('bench', text), nontrivial=any(len({r[k] for r in expected}) > 1 for k in range(len(b['outputs']))),
                 sample={'family': 'bench', 'bench': text, 'inputs': inss[:3], 'outputs': got[:3]} if i == len(fixed) else None)
        if got != expected:
            t = next(k for k in range(len(inss)) if got[k] != expected[k])
            # signature by predicate: some gate has > 2 sources AND the trace is exactly the one obtained
            # when every AND/OR/NAND/NOR/XOR uses only its first two sources
            if maxar > 2 and got == py_bench_run(b, inss, first_two_only=True):
                sig = 'iscas:nary-gate-ignores-inputs'
                what = ('input_from_iscas_bench: gates with more than two sources use only the first two '
                        '(e.g. y = AND(a, b, c) with a=b=1, c=0 gives 1)')
            else:
                sig = 'iscas:trace'
                what = 'imported .bench block differs from .bench semantics'
            ctx.spec_violation(sig, what + '; cycle %d expected %s got %s' % (t, expected[t], got[t]),
                               dict(rep, expected=expected, got=got, cycle=t))
        pend.append({'expr': 'bench_case %d %s [%s]' % (
            len(b['gates']) + 3, coq_bench(b), '; '.join('[' + '; '.join(map(str, r)) + ']' for r in inss)),
            'got': got, 'expected': expected, 'rep': rep})
    try:
        res = ctx.coq_eval([p['expr'] for p in pend], IMPORTS, tag='c12bench', shard=max(1, (len(pend) + 11) // 12), jobs=12)
    except Exception as e:
        ctx.model_mismatch('bench_case could not be evaluated: %s' % str(e)[-800:], {})
        return
    for p, r in zip(pend, res):
        spec, model = (r[0], r[1]), r[2]      # Coq prints ((a, b), c) as (a, b, c)
        if not spec[0] or [list(r) for r in spec[1]] != p['expected']:
            ctx.model_mismatch('Coq .bench semantics and the Python evaluator disagree',
                               dict(p['rep'], coq_spec=spec[1], python=p['expected']))
        if model is None or not model[0]:
            ctx.model_mismatch('Coq model of input_from_iscas_bench rejects an accepted file', p['rep'])
        elif [list(r) for r in model[1]] != p['got']:
            ctx.model_mismatch('input_from_iscas_bench and IO/Iscas.v import_bench disagree',
                               dict(p['rep'], coq_model=model[1], got=p['got']))


# ----------------------------------------------------------------------------- family 5b: .bench net names
# The function of a netlist does not depend on what its nets are called.  Names are drawn from a pool that is
# hostile relative to the importer's own naming: <x>_reg / <x>_i / <x>_next / <x>[0] for another net x, PyRTL's
# temporaries tmp<N> (N around the live counter, and small N), const_*, gate names and keywords, clk.
KEYWORD_NAMES = ['DFF', 'AND', 'NAND', 'OR', 'NOR', 'XOR', 'NOT', 'BUFF', 'INPUT', 'OUTPUT', 'reg', 'next', 'w']


def live_tmp_counter():
    pyrtl.reset_working_block()
    return int(pyrtl.WireVector(bitwidth=1).name[3:])


def name_plan(rng, sigs, allow_clk=True):
    """signal -> (category, parameter); turned into names by make_names right before an import"""
    sigs = list(sigs)
    rng.shuffle(sigs)
    plan = {}
    for k, x in enumerate(sigs):
        r = rng.random()
        if r < 0.25 or k == 0:
            plan[x] = ('plain', None)
        elif r < 0.45:
            plan[x] = ('suffix_reg', rng.choice(sigs[:k]))
        elif r < 0.55:
            plan[x] = ('suffix', (rng.choice(sigs[:k]), rng.choice(('_i', '_next', '[0]x', '_reg_reg', '_', '_src_reg'))))
        elif r < 0.70:
            plan[x] = ('tmp', rng.randint(1, 40))
        elif r < 0.75:
            plan[x] = ('tmp_small', rng.randint(0, 30))
        elif r < 0.83:
            plan[x] = ('const', rng.choice(('const_0_0', 'const_1_1', 'const_%d_1' % rng.randint(0, 60), 'const_')))
        elif r < 0.97 or not allow_clk:
            plan[x] = ('keyword', rng.choice(KEYWORD_NAMES))
        else:
            plan[x] = ('clk', None)
    return sigs, plan


def make_names(sigs, plan, only=None, ports=(), plain_reserved_ports=False):
    """signal -> name.  Categories outside `only` keep their plain names; with plain_reserved_ports the
    ports (and only they) whose hostile name would be reserved by PyRTL keep their plain names too."""
    counter = live_tmp_counter()
    ren, used = {}, set()
    for x in sigs:
        cat, par = plan[x]
        if only is not None and cat not in only:
            cat = 'plain'
        if cat == 'plain':
            nm = x
        elif cat == 'suffix_reg':
            nm = ren[par] + '_reg'
        elif cat == 'suffix':
            nm = ren[par[0]] + par[1]
        elif cat == 'tmp':
            nm = 'tmp%d' % (counter + par)
        elif cat == 'tmp_small':
            nm = 'tmp%d' % par
        elif cat in ('const', 'keyword'):
            nm = par
        else:
            nm = 'clk'
        if plain_reserved_ports and x in ports and reserved_name(nm):
            nm = x
        while nm in used or (nm in sigs and nm != x):
            nm += '_'
        used.add(nm)
        ren[x] = nm
    return ren, counter


def bench_sigs(b):
    sigs = []
    for x in b['inputs'] + [d for d, _, _ in b['gates']]:
        if x not in sigs:
            sigs.append(x)
    return sigs


def apply_names(b, sigs, plan, only=None, plain_reserved_ports=False):
    ren, counter = make_names(sigs, plan, only, ports=set(b['inputs'] + b['outputs']),
                              plain_reserved_ports=plain_reserved_ports)
    return {'inputs': [ren[x] for x in b['inputs']], 'outputs': [ren[x] for x in b['outputs']],
            'gates': [(ren[d], g, [ren[y] for y in srcs]) for d, g, srcs in b['gates']]}, counter


def bench_attempt(b, inss):
    """-> (trace or None, error text)"""
    try:
        return impl_bench_run(bench_text(b), b, inss), None
    except Exception as e:
        return None, '%s: %s' % (type(e).__name__, ' '.join(str(e).split())[:160])


def run_bench_names(ctx):
    n = 80 if ctx.tier == 'quick' else 1500
    pend = []
    for i in range(n):
        rng = ctx.sub_rng('bench-names', i)
        plain = gen_bench(rng, nary=False)
        if i % 4 == 0:     # a flop pipeline: every stage is a DFF reading the previous one
            k = rng.randint(2, 4)
            plain = {'inputs': ['G0', 'G1'], 'outputs': ['n0'],
                     'gates': [('Q%d' % j, 'DFF', ['Q%d' % (j - 1) if j else 'G0']) for j in range(k)]
                     + [('n0', rng.choice(NARY), ['Q%d' % (k - 1), 'G1'])]}
            rng.shuffle(plain['gates'])
        sigs, plan = name_plan(rng, bench_sigs(plain))
        nin = len(plain['inputs'])
        inss = [[rng.randint(0, 1) for _ in range(nin)] for _ in range(8)]
        expected = py_bench_run(plain, inss)
        b, counter = apply_names(plain, sigs, plan)
        cats = sorted({plan[x][0] for x in sigs} - {'plain'})
        for c in cats:
            ctx.count('bench_name_category', c)
        text = bench_text(b)
        got, err = bench_attempt(b, inss)
        ctx.case(('bench-names', text), nontrivial=any(len({r[k] for r in expected}) > 1
                                                        for k in range(len(b['outputs']))),
                 sample={'family': 'bench-names', 'bench': text, 'outputs': got[:3] if got else err} if i == 1 else None)
        if got != expected:
            # which name category is responsible?  re-import with one category of hostile names at a time
            plain_got, plain_err = bench_attempt(plain, inss)
            reports = []
            if plain_got == expected:
                # (1) is it only the PORTS that carry reserved names?  keep every internal name
                bp, cntp = apply_names(plain, sigs, plan, plain_reserved_ports=True)
                gp, ep = bench_attempt(bp, inss)
                if gp == expected:
                    reports.append((PORT_SIG, b, got, err, counter))
                else:
                    # (2) internal nets: one category of hostile names at a time (ports never reserved)
                    for c in cats:
                        bc, cnt = apply_names(plain, sigs, plan, only=(c,), plain_reserved_ports=True)
                        g, e1 = bench_attempt(bc, inss)
                        if g != expected:
                            reports.append(('iscas:net-names:' + c, bc, g, e1, cnt))
                    if not reports:
                        reports.append(('iscas:net-names:combination', bp, gp, ep, cntp))
            else:
                reports.append(('iscas:trace' if plain_got is not None else 'iscas:rejected', b, got, err, counter))
            for sig, bb, g, e1, cnt in reports:
                if sig == PORT_SIG:
                    what = 'input_from_iscas_bench: ' + PORT_WHAT + ' [%s]' % e1
                else:
                    what = ('input_from_iscas_bench: the imported function depends on how the nets are called (%s): %s'
                            % (sig.split(':')[-1], e1 if g is None else 'trace differs from the .bench semantics'))
                ctx.spec_violation(sig, what,
                                   {'family': 'bench-names', 'bench': bench_text(bb),
                                    'same_netlist_plain_names': bench_text(plain),
                                    'inputs': inss, 'input_names': bb['inputs'], 'output_names': bb['outputs'],
                                    'expected': expected, 'got': g if g is not None else e1,
                                    'tmp_counter_before_import': cnt,
                                    'note': 'tmp<N> names are chosen relative to the live temporary-name counter; '
                                            'a replay in a fresh process needs N shifted accordingly',
                                    'repro': 'pyrtl.input_from_iscas_bench(bench); Simulation.step per row'})
            continue
        pend.append({'expr': 'bench_case %d %s [%s]' % (
            len(b['gates']) + 3, coq_bench(b), '; '.join('[' + '; '.join(map(str, r)) + ']' for r in inss)),
            'got': got, 'expected': expected, 'rep': {'bench': text, 'inputs': inss}})
    try:
        res = ctx.coq_eval([p['expr'] for p in pend], IMPORTS, tag='c12bnames', shard=max(1, (len(pend) + 11) // 12), jobs=12)
    except Exception as e:
        ctx.model_mismatch('bench_case could not be evaluated: %s' % str(e)[-800:], {})
        return
    for p, r in zip(pend, res):
        spec, model = (r[0], r[1]), r[2]
        if not spec[0] or [list(x) for x in spec[1]] != p['expected']:
            ctx.model_mismatch('Coq .bench semantics and the Python evaluator disagree', p['rep'])
        if model is None or not model[0] or [list(x) for x in model[1]] != p['got']:
            ctx.model_mismatch('input_from_iscas_bench and IO/Iscas.v import_bench disagree', p['rep'])


def run_blif_names(ctx):
    """BLIF: top-level ports and internal nets of the top model renamed from the hostile pool"""
    n = 40 if ctx.tier == 'quick' else 600
    pend = []
    for i in range(n):
        rng = ctx.sub_rng('blif-names', i)
        plain, _stats = gen_mix(rng, i)
        ptop = plain[0]
        ptop.clock = 'clk' if i % 2 == 0 else 'phi'
        sigs0 = []
        for x in ptop.signals():
            if '[' not in x and x not in sigs0:
                sigs0.append(x)
        sigs, plan = name_plan(rng, sigs0, allow_clk=(ptop.clock != 'clk'))
        ports = set(ptop.inputs + ptop.outputs)
        merge = (i % 4 < 2)
        bits = [[rng.randint(0, 1) for _ in ptop.inputs] for _ in range(7)]

        def build(only=None, plain_reserved_ports=False):
            ren, counter = make_names(sigs, plan, only, ports=ports, plain_reserved_ports=plain_reserved_ports)
            return rename_top(plain, ren), counter
        models, counter = build()
        cats = sorted({plan[x][0] for x in sigs} - {'plain'})
        for c in cats:
            ctx.count('blif_name_category', c)
        for x in sigs:
            if plan[x][0] != 'plain':
                ctx.count('blif_hostile_name_on', 'port' if x in ports else 'internal net')
        got, err, expected = blif_attempt(models, merge, bits)
        text = blif_text(models, models[0])
        ctx.case(('blif-names', text, merge), nontrivial=any(len({r[k] for r in expected}) > 1
                                                              for k in range(len(expected[0]))),
                 sample={'family': 'blif-names', 'blif': text[:700], 'outputs': got[:3] if got else err}
                 if i == 1 else None)
        if got == expected:
            ig_ = port_groups(models[0].inputs, merge)
            pos_ = {nm: k for k, nm in enumerate(models[0].inputs)}
            inss_ = [[sum(row[pos_[nm]] << j for j, nm in enumerate(names)) for _, names in ig_] for row in bits]
            pend.append({'expr': coq_blif_expr(models, merge, inss_), 'got': got, 'expected': expected,
                         'rep': {'blif': text, 'merge_io_vectors': merge, 'clock_name': models[0].clock,
                                 'inputs': inss_}, 'fam': 'blif-names'})
            continue
        reports = []
        pg, pe, pexp = blif_attempt(plain, merge, bits)
        if pg == pexp:
            mp, cntp = build(plain_reserved_ports=True)
            gp, ep, xp = blif_attempt(mp, merge, bits)
            if gp == xp:
                reports.append((PORT_SIG, models, got, err, counter))
            else:
                for c in cats:
                    mc, cnt = build(only=(c,), plain_reserved_ports=True)
                    g, e1, x1 = blif_attempt(mc, merge, bits)
                    if g != x1:
                        reports.append(('blif:net-names:' + c, mc, g, e1, cnt))
                if not reports:
                    reports.append(('blif:net-names:combination', mp, gp, ep, cntp))
        else:
            reports.append(('blif:mix:trace' if pg is not None else 'blif:mix:rejected', plain, pg, pe, counter))
        for sig, mm, g, e1, cnt in reports:
            if sig == PORT_SIG:
                what = 'input_from_blif: ' + PORT_WHAT + ' [%s]' % e1
            else:
                what = ('input_from_blif: the imported function depends on how the nets are called (%s): %s'
                        % (sig.split(':')[-1], e1 if g is None else 'trace differs from the BLIF semantics'))
            top = mm[0]
            ig, og = port_groups(top.inputs, merge), port_groups(top.outputs, merge)
            pos = {nm: k for k, nm in enumerate(top.inputs)}
            ctx.spec_violation(sig, what, {
                'family': 'blif-names', 'blif': blif_text(mm, top), 'merge_io_vectors': merge, 'clock_name': top.clock,
                'same_netlist_plain_names': blif_text(plain, ptop),
                'input_ports': [p_ for p_, _ in ig], 'output_ports': [p_ for p_, _ in og],
                'inputs': [[sum(row[pos[nm]] << j for j, nm in enumerate(names)) for _, names in ig] for row in bits],
                'expected': blif_attempt(plain, merge, bits)[2], 'got': g if g is not None else e1,
                'tmp_counter_before_import': cnt, 'history': [],
                'note': 'tmp<N> names are relative to the live temporary-name counter'})
    settle_blif(ctx, pend, 'c12bnm')


def run(ctx):
    run_covers(ctx)
    run_latches(ctx)
    run_flops(ctx)
    run_hier(ctx)
    run_vectors(ctx)
    run_sessions(ctx)
    run_mix(ctx)
    run_blif_names(ctx)
    run_bench(ctx)
    run_bench_names(ctx)


def replay(ctx, data):
    rep = data.get('replay', data)
    print('replaying', rep.get('family'))
    if 'bench' in rep:
        pyrtl.reset_working_block()
        with contextlib.redirect_stdout(io.StringIO()):
            pyrtl.input_from_iscas_bench(rep['bench'])
        names_in, names_out = rep['input_names'], rep['output_names']
    else:
        for h in rep.get('history', []):
            pyrtl.reset_working_block()
            pyrtl.input_from_blif(h['blif'], merge_io_vectors=h.get('merge_io_vectors', True),
                                  clock_name=h.get('clock_name', 'clk'))
        pyrtl.reset_working_block()
        pyrtl.input_from_blif(rep['blif'], merge_io_vectors=rep.get('merge_io_vectors', True),
                              clock_name=rep.get('clock_name', 'clk'))
        names_in, names_out = rep['input_ports'], rep['output_ports']
    sim = pyrtl.Simulation()
    got = []
    for row in rep['inputs']:
        sim.step(dict(zip(names_in, row)))
        got.append([sim.inspect(o) for o in names_out])
    print('expected', rep.get('expected'))
    print('got     ', got)
    if got != rep.get('expected'):
        ctx.spec_violation(data.get('signature', 'replay'), data.get('what', 'replayed case still fails'), rep)
