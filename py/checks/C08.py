"""C08: MemBlock/RomBlock behave as arrays under every history of reads and writes.

Tie (behavioural): real MemBlocks built from Inputs are driven through histories of per-cycle
(waddr, data, en)* x raddr* in Simulation, FastSimulation, CompiledSimulation, after synthesize()
and after optimize(); every read-port output on every cycle and the final contents
(inspect_mem; for the Python simulators the dict's items IN ORDER) are compared with the Coq
concrete models (Mem/MemDefs.v: dict, deferred write list, chained hash map), each model being
given the order in which that back-end visits its '@' nets.  The C hash-map helpers emitted by
_declare_mem_helpers are additionally compiled on their own and their BUCKET CHAINS are compared
with the Coq bucket model for several bucket counts.  RomBlock._get_read_data is compared with
rom_read on every address (and one beyond each end).

Tie (translator, py/genfrag_C08.py -> Gen/MemFrag.v, regenerated every run): the address guard, value
guard and padded values of RomBlock._get_read_data (used by rom_read, so C08_rom is re-proved against
the current source text), the store condition and operand positions of Simulation._mem_update, the
operand positions of MemBlock._build and of the C memory-write emitter, the bucket count.

Tie (structural gates): the Python program FastSimulation generates and the C text CompiledSimulation
generates for each design are checked to be instances of the program shapes the theorems quantify over
(reads = `d[mem].get(a, default)` / `lookup(mem, a[0])[n]`, writes = guarded `mem_ws.append` /
guarded `insert`, all lookups before all inserts, mem_ws applied after sim_func).

Coq's numeral parser/printer costs 1-3 ms per number, so histories are sent as one hexadecimal
literal per cycle together with what the implementation produced, and Coq answers with booleans
(Mem/MemHarness.v mem_check / sweep_check / walk_check / hm_check); the verbose mem_case is used
only to explain a disagreement.

Search: the same runs are compared with the array specification (Coq arr_run + an independent
Python array written from the property text); ROM reads with data[a].

Verilog: the exported text is (a) checked for the shape of its memory fragment (declaration size, enabled
non-blocking writes under posedge clk, asynchronous read assigns) and (b) parsed by the fail-closed
Verilog-2001 reader py/verilog_reader.py into the AST of IO/VerilogSyn.v and RUN AS A WHOLE MODULE
inside Coq under IO/VerilogSem.v (the formalisation of the emitted subset written for C05): outputs of
every cycle and memory words during and after the run are compared, inside Coq, with what the array
specification expects (Mem/MemVerilog.v vlog_module_check; every cycle's valuation is re-checked
against all continuous assignments, the evaluation order supplied here is only a hint).  This covers
every port form (registers, constants, concat-tagged addresses, conditional_assignment muxes).
C08_verilog_module_memory_is_array proves, for EVERY module of the subset and every run of that
semantics, that each memory is the array driven by what its write statements and read assigns
present; C08_verilog_evaluated_run_is_a_trace that the evaluated run is such a run.  Modules the
reader rejects (its 65536-bit limit on ranges: memories deeper than 2^16 words) get (a) only.
"""
import ctypes
import io
import itertools
import os
import random
import re
import subprocess
import pyrtl
import nlx

RULE = ('(1) 2-word x 1-bit MemBlock, (nw,nr) write/read ports: every content (each address unset/0/1) x every '
        'operation tuple with pairwise-distinct enabled write addresses, one step each, plus De Bruijn walks over '
        'the operation alphabet (every sequence of 3-4 consecutive operations for 1w1r, of 2 for 2 write ports) from '
        'several initial contents; (2) seeded random designs of 1-4 MemBlocks (addr/data widths 1..70, 1-3 write and '
        '1-3 read ports, free Input addresses or low-bit-tagged addresses) x random histories from an address pool '
        'biased to 0, 2^aw-1, 2^31/2^32/2^63/2^64 neighbours and aliases mod 2^32 / 2^64, disabled ports colliding with '
        'enabled ones, read-during-write; MemBlock names unique, auto-generated or REPEATED (two memories sharing an explicit name, followed by further memories; ids within a block checked distinct); write ports built in every form the API offers (EnabledWrite, plain <<=, Const enables, and one port '
        'under conditional_assignment with 1-3 branches mixing plain and EnabledWrite values, a disabled write being '
        'either no branch or a taken branch whose own enable is 0); memories with no read port at all (observed through inspect_mem during and after the run); two instances of every simulator kind per design in one '
        'process, memory_value_map keyword omitted when nothing is initialised; (2b) cross-talk family (every third design): 2-3 MemBlocks over one address space, at least two '
        'WITHOUT a memory_value_map entry, each driven to read and overwrite the addresses the others wrote, and the '
        'twin design (two 2-word memories sharing the address inputs) under a De Bruijn walk of all 64 joint operations; '
        '(3) RomBlocks from list/dict/function, short/sparse/out-of-range data, '
        'pad_with_zeros; (4) the C hash-map helpers alone with 1..256 buckets.  Back-ends: Simulation, FastSimulation, '
        'CompiledSimulation (sub-design with addrwidth <= 64 when it rejects wider ones), all three simulators after '
        'synthesize() (merged and 1-bit I/O), optimize() and both, and the exported Verilog module run as a whole under '
        'IO/VerilogSem.v inside Coq (every port form; memories up to 2^16 words).  A case = one '
        '(memory, history, back-end); distinct by its full content; non-trivial when at least one read returned a word '
        'written earlier in the run and at least one enabled write happened')
IMPORTS = 'From PyRTL Require Import Mem.MemDefs Mem.MemHarness.'
COQ_TARGETS = ['theories/Mem/MemHarness.vo', 'theories/Mem/MemVerilog.vo']
ASSUMPTIONS = [
    'enabled write addresses within one cycle are pairwise distinct (by construction of the stimulus; re-checked '
    'inside Coq on every evaluated history: cycle_okb)',
    'CompiledSimulation is compared only with default_value = 0 (non-zero default for memories is documented as unsupported)',
    'memory_value_map / write data / addresses are within the declared widths',
    'Verilog: registers and uninitialised memory words start at 0 and initial memory contents are supplied to the '
    'semantics directly (x/z values are not modelled; MemBlock initial values are not part of the exported module); '
    'modules with a memory deeper than 2^16 words are rejected by the C05 reader (range limit) and only get the '
    'text-shape check of the memory fragment',
    'C hash map: pointer code is modelled as lists of (key, limbs) chains; malloc never fails',
]
TRUSTED = ['Mem/MemDefs.v arr_step/arr_run/hist_reads (array specification, proved equal to "word last written in a '
           'strictly earlier cycle"), rom_spec (data[a]); the Python array spec_run in py/checks/C08.py; '
           'IO/VerilogSyn.v + IO/VerilogSem.v (C05: formalisation of the emitted IEEE 1364-2001 subset) and '
           'py/verilog_reader.py (fail-closed parser of that subset) for the Verilog back-end; the ctypes mirror of '
           'the C structs']

M64 = (1 << 64) - 1
PRIMARY = ('sim', 'fast', 'compiled', 'synth', 'synth+opt')
_REPORTED = {}
_CTX = []          # the (capped) ctx, for the structural gates inside the runners
_WORKDIR = []
_SNAP = [None]         # cycle after which every runner also looks at inspect_mem DURING the run (None: only at the end)


class Res(tuple):
    """(reads, finals[, port orders]) plus .mids = inspect_mem per memory after _SNAP cycles"""
    mids = None


def guarded(ctx, backend, info, fn):
    """run one back-end; a simulator / pass that raises anything but the sanctioned rejection on an API-built memory
    design is a finding with a concrete input, not a harness error"""
    try:
        return fn()
    except PyrtlRejected:
        raise
    except Exception as e:
        ctx.spec_violation('%s:raises-%s' % (backend, type(e).__name__),
                           '%s raised %s on an API-built MemBlock design: %s' % (backend, type(e).__name__, str(e)[:200]),
                           dict(info, backend=backend))
        return None


_PASS_EMPTY = [False]   # True: a memory without initial contents is passed as an explicit empty dict


def mvm_kw(keys, inits):
    """keyword arguments for a simulator constructor: when no memory has initial contents the memory_value_map
    keyword is left out altogether (the constructor's own default is used), as a user would write it"""
    m = mvm_of(keys, inits)
    return {'memory_value_map': m} if (m or _PASS_EMPTY[0]) else {}


def mvm_of(keys, inits):
    """memory_value_map: memories without initial contents are left out (so the simulator creates their storage
    itself) unless _PASS_EMPTY is set"""
    return {k: dict(i) for k, i in zip(keys, inits) if i or _PASS_EMPTY[0]}


# ------------------------------------------------------------------ specification (search oracle)

def spec_run(init, dflt, hist):
    """the property text: reads see the array before this cycle's writes; enabled writes land after"""
    arr = dict(init)
    reads = []
    for ws, rs in hist:
        reads.append([arr.get(a, dflt) for a in rs])
        for a, d, e in ws:
            if e:
                arr[a] = d
    return reads, arr


def rom_spec(kind, data, aw, bw, pad, a):
    """('ok', v) or ('err',): data[a]; 0 if padded; error otherwise"""
    if a < 0 or a >= (1 << aw):
        return ('err',)
    if kind == 'list':
        v = data[a] if a < len(data) else None
    else:  # dict / function-as-table
        v = data.get(a)
    if v is None:
        if kind != 'fun' and pad:
            return ('ok', 0)
        return ('err',)
    if v < 0 or v >= (1 << bw):
        return ('err',)
    return ('ok', v)


# ------------------------------------------------------------------ designs

_PORT_OF = {}    # id('@' net) -> (memory index k, write-port index, the net itself)

SRC_TEXT = {'in': 'Input', 'reg': 'Register (directly; fed by an Input one cycle earlier)', 'const': 'Const',
            'c0': 'Const 0', 'c1': 'Const 1', 'implicit': 'no EnabledWrite (implicit Const 1)'}


class MemCfg(object):
    """wk[i] = (address source, data source, enable source, constant address) of write port i;
    rk[j] = address source of read port j.  Sources: 'in' an Input; 'reg' a Register used DIRECTLY as the net's
    argument (exact width) whose next value is an Input, so the port sees the input of the previous cycle;
    'const' a Const address; enable also 'c0' / 'c1' (Const) and 'implicit' (plain `mem[a] <<= d`)."""

    def __init__(self, k, aw, dw, nw, nr, tagged=False, wk=None, rk=None, branches=None):
        # branches: None = every write port is its own statement outside any conditional (plain <<= / EnabledWrite);
        # a list of bools = ONE write port described inside a conditional_assignment block with one branch per
        # entry (`with sel == i:`), the entry saying whether that branch writes `mem[a] |= EnabledWrite(d, en)`
        # (True) or plain `mem[a] |= d` (False).  The memory then has one effective write port (nw == 1).
        self.branches = list(branches) if branches else None
        self.aux = None        # per-cycle inputs of the conditional form (selector and per-branch operands)
        self.name = None       # MemBlock name: None = 'mem<k>' (unique), '' = auto-generated, else the given (possibly shared) name
        self.k, self.aw, self.dw, self.nw, self.nr, self.tagged = k, aw, dw, nw, nr, tagged
        self.wk = [tuple(x) for x in wk] if wk else [('in', 'in', 'in', 0)] * nw
        self.rk = list(rk) if rk else ['in'] * nr
        self.mem = None

    def has_regs(self):
        return any('reg' in w[:3] for w in self.wk) or 'reg' in self.rk

    def plain(self):
        return all(w[:3] == ('in', 'in', 'in') for w in self.wk) and all(r == 'in' for r in self.rk)

    def desc(self):
        d = {'addrwidth': self.aw, 'bitwidth': self.dw, 'write_ports': self.nw, 'read_ports': self.nr,
             'tagged_low_bits': self.tagged}
        if not self.plain():
            d['write_port_sources(addr,data,enable,const addr)'] = [list(w) for w in self.wk]
            d['read_port_sources'] = list(self.rk)
        if self.name is not None:
            d['memblock_name'] = self.name
        if self.branches:
            d['conditional_assignment_branches(True=EnabledWrite,False=plain)'] = list(self.branches)
        return d


def _operand(kind, width, name, const=0):
    if kind == 'in':
        return pyrtl.Input(width, name)
    if kind == 'reg':
        x = pyrtl.Input(width, name)
        r = pyrtl.Register(width, name + '_r')
        r.next <<= x
        return r
    if kind == 'const':
        return pyrtl.Const(const, bitwidth=width)
    raise ValueError(kind)


def build_design(cfgs):
    """one block with several MemBlocks; every port operand is an Input, a Register used directly, or a Const"""
    pyrtl.reset_working_block()
    for c in cfgs:
        k = c.k
        m = pyrtl.MemBlock(bitwidth=c.dw, addrwidth=c.aw, name=('mem%d' % k) if c.name is None else c.name,
                           max_read_ports=None, max_write_ports=None, asynchronous=True)
        c.mem = m
        if c.branches:
            sel = pyrtl.Input(2, 'm%d_sel' % k)
            operands = [(pyrtl.Input(c.aw, 'm%d_ba%d' % (k, i)), pyrtl.Input(c.dw, 'm%d_bd%d' % (k, i)),
                         pyrtl.Input(1, 'm%d_be%d' % (k, i)) if en else None) for i, en in enumerate(c.branches)]
            with pyrtl.conditional_assignment:
                for i, (ba, bd, be) in enumerate(operands):
                    with sel == i:
                        if be is None:
                            m[ba] |= bd
                        else:
                            m[ba] |= pyrtl.MemBlock.EnabledWrite(bd, enable=be)
            net = m.writeport_nets[-1]
            _PORT_OF[id(net)] = (k, 0, net)
        for i in range(c.nw if not c.branches else 0):
            ak, dk, ek, ac = c.wk[i]
            if c.tagged:
                hi = pyrtl.Input(c.aw - 2, 'm%d_wa%d' % (k, i))
                wa = pyrtl.concat(hi, pyrtl.Const(i, bitwidth=2))
            else:
                wa = _operand(ak, c.aw, 'm%d_wa%d' % (k, i), ac)
            wd = _operand(dk, c.dw, 'm%d_wd%d' % (k, i))
            if ek == 'implicit':
                m[wa] <<= wd
            elif ek == 'c0':
                m[wa] <<= pyrtl.MemBlock.EnabledWrite(wd, enable=0 if i % 2 else pyrtl.Const(0, bitwidth=1))
            elif ek == 'c1':
                m[wa] <<= pyrtl.MemBlock.EnabledWrite(wd, enable=1 if i % 2 else pyrtl.Const(1, bitwidth=1))
            else:
                m[wa] <<= pyrtl.MemBlock.EnabledWrite(wd, _operand(ek, 1, 'm%d_we%d' % (k, i)))
            net = m.writeport_nets[-1]
            _PORT_OF[id(net)] = (k, i, net)
        for j in range(c.nr):
            ra = _operand(c.rk[j], c.aw, 'm%d_ra%d' % (k, j))
            o = pyrtl.Output(c.dw, 'm%d_o%d' % (k, j))
            o <<= m[ra]
    ids = [c.mem.id for c in cfgs]
    if len(set(ids)) != len(ids) and _CTX:
        # the simulators keep one array per memory id: two memories of one block must never share an id
        _CTX[0].spec_violation('memblock:two-memories-of-one-block-share-an-id',
                               'MemBlocks %s of one block were given ids %s' % ([c.mem.name for c in cfgs], ids),
                               {'memories': [dict(c.desc(), name=c.mem.name, id=c.mem.id) for c in cfgs]})
    if sum(c.nr for c in cfgs) == 0:
        # a design whose memories are only written (log buffers, observed through inspect_mem) still has an interface
        alive = pyrtl.Output(1, 'alive_out')
        alive <<= pyrtl.Input(1, 'alive_in')
    return pyrtl.working_block()


def steps_of(cfgs, hists, ncyc):
    """per-cycle input dicts from the per-memory EFFECTIVE histories (what each port presents to the memory):
    an operand that goes through a register is supplied one cycle earlier; a Const operand needs no input"""
    steps = [({'alive_in': t & 1} if sum(c.nr for c in cfgs) == 0 else dict()) for t in range(ncyc)]

    def put(kind, name, t, v):
        if kind == 'in':
            steps[t][name] = v
        elif kind == 'reg':
            if t > 0:
                steps[t - 1][name] = v
            elif v != 0:
                raise RuntimeError('a register-fed operand must be 0 in cycle 0')
            if t == ncyc - 1:
                steps[t][name] = 0
    for c, h in zip(cfgs, hists):
        if c.branches and (c.aux is None or len(c.aux) != ncyc):
            c.aux = cond_inputs(random.Random(repr(h)), c, h)
        for t in range(ncyc):
            ws, rs = h[t]
            if c.branches:
                steps[t].update(c.aux[t])
                ws = []
            for i, (a, d, e) in enumerate(ws):
                ak, dk, ek, ac = c.wk[i]
                if c.tagged:
                    steps[t]['m%d_wa%d' % (c.k, i)] = a >> 2
                else:
                    put(ak, 'm%d_wa%d' % (c.k, i), t, a)
                put(dk, 'm%d_wd%d' % (c.k, i), t, d)
                put(ek, 'm%d_we%d' % (c.k, i), t, e)
            for j, a in enumerate(rs):
                put(c.rk[j], 'm%d_ra%d' % (c.k, j), t, a)
    return steps


def cond_inputs(rng, c, hist):
    """inputs that make the conditional_assignment form present the given effective write (a, d, e) each cycle:
    an enabled write goes through a random branch; a disabled one is EITHER no branch taken OR a taken
    EnabledWrite branch whose own enable is 0; the operands of the branches not taken are random (their enables too)"""
    nb = len(c.branches)
    out = []
    for (ws, rs) in hist:
        (a, d, e), = ws
        s = {}
        for i, en in enumerate(c.branches):
            s['m%d_ba%d' % (c.k, i)] = a if rng.random() < 0.5 else rng.getrandbits(c.aw)
            s['m%d_bd%d' % (c.k, i)] = rng.getrandbits(c.dw)
            if en:
                s['m%d_be%d' % (c.k, i)] = rng.getrandbits(1)
        enabled_form = [i for i, en in enumerate(c.branches) if en]
        if e:
            b = rng.randrange(nb)
            if c.branches[b]:
                s['m%d_be%d' % (c.k, b)] = 1
        elif enabled_form and rng.random() < 0.6:
            b = rng.choice(enabled_form)
            s['m%d_be%d' % (c.k, b)] = 0
        else:
            b = rng.randrange(nb, 4)
        s['m%d_sel' % c.k] = b
        if b < nb:
            s['m%d_ba%d' % (c.k, b)] = a
            s['m%d_bd%d' % (c.k, b)] = d
        out.append(s)
    return out


def port_order(nets, k):
    """indices of memory k's write ports in the order the given '@' nets list them"""
    out = []
    for n in nets:
        if n.op == '@':
            ent = _PORT_OF.get(id(n))
            if ent is not None and ent[2] is n and ent[0] == k:
                out.append(ent[1])
    return out


class PyrtlRejected(Exception):
    pass


class quiet_gcc(object):
    """gcc's warnings about large integer literals in the generated C go to fd 2"""

    def __enter__(self):
        self.saved = os.dup(2)
        self.null = os.open(os.devnull, os.O_WRONLY)
        os.dup2(self.null, 2)

    def __exit__(self, *a):
        os.dup2(self.saved, 2)
        os.close(self.saved)
        os.close(self.null)


def run_python_sim(cls, block, cfgs, mems, inits, dflt, steps):
    """returns (reads per memory per cycle, final items per memory, port orders per memory)"""
    mvm = mvm_kw(mems, inits)
    if cls is pyrtl.Simulation:
        sim = cls(tracer=pyrtl.SimulationTrace(block=block), default_value=dflt, block=block, **mvm)
        nets = list(sim.mem_update_nets)
    else:
        codefile = os.path.join(_WORKDIR[0], 'c08_fastsim_code.py') if _WORKDIR else None
        sim = cls(tracer=pyrtl.SimulationTrace(block=block), default_value=dflt, block=block,
                  code_file=codefile, **mvm)
        nets = [n for n in block if n.op == '@']
        if codefile and _CTX:
            try:
                ev = fast_program_shape(open(codefile).read(), cfgs, dflt)
                for c in cfgs:
                    _CTX[0].count('fast_program_interleaving(R=read,W=guarded append)', ev[c.k] if len(ev[c.k]) <= 6 else 'longer')
            except ShapeError as e:
                _CTX[0].model_mismatch('FastSimulation generated program is not of the modelled shape: %s' % e,
                                       {'memories': [c.desc() for c in cfgs]})
    mids = None
    for t, s in enumerate(steps):
        if t == _SNAP[0]:
            mids = [list(sim.inspect_mem(m).items()) for m in mems]
        sim.step(dict(s))
    tr = sim.tracer.trace
    reads = [[[tr['m%d_o%d' % (c.k, j)][t] for j in range(c.nr)] for t in range(len(steps))] for c in cfgs]
    finals = [list(sim.inspect_mem(m).items()) for m in mems]
    orders = [port_order(nets, c.k) for c in cfgs]
    r = Res((reads, finals, orders))
    r.mids = mids
    return r


class CompilerUnavailable(PyrtlRejected):
    """gcc itself failed repeatedly (killed under memory pressure on a loaded machine): infrastructure, not PyRTL"""


def make_compiled(block, kw):
    for attempt in (0, 1, 2):
        try:
            with quiet_gcc():
                return pyrtl.CompiledSimulation(tracer=pyrtl.SimulationTrace(block=block), block=block, **kw)
        except pyrtl.PyrtlError as e:
            raise PyrtlRejected(str(e))
        except (subprocess.CalledProcessError, OSError) as e:
            if attempt == 2:
                if _CTX:
                    _CTX[0].count('compiled_skipped', 'the C compiler failed three times: %s' % type(e).__name__)
                raise CompilerUnavailable(str(e))
            import time
            time.sleep(2 + 3 * attempt)


def run_compiled(block, cfgs, mems, inits, steps, probes):
    sim = make_compiled(block, mvm_kw(mems, inits))
    nets = list(block.logic_subset('@'))
    if _CTX:
        try:
            c_program_shape(sim, cfgs, inits, mems)
            _CTX[0].count('c_program_shape', 'lookups-then-guarded-inserts')
        except ShapeError as e:
            _CTX[0].model_mismatch('CompiledSimulation generated C is not of the modelled shape: %s' % e,
                                   {'memories': [c.desc() for c in cfgs]})
    def look():
        out = []
        for m, ps in zip(mems, probes):
            insp = sim.inspect_mem(m)
            vals = []
            for a in ps:
                try:
                    vals.append(insp[a])
                except pyrtl.PyrtlError:
                    vals.append('PyrtlError')
                except Exception as e:  # ctypes.ArgumentError ...
                    vals.append('raised ' + type(e).__name__)
            out.append(vals)
        return out
    mids = None
    snap = _SNAP[0]
    if snap is not None and 0 < snap < len(steps):
        sim.run([dict(s) for s in steps[:snap]])
        mids = look()
        sim.run([dict(s) for s in steps[snap:]])
    else:
        sim.run([dict(s) for s in steps])
    tr = sim.tracer.trace
    reads = [[[tr['m%d_o%d' % (c.k, j)][t] for j in range(c.nr)] for t in range(len(steps))] for c in cfgs]
    finals = look()
    orders = [port_order(nets, c.k) for c in cfgs]
    r = Res((reads, finals, orders))
    r.mids = mids
    return r


def post_mems(ctx, post, mems, what):
    """the memories of a synthesized block that correspond to the original ones (F19 stepped around)"""
    out = []
    for m in mems:
        if m in post.mem_map:
            out.append((m, post.mem_map[m]))
        else:
            if not _REPORTED.get('f19'):
                _REPORTED['f19'] = True
                ctx.spec_violation('synthesize:mem_map-not-keyed-by-original',
                                   'PostSynthBlock.mem_map is not keyed by the original MemBlock (memory_value_map '
                                   'by original memory raises KeyError on the synthesized block)',
                                   {'what': what, 'memory': m.name, 'mem_map_keys': [k.name for k in post.mem_map]})
            cand = [k for k in post.mem_map if k.name == m.name]
            if not cand:
                cand = [n.op_param[1] for n in post.logic_subset('m@') if n.op_param[1].name == m.name][:1]
            out.append((cand[0], post.mem_map.get(cand[0], cand[0])))
    return out


def run_post(ctx, cls, post, cfgs, pm, inits, dflt, steps, what):
    """Simulation-like class on a synthesized/optimized block; pm = [(key for memory_value_map, memory in block)]"""
    sim = cls(tracer=pyrtl.SimulationTrace(block=post), default_value=dflt, block=post,
              **mvm_kw([key for key, _ in pm], inits))
    mids = None
    for t, s in enumerate(steps):
        if t == _SNAP[0]:
            mids = [list(sim.inspect_mem(inblock).items()) for (_, inblock) in pm]
        sim.step(dict(s))
    tr = sim.tracer.trace
    reads = [[[tr['m%d_o%d' % (c.k, j)][t] for j in range(c.nr)] for t in range(len(steps))] for c in cfgs]
    finals = [list(sim.inspect_mem(inblock).items()) for (_, inblock) in pm]
    r = Res((reads, finals))
    r.mids = mids
    return r


def run_post_bitio(ctx, block, cfgs, mems, inits, dflt, steps):
    """synthesize(merge_io_vectors=False): every Input/Output becomes 1-bit wires named name[i]"""
    post = pyrtl.synthesize(update_working_block=False, merge_io_vectors=False, block=block)
    pm = post_mems(ctx, post, mems, 'synthesize(merge_io_vectors=False)')
    widths = {w.name: w.bitwidth for w in block.wirevector_subset((pyrtl.Input, pyrtl.Output))}

    def bits(name, v):
        w = widths[name]
        if w == 1:
            return {name: v}
        return {'%s[%d]' % (name, i): (v >> i) & 1 for i in range(w)}
    sim = pyrtl.Simulation(tracer=pyrtl.SimulationTrace(block=post),
                           **mvm_kw([key for key, _ in pm], inits),
                           default_value=dflt, block=post)
    for s in steps:
        d = {}
        for k, v in s.items():
            d.update(bits(k, v))
        sim.step(d)
    tr = sim.tracer.trace

    def word(name, t):
        w = widths[name]
        if w == 1:
            return tr[name][t]
        return sum(tr['%s[%d]' % (name, i)][t] << i for i in range(w))
    reads = [[[word('m%d_o%d' % (c.k, j), t) for j in range(c.nr)] for t in range(len(steps))] for c in cfgs]
    finals = [list(sim.inspect_mem(inblock).items()) for (_, inblock) in pm]
    return reads, finals


# ------------------------------------------------------------------ structural gates on the generated programs
# The theorems C08_fast_program / C08_refines_array_fast quantify over EVERY straight-line program made of
# `x = d[mem].get(a, default)` and `if en: mem_ws.append((mem, a, v))`; C08_refines_array_compiled over every
# sequence of lookup()s followed by guarded insert()s.  These gates check that what the code generators emit
# for the design at hand IS such a program (so the theorem applies to it for every input value).

class ShapeError(Exception):
    pass


def _norm(src):
    return re.sub(r'\s+', ' ', src)


def fast_program_shape(code, cfgs, dflt):
    """returns the interleaving of read / write events per memory, e.g. {0: 'WRWR'}"""
    lines = code.split('\n')
    if lines[:4] != ['def sim_func(d):', '    regs = {}', '    outs = {}', '    mem_ws = []']:
        raise ShapeError('prologue of sim_func changed: %r' % lines[:4])
    if lines[-1].strip() != 'return regs, outs, mem_ws':
        raise ShapeError('sim_func does not return mem_ws last')
    byid = {c.mem.id: c for c in cfgs}
    events = {c.k: '' for c in cfgs}
    i = 4
    while i < len(lines) - 1:
        ln = lines[i]
        if re.match(r'\s*d\[.*\]\s*(=[^=]|\.)', ln) and 'get(' not in ln:
            raise ShapeError('the generated program mutates its input dict: %r' % ln)
        m = re.match(r'^    (\w+|outs\[.*\]) = (?:(\d+) & )?\(?d\["fs_mem(\d+)"\]\.get\((.+), (-?\d+)\)\)?$', ln)
        if m:
            c = byid[int(m.group(3))]
            if m.group(2) is not None and int(m.group(2)) != (1 << c.dw) - 1:
                raise ShapeError('read mask %s is not 2^%d-1' % (m.group(2), c.dw))
            if int(m.group(5)) != dflt:
                raise ShapeError('read default %s is not default_value %d' % (m.group(5), dflt))
            events[c.k] += 'R'
            i += 1
            continue
        m = re.match(r'^    if (.+):$', ln)
        if m and i + 1 < len(lines):
            m2 = re.match(r'^        mem_ws\.append\(\("fs_mem(\d+)", (.+), (.+)\)\)$', lines[i + 1])
            if m2:
                events[byid[int(m2.group(1))].k] += 'W'
                i += 2
                continue
        if 'fs_mem' in ln or 'mem_ws' in ln:
            raise ShapeError('unmodelled statement touching a memory: %r' % ln)
        i += 1
    for c in cfgs:
        if events[c.k].count('R') != c.nr or events[c.k].count('W') != c.nw:
            raise ShapeError('memory %d: events %s, expected %d reads and %d guarded appends' % (c.k, events[c.k], c.nr, c.nw))
    import inspect
    step = _norm(inspect.getsource(pyrtl.FastSimulation.step))
    for needle in ('ins.update(self.mems)', 'self.regs, self.outs, mem_writes = self.sim_func(ins)',
                   'for mem, addr, value in mem_writes: self.mems[mem][addr] = value'):
        if needle not in step:
            raise ShapeError('FastSimulation.step no longer contains %r' % needle)
    if step.index('self.sim_func(ins)') > step.index('for mem, addr, value in mem_writes'):
        raise ShapeError('FastSimulation.step applies mem_writes before running sim_func')
    return events


def c_program_shape(sim, cfgs, inits, mems=None):
    """the emitted C: create_hash_map(256, limbs) + one insert per initial item; in sim_run_step every read is
    lookup(mem, addr[0])[n], every write is `if (en[0]) { insert(mem, addr[0], data); }`, all lookups precede all inserts"""
    import copy
    real = sim
    sim = copy.copy(real)             # regenerate the text on a copy: _create_code renames the C variables
    sim._dll = sim._dir = None        # the copy must not free the real library
    sim.varname = {}
    sim._uid_counter = 0
    lines = []
    sim._create_code(lines.append)
    text = '\n'.join(lines)
    if not re.search(r'int hash_code\(hashmap_t \*h, uint64_t key\)\s*\{\s*return key % h->size;\s*\}', text):
        raise ShapeError('hash_code is no longer key % h->size')
    ini = text[text.index('void initialize_mems() {'):text.index('static void sim_run_step')]
    body = text[text.index('static void sim_run_step'):]
    for c, init, m_in_block in zip(cfgs, inits, mems or [c.mem for c in cfgs]):
        vn = sim.varname[m_in_block]
        limbs = (c.dw + 63) // 64
        if '%s = create_hash_map(256, %d);' % (vn, limbs) not in ini:
            raise ShapeError('memory %d is not created as create_hash_map(256, %d)' % (c.k, limbs))
        keys = [int(x) for x in re.findall(r'insert\(%s, (\d+), t\d+\);' % vn, ini)]
        if keys != [a for a, _ in init]:
            raise ShapeError('initialize_mems inserts keys %s, memory_value_map has %s' % (keys, [a for a, _ in init]))
        rd = re.findall(r'^\w+\[(\d+)\] = lookup\(%s, \w+\[0\]\)\[(\d+)\](&0x[0-9A-F]+)?;$' % vn, body, flags=re.M)
        if len(rd) != c.nr * limbs or any(a != b for a, b, _ in rd) or any(m for _, _, m in rd):
            raise ShapeError('memory %d: read ports are not nr x limbs unmasked lookup(mem, addr[0])[n]' % c.k)
        wr = re.findall(r'^if \(\w+\[0\]\) \{\ninsert\(%s, \w+\[0\], \w+\);\n\}$' % vn, body, flags=re.M)
        if len(wr) != c.nw:
            raise ShapeError('memory %d: %d guarded insert()s, expected %d' % (c.k, len(wr), c.nw))
    if len(re.findall(r'\binsert\(', body)) != sum(c.nw for c in cfgs) or \
            len(re.findall(r'\blookup\(', body)) != sum(c.nr * ((c.dw + 63) // 64) for c in cfgs):
        raise ShapeError('unmodelled insert()/lookup() calls in sim_run_step')
    if 'insert(' in body and body.rfind('lookup(') > body.find('insert('):
        raise ShapeError('a lookup() is emitted after an insert(): read-after-write within the cycle')
    upd = re.search(r'^\w+\[\d+\] = regtmp\d+\[\d+\]', body, flags=re.M)
    if upd and 'insert(' in body and body.rfind('insert(') > upd.start():
        raise ShapeError('an insert() is emitted after the registers are updated: a port fed by a register would '
                         'see its next-cycle value')


# ------------------------------------------------------------------ Verilog memory fragment

class VerilogShapeError(Exception):
    pass


def verilog_memory_fragment(text, cfgs, mems):
    """parse declaration / writes / reads of every memory; raise VerilogShapeError when the text does not
    have the documented shape"""
    alias = dict(re.findall(r'^\s*assign\s+(\w+)\s*=\s*(\w+);', text, flags=re.M))
    frag = {}
    for c, m in zip(cfgs, mems):
        decl = re.search(r'^\s*reg(\[(\d+):0\])?\s+mem_%d(\[(\d+):0\])?;' % m.id, text, flags=re.M)
        if not decl:
            raise VerilogShapeError('no declaration of mem_%d' % m.id)
        dw = int(decl.group(2)) + 1 if decl.group(1) else 1
        size = int(decl.group(4)) + 1 if decl.group(3) else 1
        if dw != c.dw or size != (1 << c.aw):
            raise VerilogShapeError('mem_%d declared %d bits x %d words, expected %d x 2^%d' % (m.id, dw, size, c.dw, c.aw))
        blk = re.search(r'// Memory mem_%d: .*?\n(.*?)\n\s*\n' % m.id, text, flags=re.S)
        if not blk:
            raise VerilogShapeError('no memory block for mem_%d' % m.id)
        body = blk.group(1)
        writes = re.findall(r'if \((\w+)\) begin\s*\n\s*mem_%d\[(\w+)\] <= (\w+);\s*\n\s*end' % m.id, body)
        if len(writes) != c.nw or (c.nw and not re.search(r'always @\(posedge clk\)\s*\n\s*begin', body)):
            raise VerilogShapeError('mem_%d: %d enabled non-blocking writes under posedge clk, expected %d'
                                    % (m.id, len(writes), c.nw))
        if re.search(r'mem_%d\[\w+\]\s*=[^=]' % m.id, body.replace('<=', '')):
            raise VerilogShapeError('mem_%d: blocking assignment to the memory' % m.id)
        reads = re.findall(r'^\s*assign (\w+) = mem_%d\[(\w+)\];' % m.id, body, flags=re.M)
        if len(reads) != c.nr:
            raise VerilogShapeError('mem_%d: %d asynchronous read assigns, expected %d' % (m.id, len(reads), c.nr))
        frag[c.k] = (writes, reads)
    return alias, frag


VIMPORTS = 'From PyRTL Require Import Mem.MemDefs Mem.MemHarness Mem.MemVerilog.'


class VerilogJob(object):
    """one exported module to be run under IO/VerilogSem.v inside Coq (Mem/MemVerilog.v vlog_module_check)"""

    def __init__(self, text, cfgs, mems, inits, steps, spec_reads, spec_finals, spec_mids, probes, snap, info):
        import verilog_reader as vr
        self.info = info
        mod = vr.parse_module(text)              # fail closed: ReaderError
        names = [n for n, _ in mod.inputs + mod.outputs + mod.regs + mod.wires]
        idmap = {n: i + 1 for i, n in enumerate(names)}
        # evaluation-order HINT for the continuous assignments (Coq re-checks every equation: settledb)
        deps = {}
        for lhs, e in mod.assigns:
            acc = set()
            mod.idents_in(e, acc)
            deps[lhs] = acc
        for lhs, _, a in mod.memrds:
            deps[lhs] = {a}
        order, done = [], set()

        def visit(x, depth=0):
            if x in done or x not in deps or depth > 10000:
                return
            done.add(x)
            for y in sorted(deps[x]):
                visit(y, depth + 1)
            order.append(x)
        for x in sorted(deps):
            visit(x)
        widths_in = dict(mod.inputs)
        packed = []
        for s in steps:
            packed.append(pack([(s.get(n, 0), w) for n, w in mod.inputs]))
        # expected outputs: the read ports of every memory (array spec, default 0) and the pass-through bit
        exp = {}
        for c, rd in zip(cfgs, spec_reads):
            for j in range(c.nr):
                exp['m%d_o%d' % (c.k, j)] = [row[j] for row in rd]
        if 'alive_out' in dict(mod.outputs):
            exp['alive_out'] = [s.get('alive_in', 0) for s in steps]
        for n, _ in mod.outputs:
            if n not in exp:
                raise vr.ReaderError('output %s of the module is not a memory read port of the design' % n)
        exp_outs = [pack([(exp[n][t], w) for n, w in mod.outputs]) for t in range(len(steps))]
        self.outputs = list(mod.outputs)
        self.exp = exp
        pr, fin, mid = [], [], []
        for c, m, ps, sf, sm in zip(cfgs, mems, probes, spec_finals, spec_mids):
            for a in ps:
                pr.append((m.id, a))
                fin.append(sf.get(a, 0))
                mid.append(sm.get(a, 0))
        self.args = '%s %s [%s] %s' % (mod.coq(idmap), nlx.zlist([idmap[x] for x in order]),
                                       '; '.join('(%d, %s)' % (m.id, hpairs(i)) for m, i in zip(mems, inits)),
                                       hzlist(packed))
        self.probes = '[' + '; '.join('(%d, %s)' % (i, hz(a)) for i, a in pr) + ']'
        self.expr = 'vlog_module_check %s %s %s %s %d%%nat %s' % (self.args, hzlist(exp_outs), self.probes, hzlist(fin),
                                                                   snap, hzlist(mid))
        self.verbose = 'vlog_module_case %s %s' % (self.args, self.probes)
        self.fin, self.pr = fin, pr


def judge_verilog_jobs(ctx, jobs):
    """evaluate the queued modules in Coq; a disagreement is explained by the verbose run and reported with the
    concrete design, stimulus, cycle and output"""
    if not jobs:
        return
    out = ctx.coq_eval([j.expr for j in jobs], VIMPORTS, tag='c08vlog', shard=2, jobs=15)
    failed = []
    for job, flags in zip(jobs, out):
        flags = [bool(x) for x in flags]
        ctx.case(('verilog', job.expr), nontrivial=True)
        ctx.count('backend_cases', 'verilog (whole module under IO/VerilogSem.v)')
        if not flags[0]:
            ctx.model_mismatch('exported Verilog: the continuous assignments could not be settled with the dependency '
                               'order computed by the harness (combinational loop in the text?)', job.info)
        elif not all(flags[1:]):
            failed.append((job, flags))
    for (job, flags), v in zip(failed[:3], ctx.coq_eval([j.verbose for j, _ in failed[:3]], VIMPORTS, tag='c08vlogv',
                                                        shard=1, jobs=3) if failed else []):
        rows, fin = v
        what = 'memory contents during/after the run differ from the array (flags %s)' % (flags,)
        detail = {'final(memid, addr, got, expected)': [(i, a, g, e) for (i, a), g, e in zip(job.pr, fin, job.fin) if g != e][:5]}
        for t, (ok, vals) in enumerate(rows):
            bad = [(n, g, job.exp[n][t]) for (n, _), g in zip(job.outputs, vals) if g != job.exp[n][t]]
            if bad:
                what = 'output %s is %d at cycle %d, the array holds %d' % (bad[0][0], bad[0][1], t, bad[0][2])
                detail['cycle'] = t
                break
        ctx.spec_violation('verilog:exported-module-disagrees-with-array',
                           'exported Verilog under IO/VerilogSem.v: ' + what, dict(job.info, **detail))
    for job, flags in failed[3:]:
        ctx.spec_violation('verilog:exported-module-disagrees-with-array',
                           'exported Verilog under IO/VerilogSem.v disagrees with the array (flags %s)' % (flags,), job.info)


def queue_verilog(ctx, jobs, block, cfgs, mems, inits, hists, steps, probes, snap, info):
    """text-shape gate on the memory fragment + (when the C05 reader accepts the text) a job for the Coq run"""
    if len(steps) > 5000:
        # one literal per cycle: keep the list short enough for Coq's parser at the default stack size
        hists = [h[:5000] for h in hists]
        steps = steps[:5000]
        snap = min(snap, 2500)
    buf = io.StringIO()
    pyrtl.output_to_verilog(buf, block=block)
    text = buf.getvalue()
    try:
        verilog_memory_fragment(text, cfgs, mems)
        ctx.count('verilog_memory_fragment_shape', 'ok')
    except VerilogShapeError as e:
        ctx.spec_violation('verilog:memory-block-shape', 'exported Verilog memory fragment: %s' % e, info)
        return
    try:
        import verilog_reader as vr
    except Exception:
        ctx.count('verilog_reader(C05)', 'unavailable')
        return
    specs = [spec_run(i, 0, h) for i, h in zip(inits, hists)]
    mids = [spec_run(i, 0, h[:snap])[1] for i, h in zip(inits, hists)]
    try:
        jobs.append(VerilogJob(text, cfgs, mems, inits, steps, [s[0] for s in specs], [s[1] for s in specs], mids,
                               probes, snap, info))
        ctx.count('verilog_reader(C05)', 'module parsed, queued for IO/VerilogSem.v')
    except vr.ReaderError as e:
        # what that reader accepts (e.g. its 65536-bit limit on ranges: memories deeper than 2^16 words) is C05's subject
        ctx.count('verilog_reader(C05)', 'rejected the module: ' + str(e).split(':')[0][:50])


# ------------------------------------------------------------------ Coq expression helpers

def hz(v):
    """hexadecimal literal (Coq parses these ~4x faster than decimal)"""
    return hex(v) if v >= 0 else '(-%s)' % hex(-v)


def hzlist(vs):
    return '[' + '; '.join(hz(v) for v in vs) + ']'


def hpairs(ps):
    return '[' + '; '.join('(%s, %s)' % (hz(k), hz(v)) for k, v in ps) + ']'


def pack(fields):
    """fields = [(value, width)], first field in the lowest bits (MemHarness.dec_list / dec_writes)"""
    z, sh = 0, 0
    for v, w in fields:
        z |= v << sh
        sh += w
    return z


def pack_cycle(c, ws, rs):
    f = []
    for a, d, e in ws:
        f += [(a, c.aw), (d, c.dw), (e, 1)]
    f += [(a, c.aw) for a in rs]
    return pack(f)


def pack_hist(c, hist):
    return hzlist([pack_cycle(c, ws, rs) for ws, rs in hist])


def natlist(p):
    return '[' + '; '.join('%d%%nat' % i for i in p) + ']'


def ident(n):
    return list(range(n))


def enc_items(items):
    acc = 0
    for k, v in reversed(list(items)):
        acc = 1 + 2 * (k + 2 * (v + 2 * acc))
    return acc


def out_spec(nr, rd, a0, a1):
    return pack([(x, 1) for x in rd]) + (1 << nr) * (a0 + 2 * a1)


def out_items(nr, rd, items):
    return pack([(x, 1) for x in rd]) + (1 << nr) * enc_items(items)


# ------------------------------------------------------------------ comparison of one (memory, history)

def first_diff(a, b):
    for t, (x, y) in enumerate(zip(a, b)):
        if x != y:
            return t
    return None if len(a) == len(b) else min(len(a), len(b))


class _Capped(object):
    """forwards to ctx but reports each signature at most 3 times (the runner keeps 50 reports in total)"""

    def __init__(self, ctx):
        self._ctx = ctx
        self._n = {}

    def __getattr__(self, name):
        return getattr(self._ctx, name)

    def spec_violation(self, signature, what, replay):
        self._n[signature] = self._n.get(signature, 0) + 1
        self._ctx.count('spec_violation_signatures', signature)
        if self._n[signature] <= 3:
            self._ctx.spec_violation(signature, what, replay)

    def model_mismatch(self, what, replay):
        self._n[what[:40]] = self._n.get(what[:40], 0) + 1
        if self._n[what[:40]] <= 3:
            self._ctx.model_mismatch(what, replay)


class Checker(object):
    def __init__(self, ctx):
        self.ctx = ctx

    def alias_reads(self, cfg, init, hist, key):
        """what the spec would give if addresses were reduced by `key` (to recognise a known aliasing)"""
        h2 = [([(key(a), d, e) for a, d, e in ws], [key(a) for a in rs]) for ws, rs in hist]
        return spec_run([(key(a), v) for a, v in init], 0, h2)[0]

    def compare(self, cfg, backend, init, dflt, hist, spec_reads, spec_final, impl_reads, impl_final,
                probes, replay, final_kind, tie=None):
        """search: implementation vs the array specification (here, exactly, in Python).
        tie: (model reads == spec reads, model final == implementation final) as decided inside Coq;
        together with impl == spec this is impl == model.  Returns False when a violation was found."""
        ctx = self.ctx
        ctx.count('backend_cases', backend)
        t = first_diff(impl_reads, spec_reads)
        bad = False
        if t is not None:
            bad = True
            sig = '%s:read-port-disagrees-with-array' % backend
            if backend.startswith('compiled') and cfg.aw > 64 and \
                    impl_reads[:t + 1] == self.alias_reads(cfg, init, hist[:t + 1], lambda a: a & M64):
                sig = 'compiled:addr-wider-than-64-bits'
            ctx.spec_violation(sig, '%s: read ports return %s at cycle %d, the array holds %s (addrwidth %d, bitwidth %d)'
                               % (backend, impl_reads[t] if t < len(impl_reads) else None, t,
                                  spec_reads[t] if t < len(spec_reads) else None, cfg.aw, cfg.dw),
                               dict(replay, backend=backend, history=hist[:t + 1], cycle=t,
                                    expected=spec_reads[t] if t < len(spec_reads) else None,
                                    got=impl_reads[t] if t < len(impl_reads) else None))
        if final_kind == 'items':
            if len(set(k for k, _ in impl_final)) != len(impl_final):
                bad = True
                ctx.spec_violation('%s:inspect_mem-duplicate-keys' % backend, 'duplicate keys in inspect_mem', replay)
            got = dict(impl_final)
            want = spec_final
            if any(got.get(a, dflt) != want.get(a, dflt) for a in set(got) | set(want)):
                bad = True
                ctx.spec_violation('%s:final-contents-disagree-with-array' % backend,
                                   '%s: inspect_mem after the run is %s, the array holds %s' % (backend, got, want),
                                   dict(replay, backend=backend, history=hist, expected=want, got=got))
        else:
            for a, v in zip(probes, impl_final):
                w = spec_final.get(a, 0)
                if v != w:
                    bad = True
                    sig = 'compiled:inspect_mem-disagrees-with-array'
                    if isinstance(v, str):
                        sig = 'compiled:inspect_mem-index-over-64-bits-raises' if a > M64 else \
                            'compiled:inspect_mem-raises-non-pyrtl-error'
                    elif cfg.aw > 64:
                        sig = 'compiled:addr-wider-than-64-bits'
                    elif a >= (1 << 31):
                        a32 = a & 0xFFFFFFFF
                        sx = a32 if a32 < (1 << 31) else (a32 | (M64 ^ 0xFFFFFFFF))
                        if v == spec_final.get(sx, 0):
                            sig = 'compiled:inspect_mem-index-truncated-to-32-bits'
                    ctx.spec_violation(sig, 'CompiledSimulation.inspect_mem(mem)[%d] is %s, the array holds %d (addrwidth %d)'
                                       % (a, v, w, cfg.aw),
                                       dict(replay, backend=backend, history=hist, probe=a, expected=w, got=v))
        if tie is not None and not bad:
            reads_ok, final_ok = tie
            if not reads_ok:
                ctx.model_mismatch('%s agrees with the array but its Coq model does not (read-port values)' % backend,
                                   dict(replay, backend=backend, history=hist, got=impl_reads))
            elif final_ok is False:
                ctx.model_mismatch('%s: final contents differ from the Coq model (dict insertion order / hash-map lookups)' % backend,
                                   dict(replay, backend=backend, history=hist, got=impl_final))
        return not bad


# ------------------------------------------------------------------ part 2: random designs

BOUNDARY = [31, 32, 33, 63, 64, 65]


def pick_width(rng):
    r = rng.random()
    if r < 0.35:
        return rng.randint(1, 4)
    if r < 0.55:
        return rng.randint(5, 16)
    if r < 0.75:
        return rng.choice([31, 32, 33, 63, 64, 65, 66, 70])
    return rng.randint(1, 70)


def addr_pool(rng, aw):
    top = (1 << aw) - 1
    pool = {0, top, rng.getrandbits(aw), rng.getrandbits(aw)}
    for b in (31, 32, 63, 64):
        if aw > b:
            x = rng.getrandbits(min(b, 8))
            pool.update({x, x + (1 << b)})          # aliases modulo 2^b
            pool.add((1 << b) - 1)
    if aw <= 3:
        pool = set(range(1 << aw))
    pool = sorted(pool)
    rng.shuffle(pool)
    return pool[:8]


def data_value(rng, dw):
    r = rng.random()
    top = (1 << dw) - 1
    if r < 0.1:
        return top
    if r < 0.15:
        return 0
    if r < 0.3 and dw > 64:
        return rng.choice([1 << 64, (1 << 64) - 1, (1 << 64) + rng.getrandbits(8), top ^ M64]) & top
    return rng.getrandbits(dw)


def gen_history(rng, cfg, ncyc, pool, foreign=None):
    """EFFECTIVE history (what the ports present to the memory each cycle).
    foreign[t] = addresses that OTHER memories of the design have written in cycles < t: this memory then
    deliberately reads them (it must see its own word, not theirs) and writes them with different data.
    Operand sources (cfg.wk / cfg.rk) constrain it: a register-fed operand is 0 in cycle 0, a Const address is fixed,
    a Const-0 enable never writes, a Const-1 / implicit enable always does (at most one such port per memory)."""
    hist = []
    written = []
    always = [i for i in range(cfg.nw) if cfg.wk[i][2] in ('c1', 'implicit')]
    assert len(always) <= 1
    for t in range(ncyc):
        ws = [None] * cfg.nw
        used = set()
        for i in always + [i for i in range(cfg.nw) if i not in always]:
            ak, dk, ek, ac = cfg.wk[i]
            if cfg.tagged:
                a = (rng.getrandbits(cfg.aw - 2) if rng.random() < 0.3 else (rng.choice(pool) >> 2)) << 2 | i
            elif ak == 'const':
                a = ac
            elif ak == 'reg' and t == 0:
                a = 0
            elif foreign and foreign[t] and rng.random() < 0.35:
                a = rng.choice(foreign[t])
            else:
                a = rng.choice(pool) if rng.random() < 0.85 else rng.getrandbits(cfg.aw)
            d = 0 if (dk == 'reg' and t == 0) else data_value(rng, cfg.dw)
            if ek == 'c0' or (ek == 'reg' and t == 0):
                e = 0
            elif ek in ('c1', 'implicit'):
                e = 1
            else:
                e = 1 if rng.random() < 0.7 else 0
                if e and a in used:
                    e = 0               # a disabled port colliding with an enabled one
            if e:
                used.add(a)
                written.append(a)
            ws[i] = (a, d, e)
        rs = []
        for j in range(cfg.nr):
            r = rng.random()
            if cfg.rk[j] == 'reg' and t == 0:
                rs.append(0)
            elif foreign and foreign[t] and rng.random() < 0.45:
                rs.append(rng.choice(foreign[t]))            # written earlier in ANOTHER memory
            elif r < 0.35 and used:
                rs.append(rng.choice(sorted(used)))          # read-during-write
            elif r < 0.75 and written:
                rs.append(rng.choice(written))               # written earlier
            elif r < 0.9:
                rs.append(rng.choice(pool))
            else:
                rs.append(rng.getrandbits(cfg.aw))           # probably uninitialised
        hist.append((ws, rs))
    return hist


def draw_sources(rng, cfg, pool):
    """operand sources of every port: Input / Register used directly / Const"""
    wk, have_always = [], False
    for i in range(cfg.nw):
        ak = rng.choice(['in', 'in', 'in', 'reg', 'reg', 'const'])
        dk = rng.choice(['in', 'in', 'reg'])
        ek = rng.choice(['in', 'in', 'in', 'reg', 'reg', 'c0', 'c1', 'implicit'])
        if ek in ('c1', 'implicit'):
            if have_always:
                ek = 'c0'
            have_always = True
        wk.append((ak, dk, ek, rng.choice(pool) if ak == 'const' else 0))
    cfg.wk = wk
    cfg.rk = [rng.choice(['in', 'in', 'reg']) for _ in range(cfg.nr)]


def written_before(hists, ncyc):
    """per cycle t: sorted addresses written (enabled) by any of the given histories in cycles < t"""
    out, acc = [], set()
    for t in range(ncyc):
        out.append(sorted(acc))
        for h in hists:
            acc.update(a for a, _, e in h[t][0] if e)
    return out


def cross_reads(hists, mi):
    """reads by memory mi of an address another memory wrote earlier while mi itself has not written it yet"""
    n = 0
    own, others = set(), set()
    for t in range(len(hists[mi])):
        n += sum(1 for a in hists[mi][t][1] if a in others and a not in own)
        own.update(a for a, _, e in hists[mi][t][0] if e)
        for j, h in enumerate(hists):
            if j != mi:
                others.update(a for a, _, e in h[t][0] if e)
    return n


def nontrivial(hist):
    if hist and not hist[0][1]:
        return any(e for ws, _ in hist for _, _, e in ws)      # write-only memory: observed through inspect_mem
    seen = set()
    hit = False
    wrote = False
    for ws, rs in hist:
        if any(a in seen for a in rs):
            hit = True
        for a, d, e in ws:
            if e:
                seen.add(a)
                wrote = True
    return hit and wrote


def random_part(ctx, chk, ndesigns, ncyc_range, compiled_every, post_every, verilog_every):
    """in chunks, so that the traces of at most 100 designs x ~15 back-ends are alive at a time"""
    for lo in range(0, ndesigns, 100):
        _random_chunk(ctx, chk, range(lo, min(ndesigns, lo + 100)), ncyc_range, compiled_every, post_every, verilog_every)


def _random_chunk(ctx, chk, indices, ncyc_range, compiled_every, post_every, verilog_every):
    cases = []
    for di in indices:
        rng = ctx.sub_rng('design', di)
        cross = (di % 3 == 1)
        if cross:
            # cross-talk family: 2-3 memories over the SAME address space, at least two of them without a
            # memory_value_map entry and one with; every memory is driven onto the addresses the others wrote
            nm = rng.randint(2, 3) if di % 2 else 3
            aw = rng.choice([1, 2, 3, 8, 32, 33, 64]) if rng.random() < 0.7 else min(pick_width(rng), 64)
            cfgs = [MemCfg(k, aw, pick_width(rng) if rng.random() < 0.6 else 8, rng.randint(1, 2), rng.randint(1, 3))
                    for k in range(nm)]
            shared = addr_pool(rng, aw)[:5]
            pools = [shared] * nm
            with_init = rng.randrange(nm) if nm == 3 else None
        else:
            nm = rng.randint(1, 4)
            cfgs = []
            for k in range(nm):
                aw, dw = pick_width(rng), pick_width(rng)
                if di % 7 == 3 and k == 0:
                    aw = rng.choice([65, 66, 70])       # make sure wide addresses are visited on every run
                nw, nr = rng.randint(1, 3), rng.randint(1, 3)
                tagged = (3 <= aw <= 16) and rng.random() < 0.3
                cfgs.append(MemCfg(k, aw, dw, nw, nr, tagged))
            pools = [addr_pool(rng, c.aw) for c in cfgs]
        # MemBlock names: explicit and unique, auto-generated, or explicit names that REPEAT (a helper that names its
        # MemBlock, called twice) followed by further memories; memories are distinguished by object, never by name
        scheme = rng.choice(['unique', 'unique', 'auto', 'repeated']) if len(cfgs) > 1 else rng.choice(['unique', 'auto'])
        if cross and len(cfgs) == 3 and rng.random() < 0.6:
            scheme = 'repeated'
        if scheme == 'auto':
            for c in cfgs:
                c.name = ''
        elif scheme == 'repeated':
            base = rng.choice(['buf', 'fifo_mem', 'table'])
            for c in cfgs:
                c.name = base if c.k < 2 else rng.choice([base, 'log', 'mem%d' % c.k, ''])
        ctx.count('memblock_names', '%s (%d memories)' % (scheme, len(cfgs)))
        for c, pool in zip(cfgs, pools):
            if rng.random() < 0.15:
                c.nr, c.rk = 0, []       # a memory the design only writes (log buffer): observed through inspect_mem
            ctx.count('memory_observation', 'write-only: inspect_mem during and after the run' if c.nr == 0
                      else 'read ports + inspect_mem')
            if not c.tagged and rng.random() < 0.22:
                # the write port is described inside conditional_assignment: 1-3 branches on this memory, plain and
                # EnabledWrite values mixed
                c.nw, c.wk = 1, [('in', 'in', 'in', 0)]
                c.branches = [rng.random() < 0.6 for _ in range(rng.randint(1, 3))]
                ctx.count('write_construction', 'conditional_assignment: ' +
                          '+'.join('EnabledWrite' if b else 'plain' for b in c.branches))
            elif not c.tagged and rng.random() < (0.5 if not cross else 0.35):
                draw_sources(rng, c, pool)
            if not c.branches:
                ctx.count('write_construction', 'statements outside conditionals')
            for w in c.wk:
                ctx.count('write_port_sources(addr/data/enable)', '%s/%s/%s' % w[:3])
            for r in c.rk:
                ctx.count('read_port_address_source', r)
        # registers start at default_value, whose meaning differs once a register is split into bits: keep it 0 then
        dflt = 0 if (rng.random() < 0.7 or any(c.has_regs() for c in cfgs)) else 1
        ncyc = rng.randint(*ncyc_range)
        inits = []
        for c, pool in zip(cfgs, pools):
            init = {}
            n_init = rng.randint(0, 4)
            if cross:
                n_init = rng.randint(1, 3) if c.k == with_init else 0
            for a in pool[:n_init]:
                init[a] = data_value(rng, c.dw)
            inits.append(list(init.items()))
        if cross:
            hists = []
            for c in cfgs:
                hists.append(gen_history(rng, c, ncyc, shared, foreign=written_before(hists, ncyc) if hists else None))
            # the first memory was generated blind: regenerate it against the others
            hists[0] = gen_history(rng, cfgs[0], ncyc, shared, foreign=written_before(hists[1:], ncyc))
            ctx.count('cross_talk_designs', '%d memories, %d without memory_value_map entry' % (nm, sum(1 for i in inits if not i)))
            ctx.count('cross_talk_reads(address written earlier in another memory, not yet in this one)', 'total',
                      sum(cross_reads(hists, mi) for mi in range(nm)))
        else:
            hists = [gen_history(rng, c, ncyc, p) for c, p in zip(cfgs, pools)]
        steps = steps_of(cfgs, hists, ncyc)
        probes = []
        for c, pool, h, init in zip(cfgs, pools, hists, inits):
            touched = sorted({a for ws, _ in h for a, _, e in ws if e} | {a for a, _ in init})
            ps = touched[:10] + [a for a in pool if a not in touched][:3]
            probes.append(ps)
        cases.append(dict(di=di, cfgs=cfgs, dflt=dflt, ncyc=ncyc, inits=inits, hists=hists, steps=steps,
                          probes=probes, results={}, pass_empty=(not cross and di % 5 == 4)))
        for c in cfgs:
            ctx.count('addrwidth', c.aw if c.aw <= 8 else ('9-31' if c.aw < 32 else ('32-64' if c.aw <= 64 else '65-70')))
            ctx.count('bitwidth', c.dw if c.dw <= 8 else ('9-31' if c.dw < 32 else ('32-64' if c.dw <= 64 else '65-70')))
            ctx.count('ports(w,r)', '%d,%d' % (c.nw, c.nr))
            ctx.count('address_construction', 'concat(Input,Const tag)' if c.tagged else 'free Input')
        ctx.count('cycles', ncyc // 10 * 10)
    # ---- run the real back-ends
    vjobs = []
    for case in cases:
        cfgs, dflt, steps, inits = case['cfgs'], case['dflt'], case['steps'], case['inits']
        di = case['di']
        _PASS_EMPTY[0] = case['pass_empty']
        _SNAP[0] = case['ncyc'] // 2        # inspect_mem is also looked at DURING the run
        ctx.count('memories_without_initial_contents', 'explicit {}' if case['pass_empty'] else 'no memory_value_map entry',
                  sum(1 for i in inits if not i))
        try:
            _run_backends(ctx, case, vjobs, compiled_every, post_every, verilog_every)
        except Exception as e:
            # a simulator or pass raising on an API-built memory design is a finding with this design as input
            case['dead'] = True
            ctx.spec_violation('design:raises-%s' % type(e).__name__,
                               'a simulator or pass raised %s on an API-built MemBlock design: %s' % (type(e).__name__, str(e)[:200]),
                               {'seed': ctx.seed, 'tier': ctx.tier, 'design': di, 'memories': [c.desc() for c in cfgs],
                                'memory_value_maps': inits, 'default_value': dflt, 'histories': case['hists']})
    _PASS_EMPTY[0] = False
    _SNAP[0] = None
    cases = [case for case in cases if not case.get('dead')]
    judge_verilog_jobs(ctx, vjobs)
    _compare_chunk(ctx, chk, cases)


def _run_backends(ctx, case, vjobs, compiled_every, post_every, verilog_every):
    """every back-end on one design (results in case['results'])"""
    cfgs, dflt, steps, inits = case['cfgs'], case['dflt'], case['steps'], case['inits']
    di = case['di']
    if True:
        block = build_design(cfgs)
        mems = [c.mem for c in cfgs]
        res = case['results']
        res['sim'] = run_python_sim(pyrtl.Simulation, block, cfgs, mems, inits, dflt, steps)
        res['fast'] = run_python_sim(pyrtl.FastSimulation, block, cfgs, mems, inits, dflt, steps)
        # a simulator object is a fresh memory: further instances of each kind on the same design, in the same process,
        # after the others have run, must again start from the initial contents
        res['fast/2nd instance'] = run_python_sim(pyrtl.FastSimulation, block, cfgs, mems, inits, dflt, steps)[:2]
        res['sim/2nd instance'] = run_python_sim(pyrtl.Simulation, block, cfgs, mems, inits, dflt, steps)[:2]
        if dflt == 0 and di % compiled_every == 0:
            try:
                res['compiled'] = run_compiled(block, cfgs, mems, inits, steps, case['probes'])
                if di % (4 * compiled_every) == 0:
                    res['compiled/2nd instance'] = run_compiled(block, cfgs, mems, inits, steps, case['probes'])[:2]
                if any(c.aw > 64 for c in cfgs):
                    ctx.count('compiled_wide_address', 'accepted')
            except CompilerUnavailable:
                pass
            except PyrtlRejected as e:
                ctx.count('compiled_rejected_by_pyrtl', str(e)[:60])
                # sanctioned only for addresses wider than the 64-bit key of the C hash map: run the rest
                keep = [mi for mi, c in enumerate(cfgs) if c.aw <= 64]
                if len(keep) == len(cfgs):
                    ctx.spec_violation('compiled:rejects-api-built-memory-design',
                                       'CompiledSimulation rejected a MemBlock design with addrwidth <= 64: %s' % e,
                                       {'seed': ctx.seed, 'design': di, 'memories': [c.desc() for c in cfgs]})
                elif keep:
                    sub = [cfgs[mi] for mi in keep]
                    b3 = build_design(sub)
                    try:
                        r = run_compiled(b3, sub, [c.mem for c in sub], [inits[mi] for mi in keep],
                                         steps_of(sub, [case['hists'][mi] for mi in keep], case['ncyc']),
                                         [case['probes'][mi] for mi in keep])
                        full = ([None] * len(cfgs), [None] * len(cfgs), [None] * len(cfgs))
                        for j, mi in enumerate(keep):
                            for q in range(3):
                                full[q][mi] = r[q][j]
                        res['compiled'] = full
                    except PyrtlRejected as e2:
                        ctx.spec_violation('compiled:rejects-api-built-memory-design',
                                           'CompiledSimulation rejected a MemBlock design with addrwidth <= 64: %s' % e2,
                                           {'seed': ctx.seed, 'design': di, 'memories': [c.desc() for c in sub]})
                    for c, m in zip(cfgs, mems):
                        c.mem = m
        if di % verilog_every == 0 or all(c.aw <= 16 for c in cfgs):
            queue_verilog(ctx, vjobs, block, cfgs, mems, inits, case['hists'], steps, case['probes'], case['ncyc'] // 2,
                          {'seed': ctx.seed, 'tier': ctx.tier, 'design': di, 'memories': [c.desc() for c in cfgs],
                           'memory_value_maps': inits, 'histories': case['hists']})
        if di % post_every == 0:
            info = {'seed': ctx.seed, 'tier': ctx.tier, 'design': di, 'memories': [c.desc() for c in cfgs],
                    'memory_value_maps': inits, 'default_value': dflt, 'histories': case['hists']}
            with_c = dflt == 0 and di % (2 * post_every) == 0 and all(c.aw <= 64 for c in cfgs)

            def compiled_on(blk, in_block_mems):
                try:
                    return run_compiled(blk, cfgs, in_block_mems, inits, steps, case['probes'])
                except CompilerUnavailable:
                    return None
                except PyrtlRejected as e:
                    raise RuntimeError('CompiledSimulation rejected the transformed design: %s' % e)
            post = guarded(ctx, 'synthesize', info, lambda: pyrtl.synthesize(update_working_block=False, block=block))
            if post is not None:
                pm = post_mems(ctx, post, mems, 'synthesize')
                inb = [m_in for _, m_in in pm]
                res['synth'] = guarded(ctx, 'synth', info, lambda: run_post(ctx, pyrtl.Simulation, post, cfgs, pm, inits, dflt, steps, 'synthesize'))
                res['synth/fast'] = guarded(ctx, 'synth/fast', info, lambda: run_post(ctx, pyrtl.FastSimulation, post, cfgs, pm, inits, dflt, steps, 'synthesize'))
                if guarded(ctx, 'optimize(synthesized)', info, lambda: pyrtl.optimize(update_working_block=True, block=post) or True):
                    res['synth+opt'] = guarded(ctx, 'synth+opt', info, lambda: run_post(ctx, pyrtl.Simulation, post, cfgs, pm, inits, dflt, steps, 'optimize'))
                    if di % (2 * post_every) == 0:
                        res['synth+opt/fast'] = guarded(ctx, 'synth+opt/fast', info, lambda: run_post(ctx, pyrtl.FastSimulation, post, cfgs, pm, inits, dflt, steps, 'optimize'))
                    if with_c:
                        res['synth+opt/compiled'] = guarded(ctx, 'synth+opt/compiled', info, lambda: compiled_on(post, inb))
            if di % (2 * post_every) != 0:
                try:
                    res['synth/1-bit-io'] = guarded(ctx, 'synth/1-bit-io', info, lambda: run_post_bitio(ctx, block, cfgs, mems, inits, dflt, steps))
                except pyrtl.PyrtlError as e:
                    ctx.spec_violation('synthesize:merge_io_vectors=False-rejects-memory-design',
                                       'synthesize(merge_io_vectors=False) or simulating its result raised on a MemBlock design: %s' % e,
                                       {'seed': ctx.seed, 'design': di, 'memories': [c.desc() for c in cfgs]})
            # optimize() alone on the word-level design
            b2 = build_design(cfgs)
            mems2 = [c.mem for c in cfgs]
            if guarded(ctx, 'optimize', info, lambda: pyrtl.optimize(update_working_block=True, block=b2) or True):
                res['opt'] = guarded(ctx, 'opt', info, lambda: run_python_sim(pyrtl.Simulation, b2, cfgs, mems2, inits, dflt, steps))
                res['opt/fast'] = guarded(ctx, 'opt/fast', info, lambda: run_python_sim(pyrtl.FastSimulation, b2, cfgs, mems2, inits, dflt, steps))
                if with_c:
                    res['opt/compiled'] = guarded(ctx, 'opt/compiled', info, lambda: compiled_on(b2, mems2))
            for c, m in zip(cfgs, mems):
                c.mem = m
        for name in [n for n, r in res.items() if r is None]:
            del res[name]


def _compare_chunk(ctx, chk, cases):
    # ---- Coq: the array spec and the three models decide, inside Coq, whether they agree with what
    #      the implementation produced (compact protocol, see Mem/MemHarness.v mem_check)
    exprs = []
    for case in cases:
        res = case['results']
        case['py'] = []
        for mi, c in enumerate(case['cfgs']):
            init, hist, dflt, probes = case['inits'][mi], case['hists'][mi], case['dflt'], case['probes'][mi]
            p_sim = res['sim'][2][mi]
            p_fast = res['fast'][2][mi]
            has_comp = 'compiled' in res and res['compiled'][0][mi] is not None
            p_comp = res['compiled'][2][mi] if has_comp else ident(c.nw)
            if any(sorted(p) != ident(c.nw) for p in (p_sim, p_fast, p_comp)):
                ctx.model_mismatch('cannot identify the order in which a simulator visits the write ports (%r %r %r)'
                                   % (p_sim, p_fast, p_comp), {'design': case['di'], 'memory': c.desc()})
                p_sim = p_fast = p_comp = ident(c.nw)
            py_reads, py_final = spec_run(init, dflt, hist)
            case['py'].append((py_reads, py_final))
            comp_probes = [v if isinstance(v, int) else -1 for v in res['compiled'][1][mi]] if has_comp else []
            case.setdefault('args', []).append((p_sim, p_fast, p_comp))
            exprs.append('mem_check %d %d %d %d%%nat %d%%nat %s %s %s %s %s %s %s %s %s %s %s' % (
                dflt, c.aw, c.dw, c.nw, c.nr, hpairs(init), pack_hist(c, hist),
                hzlist([pack([(v, c.dw) for v in row]) for row in py_reads]),
                hzlist(probes), hzlist([py_final.get(a, dflt) for a in probes]),
                hpairs(res['sim'][1][mi]), hpairs(res['fast'][1][mi]), hzlist(comp_probes),
                natlist(p_sim), natlist(p_fast), natlist(p_comp)))
    out = ctx.coq_eval(exprs, IMPORTS, tag='c08rand', shard=8, jobs=15)
    k = 0
    details = []
    for case in cases:
        res = case['results']
        for mi, c in enumerate(case['cfgs']):
            flags = [bool(x) for x in out[k]]
            k += 1
            (okb, same, spec_r, spec_f, sim_r, sim_d, fast_r, fast_d, comp_r, comp_f) = flags
            init, hist, dflt, probes = case['inits'][mi], case['hists'][mi], case['dflt'], case['probes'][mi]
            py_reads, py_final = case['py'][mi]
            replay = {'seed': ctx.seed, 'tier': ctx.tier, 'design': case['di'], 'memory': c.desc(),
                      'memory_value_map': init, 'default_value': dflt}
            if not (okb and same and spec_r and spec_f):
                ctx.model_mismatch('Coq array spec / hist_reads / Python array spec disagree, or the history has '
                                   'colliding enabled writes (flags %s)' % (flags[:4],), dict(replay, history=hist))
                continue
            nt = nontrivial(hist)
            for backend in sorted(res):
                r = res[backend]
                if r[0][mi] is None:
                    continue
                mids = getattr(r, 'mids', None)
                if mids is not None and mids[mi] is not None:
                    # inspect_mem DURING the run: the array after the first `snap` cycles
                    snap = case['ncyc'] // 2
                    want = spec_run(init, dflt, hist[:snap])[1]
                    if 'compiled' in backend:
                        bad_mid = [(a, v, want.get(a, 0)) for a, v in zip(probes, mids[mi]) if v != want.get(a, 0)]
                    else:
                        got = dict(mids[mi])
                        bad_mid = [(a, got.get(a, dflt), want.get(a, dflt)) for a in sorted(set(got) | set(want))
                                   if got.get(a, dflt) != want.get(a, dflt)]
                    if bad_mid:
                        ctx.spec_violation('%s:inspect_mem-during-run-disagrees-with-array' % backend,
                                           '%s: inspect_mem after %d cycles holds %s at address %d, the array holds %s'
                                           % (backend, snap, bad_mid[0][1], bad_mid[0][0], bad_mid[0][2]),
                                           dict(replay, backend=backend, history=hist[:snap], address=bad_mid[0][0],
                                                expected=bad_mid[0][2], got=bad_mid[0][1]))
                if backend != 'compiled' and 'compiled' in backend:
                    chk.compare(c, backend, init, 0, hist, py_reads, py_final, r[0][mi], r[1][mi], probes, replay, 'probes')
                elif backend == 'compiled':
                    ok = chk.compare(c, backend, init, 0, hist, py_reads, py_final, r[0][mi], r[1][mi], probes, replay,
                                     'probes', tie=(comp_r, comp_f))
                    if not ok and c.aw > 64 and len(details) < 3:
                        details.append((case, mi))
                else:
                    tie = {'sim': (sim_r, sim_d), 'fast': (fast_r, fast_d)}.get(backend, (sim_r, None))
                    chk.compare(c, backend, init, dflt, hist, py_reads, py_final, r[0][mi], r[1][mi], probes, replay,
                                'items', tie=tie)
                sample = None
                if case['di'] == 0 and mi == 0 and backend in ('sim', 'compiled'):
                    sample = dict(replay, backend=backend, history_first_cycles=hist[:2], reads_first_cycles=r[0][mi][:2])
                ctx.case(('rand', backend, c.aw, c.dw, repr(init), repr(hist)), nontrivial=nt, sample=sample)
    # the faithful hash-map model (key = low limb of the address) reproduces the wide-address behaviour
    if details:
        exprs = []
        for case, mi in details:
            c = case['cfgs'][mi]
            p_sim, p_fast, p_comp = case['args'][mi]
            exprs.append('mem_case_packed %d %d %d %d%%nat %d%%nat %s %s %s %s %s %s' % (
                case['dflt'], c.aw, c.dw, c.nw, c.nr, hpairs(case['inits'][mi]), pack_hist(c, case['hists'][mi]),
                natlist(p_sim), natlist(p_fast), natlist(p_comp), hzlist(case['probes'][mi])))
        for (case, mi), v in zip(details, ctx.coq_eval(exprs, IMPORTS, tag='c08detail', shard=1, jobs=3)):
            r3 = unpack_case(v)[5][0]
            impl = case['results']['compiled'][0][mi]
            if impl == r3:
                ctx.count('wide-address behaviour reproduced exactly by the Coq hash-map model', 'yes')
            else:
                ctx.model_mismatch('CompiledSimulation with addrwidth > 64: the Coq hash-map model (key = addr mod 2^64) '
                                   'does not reproduce the implementation', {'design': case['di'], 'model': r3, 'got': impl})


def unpack_case(v):
    """Coq prints left-nested pairs flat: (okb, same, spec, sim, fast, comp)"""
    okb, same, spec, m1, m2, m3 = v
    return okb, same, (listify(spec[0]), list(spec[1])), (listify(m1[0]), [tuple(p) for p in m1[1]]), \
        (listify(m2[0]), [tuple(p) for p in m2[1]]), (listify(m3[0]), list(m3[1]))


def listify(x):
    return [list(r) for r in x]


# ------------------------------------------------------------------ part 1: the 2-word x 1-bit memory

WP01 = [(a, d, e) for a in (0, 1) for d in (0, 1) for e in (0, 1)]


def ok_ops(nw, nr):
    ops = []
    for ws in itertools.product(WP01, repeat=nw):
        for rs in itertools.product((0, 1), repeat=nr):
            en = [a for a, d, e in ws if e]
            if len(set(en)) == len(en):
                ops.append((list(ws), list(rs)))
    return ops


CONTENTS = [[(a, v) for a, v in ((0, x), (1, y)) if v is not None]
            for x in (None, 0, 1) for y in (None, 0, 1)] + [[(1, 1), (0, 0)]]


def de_bruijn(k, n):
    a = [0] * k * n
    seq = []

    def db(t, p):
        if t > n:
            if n % p == 0:
                seq.extend(a[1:p + 1])
        else:
            a[t] = a[t - p]
            db(t + 1, p)
            for j in range(a[t - p] + 1, k):
                a[t] = j
                db(t + 1, t)
    db(1, 1)
    return seq + seq[:n - 1]


def tiny_backends(ctx, cfg, with_post):
    """constructors of resettable one-memory simulators for the tiny memory"""
    block = build_design([cfg])
    mem = cfg.mem
    out = {'block': block, 'mem': mem}
    if with_post:
        post = pyrtl.synthesize(update_working_block=False, block=block)
        out['synth'] = (post, post_mems(ctx, post, [mem], 'synthesize'))
        post2 = pyrtl.synthesize(update_working_block=False, block=block)
        pm2 = post_mems(ctx, post2, [mem], 'synthesize')
        pyrtl.optimize(update_working_block=True, block=post2)
        out['synth+opt'] = (post2, pm2)
    return out


def sweep_part(ctx, chk, configs, dflts):
    """every content x every operation tuple, one step each"""
    exprs, meta = [], []
    for (nw, nr) in configs:
        cfg = MemCfg(0, 1, 1, nw, nr)
        ops = ok_ops(nw, nr)
        be = tiny_backends(ctx, cfg, True)
        block, mem = be['block'], be['mem']
        steps_all = steps_of([cfg] * 1, [ops], len(ops))
        for dflt in dflts:
            for content in CONTENTS:
                results = {}
                # python simulators: one instance per content, memory reset through the live dict of inspect_mem
                for name, cls, blk, key, inblock in (
                        ('sim', pyrtl.Simulation, block, mem, mem),
                        ('fast', pyrtl.FastSimulation, block, mem, mem),
                        ('synth', pyrtl.Simulation, be['synth'][0], be['synth'][1][0][0], be['synth'][1][0][1]),
                        ('synth+opt', pyrtl.Simulation, be['synth+opt'][0], be['synth+opt'][1][0][0], be['synth+opt'][1][0][1])):
                    sim = cls(tracer=pyrtl.SimulationTrace(block=blk), **mvm_kw([key], [content]),
                              default_value=dflt, block=blk)
                    if name == 'sim':
                        order = port_order(list(sim.mem_update_nets), 0)
                    elif name == 'fast':
                        order = port_order([n for n in blk if n.op == '@'], 0)
                    else:
                        order = None
                    live = sim.inspect_mem(inblock)
                    rows = []
                    for t, s in enumerate(steps_all):
                        live.clear()
                        for a, v in content:
                            live[a] = v
                        sim.step(dict(s))
                        rows.append(([sim.tracer.trace['m0_o%d' % j][-1] for j in range(nr)], list(live.items())))
                    results[name] = (rows, order)
                if dflt == 0:
                    try:
                        sim = make_compiled(block, mvm_kw([mem], [content]))
                        order = port_order(list(block.logic_subset('@')), 0)
                        rows = []
                        for t, s in enumerate(steps_all):
                            sim._initialize_mems()          # re-runs the emitted initialize_mems(): fresh maps + initial inserts
                            sim.step(dict(s))
                            insp = sim.inspect_mem(mem)
                            rows.append(([sim.tracer.trace['m0_o%d' % j][-1] for j in range(nr)], [insp[0], insp[1]]))
                        results['compiled'] = (rows, order)
                    except (pyrtl.PyrtlError, PyrtlRejected) as e:
                        ctx.count('compiled_rejected_by_pyrtl', str(e)[:60])
                p_sim, p_fast = results['sim'][1], results['fast'][1]
                p_comp = results['compiled'][1] if 'compiled' in results else ident(nw)
                specs = [spec_run(content, dflt, [op]) for op in ops]
                exp = [out_spec(nr, rd[0], fin.get(0, dflt), fin.get(1, dflt)) for rd, fin in specs]
                simc = [out_items(nr, rd, items) for rd, items in results['sim'][0]]
                fastc = [out_items(nr, rd, items) for rd, items in results['fast'][0]]
                compc = [out_spec(nr, rd, f[0], f[1]) for rd, f in results['compiled'][0]] if 'compiled' in results else []
                exprs.append('sweep_check %d %s %d%%nat %d%%nat %s %s %s %s %s %s %s' % (
                    dflt, hpairs(content), nw, nr, natlist(p_sim), natlist(p_fast), natlist(p_comp),
                    hzlist(exp), hzlist(simc), hzlist(fastc), hzlist(compc)))
                meta.append((cfg, ops, dflt, content, results, specs))
                ctx.count('sweep_contents', '%dw%dr' % (nw, nr))
    out = ctx.coq_eval(exprs, IMPORTS, tag='c08sweep', shard=6, jobs=15)
    for (cfg, ops, dflt, content, results, specs), flags in zip(meta, out):
        flags = [bool(x) for x in flags]
        replay = {'tier': ctx.tier, 'memory': cfg.desc(), 'memory_value_map': content, 'default_value': dflt}
        if not (flags[0] and flags[1]):
            ctx.model_mismatch('sweep: Coq ok_ops/array spec and the Python enumeration/array spec disagree (flags %s)' % flags,
                               replay)
            continue
        if not flags[5]:
            ctx.model_mismatch('sweep: a Coq concrete model disagrees with the Coq array spec on some operation', replay)
        all_ok = {}
        for t, (op, (py_reads, py_final)) in enumerate(zip(ops, specs)):
            for backend, (impl_rows, _) in results.items():
                ir, ifin = impl_rows[t]
                ok = chk.compare(cfg, backend, content, 0 if backend == 'compiled' else dflt, [op], py_reads, py_final,
                                 [ir], ifin, [0, 1], replay, 'probes' if backend == 'compiled' else 'items')
                all_ok[backend] = all_ok.get(backend, True) and ok
                ctx.case(('sweep', backend, cfg.nw, cfg.nr, dflt, repr(content), repr(op)),
                         nontrivial=any(e for _, _, e in op[0]) or bool(content),
                         sample=dict(replay, backend=backend, op=op, reads=ir, after=ifin)
                         if (t == 5 and backend == 'sim' and content == [(0, 1)] and dflt == 0 and cfg.nw == 1 and cfg.nr == 1) else None)
        for backend, fl in (('sim', flags[2]), ('fast', flags[3]), ('compiled', flags[4])):
            if backend in results and all_ok.get(backend) and not fl:
                ctx.model_mismatch('sweep: %s and its Coq model differ on some operation (reads or resulting contents, '
                                   'dict order included)' % backend, dict(replay, backend=backend))


def walk_part(ctx, chk, walks):
    """De Bruijn walks: every sequence of `order` consecutive operation tuples"""
    exprs, meta, vjobs = [], [], []
    for walk in walks:
        (nw, nr, order, inits, dflts), opt = walk[:5], (walk[5] if len(walk) > 5 else {})
        # opt: operand sources of the ports ('wk', 'rk'), the sub-alphabet of operations they can present ('pred')
        cfg = MemCfg(0, 1, 1, nw, nr, wk=opt.get('wk'), rk=opt.get('rk'), branches=opt.get('branches'))
        cfg.label = opt.get('label', 'inputs')
        ops = ok_ops(nw, nr)
        alphabet = [i for i, op in enumerate(ops) if opt.get('pred', lambda op: True)(op)]
        codes = [alphabet[x] for x in de_bruijn(len(alphabet), order)]
        hist = [ops[i] for i in codes]
        steps = steps_of([cfg], [hist], len(hist))
        be = tiny_backends(ctx, cfg, True)
        block, mem = be['block'], be['mem']
        _SNAP[0] = len(hist) // 2
        for dflt in dflts:
            for content in inits:
                res = {}
                res['sim'] = run_python_sim(pyrtl.Simulation, block, [cfg], [mem], [content], dflt, steps)
                res['fast'] = run_python_sim(pyrtl.FastSimulation, block, [cfg], [mem], [content], dflt, steps)
                if content == inits[0]:
                    res['fast/2nd instance'] = run_python_sim(pyrtl.FastSimulation, block, [cfg], [mem], [content], dflt, steps)[:2]
                    res['sim/2nd instance'] = run_python_sim(pyrtl.Simulation, block, [cfg], [mem], [content], dflt, steps)[:2]
                if dflt == 0:
                    try:
                        res['compiled'] = run_compiled(block, [cfg], [mem], [content], steps, [[0, 1]])
                    except PyrtlRejected as e:
                        ctx.count('compiled_rejected_by_pyrtl', str(e)[:60])
                info = {'tier': ctx.tier, 'memory': cfg.desc(), 'memory_value_map': content, 'default_value': dflt,
                        'history': hist[:64], 'walk': cfg.label}
                for name in ('synth', 'synth+opt'):
                    post, pm = be[name]
                    res[name] = guarded(ctx, name, info, lambda: run_post(ctx, pyrtl.Simulation, post, [cfg], pm, [content],
                                                                          dflt, steps, name))
                    res[name + '/fast'] = guarded(ctx, name + '/fast', info, lambda: run_post(
                        ctx, pyrtl.FastSimulation, post, [cfg], pm, [content], dflt, steps, name))
                    if dflt == 0 and name == 'synth+opt' and content == inits[0]:
                        def comp():
                            try:
                                return run_compiled(post, [cfg], [pm[0][1]], [content], steps, [[0, 1]])
                            except CompilerUnavailable:
                                return None
                            except PyrtlRejected as e:
                                raise RuntimeError('CompiledSimulation rejected the transformed design: %s' % e)
                        res[name + '/compiled'] = guarded(ctx, name + '/compiled', info, comp)
                for name in [n for n, r in res.items() if r is None]:
                    del res[name]
                if dflt == 0 and content == inits[0]:
                    queue_verilog(ctx, vjobs, block, [cfg], [mem], [content], [hist], steps, [[0, 1]], len(hist) // 2, info)
                p_comp = res['compiled'][2][0] if 'compiled' in res else ident(nw)
                py_reads, py_final = spec_run(content, dflt, hist)
                bits = max(1, (len(ops) - 1).bit_length())
                pcodes = [pack([(x, bits) for x in codes[q:q + 16]]) for q in range(0, len(codes), 16)]
                rcodes = [pack([(x, 1) for x in rd]) for rd in py_reads]
                pexp = [pack([(x, nr) for x in rcodes[q:q + 32]]) for q in range(0, len(rcodes), 32)]
                exprs.append('walk_check %d %s %d%%nat %d%%nat %d 16%%nat %d%%nat %s %s %s %s %s' % (
                    dflt, hpairs(content), nw, nr, bits, len(codes), hzlist(pcodes), hzlist(pexp),
                    natlist(res['sim'][2][0]), natlist(res['fast'][2][0]), natlist(p_comp)))
                meta.append((cfg, hist, dflt, content, res, order, py_reads, py_final))
                ctx.count('walk_cycles', '%dw%dr order %d, port operands: %s' % (nw, nr, order, cfg.label), len(hist))
    _SNAP[0] = None
    judge_verilog_jobs(ctx, vjobs)
    out = ctx.coq_eval(exprs, IMPORTS, tag='c08walk', shard=1, jobs=15)
    for (cfg, hist, dflt, content, res, order, py_reads, py_final), v in zip(meta, out):
        flags, finals = [bool(x) for x in v[0]], v[1]
        sfinal = list(finals[0])
        d1, d2, f3 = [tuple(p) for p in finals[1]], [tuple(p) for p in finals[2]], list(finals[3])
        replay = {'tier': ctx.tier, 'memory': cfg.desc(), 'memory_value_map': content, 'default_value': dflt,
                  'walk': 'de Bruijn order %d over the operation tuples the ports can present (%s)' % (order, cfg.label)}
        if not (flags[0] and flags[1] and flags[2]) or [py_final.get(a, dflt) for a in (0, 1)] != sfinal:
            ctx.model_mismatch('walk: Coq array spec and Python array spec disagree (flags %s)' % flags, replay)
            continue
        for backend, r in sorted(res.items()):
            mids = getattr(r, 'mids', None)
            if mids is not None:
                want = spec_run(content, dflt, hist[:len(hist) // 2])[1]
                got = list(mids[0]) if 'compiled' in backend else [dict(mids[0]).get(a, dflt) for a in (0, 1)]
                exp = [want.get(a, 0 if 'compiled' in backend else dflt) for a in (0, 1)]
                if got != exp:
                    ctx.spec_violation('%s:inspect_mem-during-run-disagrees-with-array' % backend,
                                       '%s: inspect_mem after %d cycles holds %s at addresses 0,1; the array holds %s'
                                       % (backend, len(hist) // 2, got, exp),
                                       dict(replay, backend=backend, history=hist[:len(hist) // 2], expected=exp, got=got))
            if backend == 'compiled':
                chk.compare(cfg, backend, content, 0, hist, py_reads, py_final, r[0][0], r[1][0], [0, 1], replay, 'probes',
                            tie=(flags[5], list(r[1][0]) == f3))
            elif 'compiled' in backend:
                chk.compare(cfg, backend, content, 0, hist, py_reads, py_final, r[0][0], r[1][0], [0, 1], replay, 'probes')
            else:
                mfinal = {'sim': d1, 'fast': d2}.get(backend)
                fl = {'sim': flags[3], 'fast': flags[4]}.get(backend, flags[3])
                chk.compare(cfg, backend, content, dflt, hist, py_reads, py_final, r[0][0], r[1][0], [0, 1], replay, 'items',
                            tie=(fl, None if mfinal is None else [tuple(x) for x in r[1][0]] == mfinal))
            # one case per window of `order` consecutive operations (primary back-ends; one per walk for the others)
            for t in (range(len(hist) - order + 1) if backend in PRIMARY else (0,)):
                ctx.case(('walk', backend, cfg.nw, cfg.nr, cfg.label, order, dflt, len(content), t), nontrivial=True,
                         sample=dict(replay, backend=backend, window_of_operations=hist[t:t + order],
                                     reads=r[0][0][t:t + order])
                         if (t == 100 and backend == 'compiled' and cfg.nw == 1 and not content) else None)


def build_twin():
    """two 2-word x 1-bit memories driven by ONE write-address input and ONE read-address input (separate data
    and enables): a word written to address k of one must never show up at address k of the other"""
    pyrtl.reset_working_block()
    cfgs = [MemCfg(0, 1, 1, 1, 1), MemCfg(1, 1, 1, 1, 1)]
    wa, ra = pyrtl.Input(1, 'wa'), pyrtl.Input(1, 'ra')
    for c in cfgs:
        m = pyrtl.MemBlock(bitwidth=1, addrwidth=1, name='mem%d' % c.k, max_read_ports=None, max_write_ports=None,
                           asynchronous=True)
        c.mem = m
        m[wa] <<= pyrtl.MemBlock.EnabledWrite(pyrtl.Input(1, 'm%d_wd0' % c.k), pyrtl.Input(1, 'm%d_we0' % c.k))
        o = pyrtl.Output(1, 'm%d_o0' % c.k)
        o <<= m[ra]
    return pyrtl.working_block(), cfgs


def twin_part(ctx, chk, order, init_pairs, dflts):
    """De Bruijn walk over all 64 joint operations (wa, ra, dataA, enA, dataB, enB) of the twin design; each memory
    is compared with its OWN array and its own Coq models (walk_check on its projected history)"""
    joint = [(a, r, d0, e0, d1, e1) for a in (0, 1) for r in (0, 1) for d0 in (0, 1) for e0 in (0, 1)
             for d1 in (0, 1) for e1 in (0, 1)]
    seq = [joint[i] for i in de_bruijn(len(joint), order)]
    hists = [[([(a, (d0, d1)[k], (e0, e1)[k])], [r]) for (a, r, d0, e0, d1, e1) in seq] for k in (0, 1)]
    steps = [{'wa': a, 'ra': r, 'm0_wd0': d0, 'm0_we0': e0, 'm1_wd0': d1, 'm1_we0': e1} for (a, r, d0, e0, d1, e1) in seq]
    ops11 = ok_ops(1, 1)
    index11 = {repr(op): i for i, op in enumerate(ops11)}
    exprs, meta, vjobs = [], [], []
    for dflt in dflts:
        for inits in init_pairs:
            block, cfgs = build_twin()
            mems = [c.mem for c in cfgs]
            res = {}
            res['sim'] = run_python_sim(pyrtl.Simulation, block, cfgs, mems, inits, dflt, steps)
            res['fast'] = run_python_sim(pyrtl.FastSimulation, block, cfgs, mems, inits, dflt, steps)
            res['fast/2nd instance'] = run_python_sim(pyrtl.FastSimulation, block, cfgs, mems, inits, dflt, steps)[:2]
            res['sim/2nd instance'] = run_python_sim(pyrtl.Simulation, block, cfgs, mems, inits, dflt, steps)[:2]
            if dflt == 0:
                try:
                    res['compiled'] = run_compiled(block, cfgs, mems, inits, steps, [[0, 1], [0, 1]])
                except PyrtlRejected as e:
                    ctx.count('compiled_rejected_by_pyrtl', str(e)[:60])
            post = pyrtl.synthesize(update_working_block=False, block=block)
            pm = post_mems(ctx, post, mems, 'synthesize')
            res['synth'] = run_post(ctx, pyrtl.Simulation, post, cfgs, pm, inits, dflt, steps, 'synthesize')
            pyrtl.optimize(update_working_block=True, block=post)
            res['synth+opt'] = run_post(ctx, pyrtl.Simulation, post, cfgs, pm, inits, dflt, steps, 'optimize')
            if dflt == 0:
                queue_verilog(ctx, vjobs, block, cfgs, mems, inits, hists, steps, [[0, 1], [0, 1]], len(seq) // 2,
                              {'tier': ctx.tier, 'design': 'twin', 'memory_value_maps': inits})
            for k in (0, 1):
                hist = hists[k]
                py_reads, py_final = spec_run(inits[k], dflt, hist)
                codes = [index11[repr(([tuple(w) for w in op[0]], list(op[1])))] for op in hist]
                pcodes = [pack([(x, 4) for x in codes[q:q + 16]]) for q in range(0, len(codes), 16)]
                rcodes = [rd[0] for rd in py_reads]
                pexp = [pack([(x, 1) for x in rcodes[q:q + 32]]) for q in range(0, len(rcodes), 32)]
                exprs.append('walk_check %d %s 1%%nat 1%%nat 4 16%%nat %d%%nat %s %s [0%%nat] [0%%nat] [0%%nat]' % (
                    dflt, hpairs(inits[k]), len(codes), hzlist(pcodes), hzlist(pexp)))
                meta.append((cfgs[k], k, hist, dflt, inits, res, py_reads, py_final))
            ctx.count('twin_walk_cycles', 'order %d, entries in memory_value_map: %s' % (
                order, '+'.join('yes' if i else 'no' for i in inits)), len(seq))
    judge_verilog_jobs(ctx, vjobs)
    out = ctx.coq_eval(exprs, IMPORTS, tag='c08twin', shard=1, jobs=15)
    for (cfg, k, hist, dflt, inits, res, py_reads, py_final), v in zip(meta, out):
        flags, finals = [bool(x) for x in v[0]], v[1]
        sfinal = list(finals[0])
        d1, d2, f3 = [tuple(p) for p in finals[1]], [tuple(p) for p in finals[2]], list(finals[3])
        replay = {'tier': ctx.tier, 'design': 'twin: two 2-word x 1-bit MemBlocks sharing the address inputs',
                  'memory_index': k, 'memory': cfg.desc(), 'memory_value_map': inits[k],
                  'other_memory_value_map': inits[1 - k], 'default_value': dflt,
                  'note': 'entries are omitted from memory_value_map when empty'}
        if not (flags[0] and flags[1] and flags[2]) or [py_final.get(a, dflt) for a in (0, 1)] != sfinal:
            ctx.model_mismatch('twin: Coq array spec and Python array spec disagree (flags %s)' % flags, replay)
            continue
        for backend, r in sorted(res.items()):
            if backend == 'compiled':
                chk.compare(cfg, backend, inits[k], 0, hist, py_reads, py_final, r[0][k], r[1][k], [0, 1], replay, 'probes',
                            tie=(flags[5], list(r[1][k]) == f3))
            else:
                mfinal = {'sim': d1, 'fast': d2}.get(backend)
                fl = {'sim': flags[3], 'fast': flags[4]}.get(backend, flags[3])
                chk.compare(cfg, backend, inits[k], dflt, hist, py_reads, py_final, r[0][k], r[1][k], [0, 1], replay, 'items',
                            tie=(fl, None if mfinal is None else [tuple(x) for x in r[1][k]] == mfinal))
            for t in (range(len(hist) - order + 1) if backend in PRIMARY else (0,)):
                ctx.case(('twin', backend, k, order, dflt, repr(inits), t), nontrivial=True,
                         sample=dict(replay, backend=backend, joint_operations='(wa, ra, dataA, enA, dataB, enB)',
                                     window=seq[t:t + order], reads_of_this_memory=r[0][k][t:t + order])
                         if (t == 200 and backend == 'sim' and k == 1 and not inits[0] and not inits[1] and dflt == 0) else None)


# ------------------------------------------------------------------ part 4: the emitted C hash map alone

class _Node(ctypes.Structure):
    pass


_Node._fields_ = [('key', ctypes.c_uint64), ('val', ctypes.POINTER(ctypes.c_uint64)), ('next', ctypes.POINTER(_Node))]


class _HMap(ctypes.Structure):
    _fields_ = [('size', ctypes.c_int), ('val_limbs', ctypes.c_int),
                ('default_value', ctypes.POINTER(ctypes.c_uint64)), ('list', ctypes.POINTER(ctypes.POINTER(_Node)))]


def hashmap_part(ctx, nseq, nops):
    lines = []
    pyrtl.CompiledSimulation._declare_mem_helpers(None, lines.append)
    src = '#include <stdint.h>\n#include <stdlib.h>\n#include <string.h>\n#define EXPORT\n' + '\n'.join(lines)
    for needle in ('create_hash_map(int size, int val_limbs)', 'void insert(hashmap_t *h, uint64_t key, val_t val[])',
                   'val_t* lookup(hashmap_t *h, uint64_t key)', 'uint64_t key;', 'val_t *val;', 'struct node *next;',
                   'int size;', 'int val_limbs;', 'val_t *default_value;', 'node_t **list;'):
        if needle not in src:
            ctx.model_mismatch('compilesim._declare_mem_helpers no longer has the modelled shape (missing %r)' % needle, {})
            return
    cpath = os.path.join(ctx.workdir, 'c08_hashmap.c')
    so = os.path.join(ctx.workdir, 'c08_hashmap.so')
    with open(cpath, 'w') as f:
        f.write(src)
    p = subprocess.run(['gcc', '-O0', '-shared', '-fPIC', '-o', so, cpath], capture_output=True, text=True)
    if p.returncode != 0:
        ctx.model_mismatch('the emitted hash-map helpers do not compile on their own: %s' % p.stderr[-400:], {})
        return
    lib = ctypes.CDLL(so)
    lib.create_hash_map.restype = ctypes.POINTER(_HMap)
    lib.create_hash_map.argtypes = [ctypes.c_int, ctypes.c_int]
    lib.insert.restype = None
    lib.insert.argtypes = [ctypes.POINTER(_HMap), ctypes.c_uint64, ctypes.POINTER(ctypes.c_uint64)]
    lib.lookup.restype = ctypes.POINTER(ctypes.c_uint64)
    lib.lookup.argtypes = [ctypes.POINTER(_HMap), ctypes.c_uint64]
    exprs, meta = [], []
    for si in range(nseq):
        rng = ctx.sub_rng('hashmap', si)
        size = [1, 2, 3, 7, 16, 256][si % 6]
        nl = 1 + si % 3
        keys = [rng.choice([rng.randrange(4 * size), rng.getrandbits(64), M64, 0, size, 2 * size])
                for _ in range(max(3, size // 2 + 3))]
        ops = []
        for _ in range(nops):
            k = rng.choice(keys)
            if rng.random() < 0.6:
                ops.append((0, k, rng.getrandbits(64 * nl)))
            else:
                ops.append((1, k, 0))
        h = lib.create_hash_map(size, nl)
        outs = []
        for kind, k, v in ops:
            if kind == 0:
                arr = (ctypes.c_uint64 * nl)(*[(v >> (64 * i)) & M64 for i in range(nl)])
                lib.insert(h, k, arr)
            else:
                r = lib.lookup(h, k)
                outs.append(sum(r[i] << (64 * i) for i in range(nl)))
        buckets = []
        for b in range(size):
            chain = []
            node = h.contents.list[b]
            while node:
                chain.append((node.contents.key, sum(node.contents.val[i] << (64 * i) for i in range(nl))))
                node = node.contents.next
            buckets.append(chain)
        exprs.append('hm_check %d%%nat %d%%nat [%s] [%s] %s' % (
            size, nl, '; '.join('(%d, %s, %s)' % (o[0], hz(o[1]), hz(o[2])) for o in ops),
            '; '.join(hpairs(c) for c in buckets), hzlist(outs)))
        meta.append((size, nl, ops, buckets, outs))
        ctx.count('hashmap_buckets', size)
        ctx.count('hashmap_longest_chain', max(len(c) for c in buckets))
    out = ctx.coq_eval(exprs, IMPORTS, tag='c08hm', shard=4, jobs=15)
    for (size, nl, ops, buckets, outs), v in zip(meta, out):
        chains_ok, outs_ok = bool(v[0]), bool(v[1])
        # search: lookups vs a plain dict
        d, want = {}, []
        for kind, k, val in ops:
            if kind == 0:
                d[k] = val
            else:
                want.append(d.get(k, 0))
        rep = {'buckets': size, 'limbs': nl, 'ops(kind 0=insert 1=lookup, key, value)': ops}
        if outs != want:
            ctx.spec_violation('compiled:hashmap-lookup', 'the emitted C hash map (size %d) returns %s, a map returns %s'
                               % (size, outs, want), rep)
        elif not (chains_ok and outs_ok):
            ctx.model_mismatch('bucket chains / lookups of the emitted C hash map differ from the Coq bucket model',
                               dict(rep, real=buckets))
        ctx.case(('hashmap', size, nl, repr(ops)), nontrivial=max(len(c) for c in buckets) >= 2 or size >= 16,
                 sample={'buckets': size, 'limbs': nl, 'first_ops': ops[:4], 'chains': [c for c in buckets if c][:3]}
                 if (size == 3 and ops is meta[2][2]) else None)


# ------------------------------------------------------------------ part 3: ROMs

def gen_rom(rng, k):
    aw = rng.randint(1, 6)
    bw = rng.choice([1, 2, 3, 8, 16, 31, 32, 33, 63, 64, 65, 70, rng.randint(1, 70)])
    n = 1 << aw
    kind = rng.choice(['list', 'dict', 'fun'])
    flavour = rng.choice(['full', 'full', 'short', 'bad-value'])
    pad = rng.random() < 0.5

    def val():
        r = rng.random()
        if r < 0.15:
            return (1 << bw) - 1
        if r < 0.25:
            return 0
        return rng.getrandbits(bw)
    table = {a: val() for a in range(n)}
    if flavour == 'short':
        if kind == 'list':
            keep = rng.randint(0, n - 1)
            table = {a: v for a, v in table.items() if a < keep}
        else:
            table = {a: v for a, v in table.items() if rng.random() < 0.6}
    if flavour == 'bad-value' and table:
        a = rng.choice(sorted(table))
        table[a] = rng.choice([-1, 1 << bw, (1 << bw) + 5])
    if kind == 'list':
        data = [table[a] for a in range(len(table))]
        pydata = list(data)
        coq = 'RomList %s' % hzlist(data)
        spec_data = data
    elif kind == 'dict':
        items = sorted(table.items())
        rng.shuffle(items)
        pydata = dict(items)
        coq = 'RomDict %s' % hpairs(items)
        spec_data = dict(table)
    else:
        tbl = dict(table)
        pydata = (lambda t: (lambda a: t[a]))(tbl)      # raises KeyError where undefined
        coq = 'fun_table %s' % hpairs(sorted(table.items()))
        spec_data = dict(table)
    return dict(k=k, aw=aw, bw=bw, kind=kind, flavour=flavour, pad=pad, pydata=pydata, coq=coq, spec_data=spec_data)


def rom_part(ctx, ndesigns, per_design):
    exprs, meta = [], []
    for di in range(ndesigns):
        rng = ctx.sub_rng('rom', di)
        roms = [gen_rom(rng, k) for k in range(per_design)]
        # (a) _get_read_data itself
        pyrtl.reset_working_block()
        for r in roms:
            rb = pyrtl.RomBlock(bitwidth=r['bw'], addrwidth=r['aw'], romdata=r['pydata'], name='rom%d' % r['k'],
                                asynchronous=True, pad_with_zeros=r['pad'], max_read_ports=None)
            addrs = list(range(-1, (1 << r['aw']) + 2))
            got = []
            for a in addrs:
                try:
                    got.append(('ok', rb._get_read_data(a)))
                except pyrtl.PyrtlError:
                    got.append(('err',))
                except Exception as e:
                    got.append(('raised', type(e).__name__))
            r['direct'] = got
            r['addrs'] = addrs
            for a, g in zip(addrs, got):
                want = rom_spec(r['kind'], r['spec_data'], r['aw'], r['bw'], r['pad'], a)
                if g != want:
                    ctx.spec_violation('rom:_get_read_data-%s' % ('raises-non-pyrtl-error' if g[0] == 'raised' else 'value'),
                                       'RomBlock._get_read_data(%d) gives %s, data[a] rule gives %s (%s data, pad=%s)'
                                       % (a, g, want, r['kind'], r['pad']),
                                       {'rom': {x: r[x] for x in ('aw', 'bw', 'kind', 'flavour', 'pad')},
                                        'data': r['spec_data'], 'address': a, 'expected': want, 'got': g})
            exprs.append('rom_case %d %d %s (%s) %s' % (r['aw'], r['bw'], 'true' if r['pad'] else 'false', r['coq'],
                                                       nlx.zlist(addrs)))
            meta.append(r)
            ctx.count('rom_kind', '%s/%s/pad=%s' % (r['kind'], r['flavour'], r['pad']))
        # (b) through read ports in every back-end
        good = [r for r in roms if all(g[0] == 'ok' for g in r['direct'][1:(1 << r['aw']) + 1])]
        bad = [r for r in roms if r not in good]

        def build(rs):
            pyrtl.reset_working_block()
            for r in rs:
                rb = pyrtl.RomBlock(bitwidth=r['bw'], addrwidth=r['aw'], romdata=r['pydata'], name='rom%d' % r['k'],
                                    asynchronous=True, pad_with_zeros=r['pad'], max_read_ports=None)
                for j in range(2):
                    ra = pyrtl.Input(r['aw'], 'r%d_ra%d' % (r['k'], j))
                    o = pyrtl.Output(r['bw'], 'r%d_o%d' % (r['k'], j))
                    o <<= rb[ra]
            return pyrtl.working_block()
        if good:
            ncyc = max(1 << r['aw'] for r in good)
            steps = []
            for t in range(ncyc):
                s = {}
                for r in good:
                    n = 1 << r['aw']
                    s['r%d_ra0' % r['k']] = t % n
                    s['r%d_ra1' % r['k']] = (n - 1 - t) % n
                steps.append(s)
            block = build(good)
            traces = {}
            rom_info = [{'name': 'rom%d' % r['k'], 'rom': {x: r[x] for x in ('aw', 'bw', 'kind', 'flavour', 'pad')},
                         'data': r['spec_data']} for r in good]

            def run_rom(name, make, blk):
                """every address of every fully defined ROM must be readable: an exception is a finding"""
                t = -1
                try:
                    sim = make(blk)
                    for t, s in enumerate(steps):
                        sim.step(dict(s))
                    traces[name] = sim.tracer.trace
                except CompilerUnavailable:
                    return
                except Exception as e:
                    ctx.spec_violation('rom:%s-raises-%s' % (name, type(e).__name__),
                                       '%s raised %s (%s) on ROMs whose every address is defined (pad_with_zeros included)'
                                       % (name, type(e).__name__, str(e)[:120]),
                                       {'roms': rom_info, 'cycle': t, 'inputs': steps[t] if t >= 0 else 'construction'})
            mk_sim = lambda b: pyrtl.Simulation(tracer=pyrtl.SimulationTrace(block=b), block=b)
            mk_fast = lambda b: pyrtl.FastSimulation(tracer=pyrtl.SimulationTrace(block=b), block=b)
            mk_comp = lambda b: make_compiled(b, {})
            run_rom('sim', mk_sim, block)
            run_rom('fast', mk_fast, block)
            run_rom('compiled', mk_comp, block)
            post = pyrtl.synthesize(update_working_block=False, block=block)
            run_rom('synth', mk_sim, post)
            run_rom('synth/fast', mk_fast, post)
            pyrtl.optimize(update_working_block=True, block=post)
            run_rom('synth+opt', mk_sim, post)
            run_rom('synth+opt/compiled', mk_comp, post)
            # Verilog: the initial block must list data[a] at every address
            buf = io.StringIO()
            pyrtl.output_to_verilog(buf, block=block)
            text = buf.getvalue()
            for r in good:
                n = 1 << r['aw']
                want = [rom_spec(r['kind'], r['spec_data'], r['aw'], r['bw'], r['pad'], a)[1] for a in range(n)]
                for backend, tr in traces.items():
                    for j, addr_of in ((0, lambda t: t % n), (1, lambda t: (n - 1 - t) % n)):
                        got = tr['r%d_o%d' % (r['k'], j)]
                        exp = [want[addr_of(t)] for t in range(len(steps))]
                        if list(got) != exp:
                            t = first_diff(list(got), exp)
                            ctx.spec_violation('rom:%s-read-port' % backend,
                                               '%s: ROM read port returns %s at address %d, romdata holds %s'
                                               % (backend, got[t], addr_of(t), exp[t]),
                                               {'rom': {x: r[x] for x in ('aw', 'bw', 'kind', 'flavour', 'pad')},
                                                'data': r['spec_data'], 'address': addr_of(t)})
                    ctx.case(('rom', backend, r['aw'], r['bw'], r['kind'], repr(r['spec_data']), r['pad']), nontrivial=True)
                memid = [m for m in block.logic_subset('m') if m.op_param[1].name == 'rom%d' % r['k']][0].op_param[0]
                inits = dict((int(a), int(v, 16)) for a, v in
                             re.findall(r"mem_%d\[(\d+)\]=\d+'h([0-9a-f]+);" % memid, text))
                rd = re.findall(r'assign \w+ = mem_%d\[\w+\];' % memid, text)
                if inits != dict(enumerate(want)) or len(rd) != 2:
                    ctx.spec_violation('verilog:rom-initial-block', 'exported Verilog ROM contents differ from romdata',
                                       {'rom': {x: r[x] for x in ('aw', 'bw', 'kind', 'flavour', 'pad')},
                                        'expected': want, 'got': inits})
                ctx.case(('rom', 'verilog', r['aw'], r['bw'], r['kind'], repr(r['spec_data']), r['pad']), nontrivial=True)
        for r in bad:
            # undefined / invalid entries: stepping onto them is a PyRTL error, never a wrong word
            block = build([r])
            n = 1 << r['aw']
            for name, mk in (('sim', lambda b: pyrtl.Simulation(tracer=pyrtl.SimulationTrace(block=b), block=b)),
                             ('fast', lambda b: pyrtl.FastSimulation(tracer=pyrtl.SimulationTrace(block=b), block=b))):
                for a in range(n):
                    want = rom_spec(r['kind'], r['spec_data'], r['aw'], r['bw'], r['pad'], a)
                    sim = mk(block)
                    try:
                        sim.step({'r%d_ra0' % r['k']: a, 'r%d_ra1' % r['k']: a})
                        got = ('ok', sim.tracer.trace['r%d_o0' % r['k']][-1])
                    except pyrtl.PyrtlError:
                        got = ('err',)
                    except Exception as e:
                        got = ('raised', type(e).__name__)
                    if got != want:
                        ctx.spec_violation('rom:%s-partial-rom' % name,
                                           '%s on a partially defined ROM at address %d: %s, expected %s' % (name, a, got, want),
                                           {'rom': {x: r[x] for x in ('aw', 'bw', 'kind', 'flavour', 'pad')},
                                            'data': r['spec_data'], 'address': a})
                ctx.case(('rom-partial', name, r['aw'], r['bw'], r['kind'], repr(r['spec_data']), r['pad']), nontrivial=True)
    out = ctx.coq_eval(exprs, IMPORTS, tag='c08rom', shard=5, jobs=15)
    for r, v in zip(meta, out):
        codes, (tflag, table) = v[0], v[1]
        model = [('ok', c[1]) if c[0] == 0 else ('err',) for c in codes]
        if model != r['direct']:
            i = first_diff(model, r['direct'])
            ctx.model_mismatch('RomBlock._get_read_data and Coq rom_read disagree at address %d (%s vs %s)'
                               % (r['addrs'][i], r['direct'][i], model[i]),
                               {'rom': {x: r[x] for x in ('aw', 'bw', 'kind', 'flavour', 'pad')}, 'data': r['spec_data']})
        n = 1 << r['aw']
        allok = all(g[0] == 'ok' for g in r['direct'][1:n + 1])
        if bool(tflag) != allok or (allok and list(table) != [g[1] for g in r['direct'][1:n + 1]]):
            ctx.model_mismatch('Coq rom_table disagrees with tabulating _get_read_data', {'rom': r['coq']})
        ctx.case(('rom-direct', r['aw'], r['bw'], r['kind'], repr(r['spec_data']), r['pad']), nontrivial=True,
                 sample={'rom': {x: r[x] for x in ('aw', 'bw', 'kind', 'flavour', 'pad')},
                         'reads(-1..2^aw+1)': r['direct'][:6]} if r['k'] == 0 and r['flavour'] != 'full' and len(meta) else None)


# ------------------------------------------------------------------ entry points

def _timed(ctx, name, f, *a, **kw):
    import time
    t0 = time.time()
    f(*a, **kw)
    ctx.count('wall_seconds_per_part', name, round(time.time() - t0, 1))


def run(real_ctx):
    _REPORTED.clear()
    _PORT_OF.clear()
    ctx = _Capped(real_ctx)
    _CTX[:] = [ctx]
    _WORKDIR[:] = [real_ctx.workdir]
    chk = Checker(ctx)
    quick = ctx.tier == 'quick'
    if quick:
        _timed(ctx, 'sweep_part', sweep_part, ctx, chk, [(1, 1), (2, 1), (1, 2), (2, 2)], [0, 1])
        _timed(ctx, 'walk_part', walk_part, ctx, chk, [(1, 1, 3, [[], [(0, 1)], [(1, 1), (0, 0)]], [0, 1]),
                             (2, 1, 2, [[], [(1, 1)]], [0]),
                             (1, 2, 2, [[]], [0, 1]),
                             (1, 0, 3, [[(1, 1)], [], [(0, 1), (1, 0)]], [0, 1], {'label': 'write-only memory (no read port), observed through inspect_mem'}),
                             (2, 0, 2, [[(0, 1)]], [0], {'label': 'write-only memory (no read port), observed through inspect_mem'}),
                             (1, 1, 3, [[], [(0, 1)]], [0], {'wk': [('in', 'reg', 'reg', 0)], 'label': 'write data and enable from registers'}),
                             (1, 1, 2, [[(1, 1)]], [0], {'wk': [('reg', 'in', 'in', 0)], 'rk': ['reg'], 'label': 'write address and read address from registers'}),
                             (2, 1, 2, [[], [(0, 1), (1, 1)]], [0], {'wk': [('in', 'in', 'in', 0), ('in', 'in', 'c0', 0)], 'pred': lambda op: op[0][1][2] == 0, 'label': 'second port tied off (enable Const 0)'}),
                             (2, 1, 2, [[]], [0], {'wk': [('in', 'reg', 'in', 0), ('const', 'in', 'c1', 1)], 'pred': lambda op: op[0][1][2] == 1 and op[0][1][0] == 1, 'label': 'second port always writes address 1 (Const address, Const 1 enable), first port data from a register'}),
                             (1, 1, 3, [[], [(0, 1)]], [0, 1], {'branches': [False, True], 'label': 'one port under conditional_assignment: a plain branch and an EnabledWrite branch'}),
                             (1, 1, 2, [[(1, 1)]], [0], {'branches': [True, False, True], 'label': 'one port under conditional_assignment: EnabledWrite, plain, EnabledWrite branches'}),
                             (1, 1, 2, [[(0, 1)]], [0], {'wk': [('reg', 'reg', 'implicit', 0)], 'pred': lambda op: op[0][0][2] == 1, 'label': 'unconditional write, address and data from registers'})])
        _timed(ctx, 'twin_part', twin_part, ctx, chk, 2, [[[], []], [[], [(0, 1)]], [[(1, 1)], []]], [0, 1])
        _timed(ctx, 'random_part', random_part, ctx, chk, ndesigns=72, ncyc_range=(30, 70), compiled_every=2, post_every=3, verilog_every=2)
        _timed(ctx, 'rom_part', rom_part, ctx, ndesigns=8, per_design=6)
        _timed(ctx, 'hashmap_part', hashmap_part, ctx, nseq=36, nops=60)
    else:
        _timed(ctx, 'sweep_part', sweep_part, ctx, chk, [(1, 1), (2, 1), (1, 2), (2, 2), (3, 1), (3, 2), (1, 3)], [0, 1])
        _timed(ctx, 'walk_part', walk_part, ctx, chk, [(1, 1, 4, [[], [(1, 1), (0, 0)]], [0]),
                             (1, 1, 3, [[], [(0, 1)]], [1]),
                             (2, 1, 2, [[], [(1, 1)]], [0, 1]),
                             (1, 2, 3, [[], [(0, 1)]], [0, 1]),
                             (2, 2, 2, [[], [(1, 0)]], [0]),
                             (1, 0, 3, [[(1, 1)], [], [(0, 1), (1, 0)]], [0, 1], {'label': 'write-only memory (no read port), observed through inspect_mem'}),
                             (2, 0, 3, [[(0, 1)], []], [0, 1], {'label': 'write-only memory (no read port), observed through inspect_mem'}),
                             (1, 1, 4, [[]], [0], {'wk': [('in', 'reg', 'reg', 0)], 'label': 'write data and enable from registers'}),
                             (1, 1, 3, [[], [(1, 1)]], [0], {'wk': [('reg', 'in', 'in', 0)], 'rk': ['reg'], 'label': 'write address and read address from registers'}),
                             (2, 1, 2, [[], [(0, 1), (1, 1)]], [0], {'wk': [('in', 'in', 'in', 0), ('in', 'in', 'c0', 0)], 'pred': lambda op: op[0][1][2] == 0, 'label': 'second port tied off (enable Const 0)'}),
                             (2, 1, 3, [[], [(1, 0)]], [0], {'wk': [('in', 'reg', 'in', 0), ('const', 'in', 'c1', 1)], 'pred': lambda op: op[0][1][2] == 1 and op[0][1][0] == 1, 'label': 'second port always writes address 1 (Const address, Const 1 enable), first port data from a register'}),
                             (1, 1, 3, [[], [(0, 1)], [(1, 0)]], [0, 1], {'branches': [False, True], 'label': 'one port under conditional_assignment: a plain branch and an EnabledWrite branch'}),
                             (1, 1, 3, [[], [(1, 1)]], [0, 1], {'branches': [True, False, True], 'label': 'one port under conditional_assignment: EnabledWrite, plain, EnabledWrite branches'}),
                             (1, 1, 3, [[], [(0, 1)]], [0], {'wk': [('reg', 'reg', 'implicit', 0)], 'pred': lambda op: op[0][0][2] == 1, 'label': 'unconditional write, address and data from registers'})])
        _timed(ctx, 'twin_part', twin_part, ctx, chk, 2, [[[], []], [[], [(0, 1)]], [[(1, 1)], []], [[(0, 0)], [(0, 1), (1, 1)]]], [0, 1])
        _timed(ctx, 'random_part', random_part, ctx, chk, ndesigns=500, ncyc_range=(30, 120), compiled_every=1, post_every=2, verilog_every=2)
        _timed(ctx, 'rom_part', rom_part, ctx, ndesigns=60, per_design=6)
        _timed(ctx, 'hashmap_part', hashmap_part, ctx, nseq=300, nops=120)


def replay(real_ctx, data):
    """re-run one reported case: `data` is the JSON written by the runner (memory configuration, initial contents,
    default value, history); every back-end is run on it and compared with the array specification"""
    rep = data.get('replay', data)
    if 'memory' not in rep or 'history' not in rep:
        print('replay: no single-memory history in this file; running the whole check')
        return run(real_ctx)
    _REPORTED.clear()
    ctx = _Capped(real_ctx)
    _CTX[:] = [ctx]
    _WORKDIR[:] = [real_ctx.workdir]
    chk = Checker(ctx)
    m = rep['memory']
    cfg = MemCfg(0, m['addrwidth'], m['bitwidth'], m['write_ports'], m['read_ports'], m.get('tagged_low_bits', False),
                 wk=m.get('write_port_sources(addr,data,enable,const addr)'), rk=m.get('read_port_sources'),
                 branches=m.get('conditional_assignment_branches(True=EnabledWrite,False=plain)'))
    cfg.name = m.get('memblock_name')
    hist = [([tuple(w) for w in ws], list(rs)) for ws, rs in rep['history']]
    init = [tuple(p) for p in rep.get('memory_value_map', [])]
    dflt = rep.get('default_value', 0)
    steps = steps_of([cfg], [hist], len(hist))
    block = build_design([cfg])
    mem = cfg.mem
    py_reads, py_final = spec_run(init, dflt, hist)
    probes = sorted(set(py_final) | {a for _, rs in hist for a in rs})[:16]
    print('array specification: reads per cycle', py_reads, 'final', py_final)
    runs = {}
    runs['sim'] = run_python_sim(pyrtl.Simulation, block, [cfg], [mem], [init], dflt, steps)
    runs['fast'] = run_python_sim(pyrtl.FastSimulation, block, [cfg], [mem], [init], dflt, steps)
    if dflt == 0:
        try:
            runs['compiled'] = run_compiled(block, [cfg], [mem], [init], steps, [probes])
        except PyrtlRejected as e:
            print('CompiledSimulation rejected the design with a PyrtlError:', e)
    post = pyrtl.synthesize(update_working_block=False, block=block)
    pm = post_mems(ctx, post, [mem], 'synthesize')
    runs['synth'] = run_post(ctx, pyrtl.Simulation, post, [cfg], pm, [init], dflt, steps, 'synthesize')
    pyrtl.optimize(update_working_block=True, block=post)
    runs['synth+opt'] = run_post(ctx, pyrtl.Simulation, post, [cfg], pm, [init], dflt, steps, 'optimize')
    for backend, r in sorted(runs.items()):
        print(backend, 'reads', r[0][0], 'final', r[1][0])
        chk.compare(cfg, backend, init, 0 if backend == 'compiled' else dflt, hist, py_reads, py_final, r[0][0], r[1][0],
                    probes, {'replayed': True, 'memory': cfg.desc(), 'memory_value_map': init, 'default_value': dflt},
                    'probes' if backend == 'compiled' else 'items')
        ctx.case(('replay', backend, repr(hist)), nontrivial=True)
