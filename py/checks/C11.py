"""C11: copy_block / synthesize(update_working_block=False) / optimize(update_working_block=False)
never disturb the block they read, return a block that shares no objects with it and behaves
identically (reset values, ROM contents included), and later edits / simulation of either block
do not affect the other.

Tie   : the real copy_block result, dumped, must equal Pass/Copy.v `copy_block` (model of the code
        as it is) applied to the dump of the source, up to the name bijection (structural).
Search: real Output traces of source and result from reset compared with each other and with the
        Coq reference semantics (Netlist/Sem.v) of the SOURCE dump; fingerprints (every attribute,
        by name) and traces of the source before/after each call; working_block() identity;
        id()-disjointness of wire and memory objects; random edit/simulate sequences on one block
        with the other re-fingerprinted and re-simulated (interleaved simulations)."""
import contextlib
import hashlib
import io
import os
import re
import pyrtl
import gen_designs
import nlx

RULE = ('tie: copy_block assembled from fragments regenerated from transform.py/memory.py (Gen/CopyAttrs.v) vs the dump of the '
        'real copy (every wire/net/memory) and vs the constructor attributes of every real memory copy; search: '
        'random API-built designs (registers with/without reset_value, read/write memories with initial '
        'contents, full-width selects in non-ascending bit order (w[::-1], reversed partial slices, concat-built bit permutations), '
        'write-only (log) and read-only MemBlocks incl. designs whose ONLY memories are write-only, every documented '
        'option combination of the three calls (merge_io_vectors, skip_sanity_check, block= given/omitted), final memory '
        'contents (inspect_mem) compared, reserved (unconnected) Input/Const pins, sources already optimize()d IN PLACE before the call (a '
        'constant-masked pin left dangling), pairs of distinct MemBlocks / RomBlocks deliberately given the SAME name with different ports and '
        'contents, ROMs from list/dict/function, ROMs with pad_with_zeros=True and PARTIAL romdata (short list/tuple, '
        'dict with holes) read inside and outside the data, all 16 ops, widths 1..130) x {copy_block, synthesize, '
        'optimize}(update_working_block=False) x {source is / is not the working block} x 2 edit/simulate '
        'sequences (add net, rename wire, remove wire+net, set reset_value, in-place mutation of every Block-level '
        'container [legal_ops, memblock_by_name, wirevector_by_name, rtl_assert_dict, io/reg/mem_map] followed by an '
        'edit+sanity_check+simulate of the OTHER block, interleaved simulation with '
        'memory writes); distinct by (design hash, api, scenario, edit script); non-trivial when the design '
        'has a register or memory and at least half of its outputs vary during the run')
IMPORTS = ('From PyRTL Require Import Netlist.Sem Netlist.WFDefs Netlist.SpecHarness Pass.Copy.')
COQ_TARGETS = ['theories/Netlist/SpecHarness.vo', 'theories/Pass/Copy.vo']
TRUSTED = ['py/genfrag_C11.py (fail-closed translator of transform.clone_wire / _clone_block_and_wires / _copy_net / '
           '_get_new_block_mem_instance and MemBlock/RomBlock._make_copy + the constructor signatures into '
           'Gen/CopyAttrs.v); the hand-written model of what copy_block passes to the clones is gone',
           'Pass/Copy.v: `rename`, `val_rel`/`state_rel` (what "the same design over other wire objects" and '
           '"behaves identically" mean), `fingerprint`; Pass/CopyHeap.v: the heap model of object aliasing '
           '(`reach`, `hfingerprint`, edit alphabet `hedit`)',
           'py/checks/C11.py `fingerprint`: the attribute list observed on real blocks']
ASSUMPTIONS = ['the translated fragments are the attribute-passing part of copy_block (which constructor, which attributes, '
               'which wires are cloned, id carried over); that constructing an object with the same arguments yields an '
               'object with the same attributes (WireVector/MemBlock __init__ bodies) is checked by correspondence only '
               '(copy_tie_case, mem_tie_case on every copied design)',
               'RomBlock._make_copy does not pass build_new_roms (theorem C11_romblock_copy_keeps_all_but_build_new_roms); '
               'the generator builds no ROM with build_new_roms=True, so the result==source attribute comparison does not '
               'meet that case',
               'optimize only (proviso of C04, inherited): the pass may replace a register whose next value is a compile-time '
               'constant by that constant; a from-reset difference (Output traces or final memory contents) of the optimize result is NOT flagged when it disappears once '
               'every register the pass eliminated whose next value is (transitively) a compile-time constant (computed structurally '
               'on the source; registers eliminated for any other reason are not compensated) starts out holding that constant; such cases are counted (optimize_constant_register_proviso); any other difference is a '
               'violation; copy_block and synthesize are compared strictly',
               'Python object aliasing is observed on the implementation only (id() sets, fingerprints before/after); '
               'the heap model proves disjointness => independence but is not itself tied to CPython',
               'ROM contents are compared tabulated over every address; mutation of a romdata container shared '
               'by the user, the source RomBlock and its copy is outside the edit alphabet (measured, not judged)',
               'MemBlock.readport_nets/writeport_nets/num_*_ports of a copied memory are not compared (they are '
               'bookkeeping of the construction API, not part of the netlist); measured in the evidence',
               'synthesize/optimize are judged here only for not disturbing the source, object disjointness, '
               'reset/ROM preservation and from-reset Output equivalence on the sampled stimulus; their '
               'functional correctness for all inputs is C03/C04']

APIS = ['copy_block', 'synthesize', 'optimize']


# ---------------------------------------------------------------- observation helpers

def mems_of(block):
    """{memid: mem object} reachable from the block (nets first, then the by-name registry)"""
    out = {}
    for n in block.logic:
        if n.op in 'm@':
            out.setdefault(n.op_param[0], n.op_param[1])
    return out


def mem_objects(block):
    objs = {}
    for n in block.logic:
        if n.op in 'm@':
            objs[id(n.op_param[1])] = n.op_param[1]
    for m in getattr(block, 'memblock_by_name', {}).values():
        objs[id(m)] = m
    return objs


def wire_objects(block):
    objs = {}
    for w in block.wirevector_set:
        objs[id(w)] = w
    for w in block.wirevector_by_name.values():
        objs[id(w)] = w
    for n in block.logic:
        for w in n.args + n.dests:
            objs[id(w)] = w
    return objs


def shared_containers(a, b):
    """[(attr of a, attr of b)] whose values are one and the same mutable container object"""
    out = []
    ca = {id(v): k for k, v in vars(a).items() if isinstance(v, (set, dict, list))}
    for k, v in vars(b).items():
        if isinstance(v, (set, dict, list)) and id(v) in ca:
            out.append((ca[id(v)], k))
    return sorted(out)


def rom_table(m):
    tab = []
    for a in range(1 << m.addrwidth):
        try:
            tab.append(m._get_read_data(a))
        except pyrtl.PyrtlError:
            tab.append(None)
    return tuple(tab)


def wire_attrs(w):
    return (w.name, type(w).__name__, w.bitwidth,
            w.val if isinstance(w, pyrtl.Const) else None,
            w.reset_value if isinstance(w, pyrtl.Register) else None)


def rom_data_addresses(m):
    """which addresses the romdata itself defines (independent of pad_with_zeros)"""
    data = m.data
    if callable(data):
        return 'function'
    if isinstance(data, dict):
        return tuple(sorted(a for a in data if isinstance(a, int) and 0 <= a < (1 << m.addrwidth)))
    try:
        return tuple(range(min(len(data), 1 << m.addrwidth)))
    except TypeError:
        return 'unknown'


MEM_ATTR_NAMES = ['id', 'name', 'class', 'bitwidth', 'addrwidth', 'asynchronous', 'rom_contents',
                  'max_read_ports', 'max_write_ports', 'pad_with_zeros', 'build_new_roms', 'rom_data_addresses']


def _name_code(nm):
    import zlib
    return zlib.crc32(nm.encode()) & 0x3fffffff


def _optz(v):
    return -1 if v is None else int(v)


def mattrs_code(m):
    """the real object's constructor attributes, coded like Pass/Copy.v mattrs_code"""
    rom = isinstance(m, pyrtl.RomBlock)
    return [m.id, _name_code(m.name), m.bitwidth, m.addrwidth, int(bool(m.asynchronous)), _optz(m.max_read_ports),
            _optz(m.max_write_ports), int(rom), int(bool(m.pad_with_zeros)) if rom else 0,
            int(bool(m.build_new_roms)) if rom else 0]


def mattrs_coq(m):
    """the source memory's attributes as a Coq `mattrs` term (romdata itself is compared by copy_tie_case)"""
    rom = isinstance(m, pyrtl.RomBlock)
    opt = lambda v: 'None' if v is None else '(Some %d)' % v
    b = lambda v: 'true' if v else 'false'
    return '(mkMAttrs %d %d %d %d %s %s %s %s %s %s)' % (
        m.id, _name_code(m.name), m.bitwidth, m.addrwidth, b(m.asynchronous), opt(m.max_read_ports),
        opt(m.max_write_ports), '(Some [])' if rom else 'None', b(rom and m.pad_with_zeros), b(rom and m.build_new_roms))


def mem_attrs(m):
    """every constructor attribute of MemBlock/RomBlock that affects behaviour or export; ROM contents
    tabulated over every address (None = reading that address raises)"""
    rom = isinstance(m, pyrtl.RomBlock)
    return (m.id, m.name, type(m).__name__, m.bitwidth, m.addrwidth, bool(m.asynchronous),
            rom_table(m) if rom else None,
            m.max_read_ports, m.max_write_ports,
            bool(m.pad_with_zeros) if rom else None,
            bool(m.build_new_roms) if rom else None,
            rom_data_addresses(m) if rom else None)


def net_attrs(n):
    if n.op in 'm@':
        param = (n.op_param[0], n.op_param[1].name)
    elif n.op == 's':
        param = tuple(n.op_param)
    else:
        param = n.op_param
    return (n.op, repr(param), tuple(a.name for a in n.args), tuple(d.name for d in n.dests))


def fingerprint(block):
    """every attribute, by name; a dict of sorted lists so that a difference can be located"""
    return {
        'wires': sorted(wire_attrs(w) for w in block.wirevector_set),
        'by_name': sorted((nm, w.name, type(w).__name__) for nm, w in block.wirevector_by_name.items()),
        'backptr': sorted(w.name for w in block.wirevector_set if w._block is not block),
        'mems': sorted(mem_attrs(m) for m in mem_objects(block).values()),
        'mem_ports': sorted((m.id, len(m.readport_nets), len(m.writeport_nets)) for m in mem_objects(block).values()),
        'mems_by_name': sorted((nm, m.id) for nm, m in block.memblock_by_name.items()),
        'nets': sorted(net_attrs(n) for n in block.logic),
        'legal_ops': ''.join(sorted(block.legal_ops)),
        'asserts': len(block.rtl_assert_dict),
    }


def fp_hash(fp):
    return hashlib.sha1(repr(sorted(fp.items())).encode()).hexdigest()[:16]


def fp_diff(a, b):
    """first differing section and element"""
    for k in sorted(a):
        if a[k] != b[k]:
            sa, sb = a[k], b[k]
            if isinstance(sa, list):
                only_a = [x for x in sa if x not in sb][:3]
                only_b = [x for x in sb if x not in sa][:3]
                return {'section': k, 'only_before': only_a, 'only_after': only_b}
            return {'section': k, 'before': sa, 'after': sb}
    return None


def memory_value_map(block, memmap_by_id, src_mems=None, notes=None):
    """fresh dicts (Simulation aliases and mutates the caller's).  For a PostSynthBlock the documented
    keys are the ORIGINAL MemBlocks (translated through block.mem_map)."""
    mems = mems_of(block)
    out = {}
    for i, c in memmap_by_id.items():
        if i not in mems or isinstance(mems[i], pyrtl.RomBlock):
            continue
        key = mems[i]
        if isinstance(block, pyrtl.PostSynthBlock):
            if src_mems is not None and src_mems.get(i) in block.mem_map:
                key = src_mems[i]
            else:
                alt = [k for k in block.mem_map if k.id == i]
                if notes is not None:
                    notes.append(i)
                if alt:
                    key = alt[0]
        out[key] = dict(c)
    return out


_BIT = re.compile(r'^(.*)\[(\d+)\]$')


def merge_bit_pins(pins):
    """[(name, width)] with the 1-bit pins name[0..n-1] (synthesize(merge_io_vectors=False)) folded back to (name, n)"""
    names = {nm for nm, _ in pins}
    groups, out = {}, []
    for nm, w in pins:
        m = _BIT.match(nm)
        if m and w == 1 and m.group(1) not in names:
            groups.setdefault(m.group(1), set()).add(int(m.group(2)))
        else:
            out.append((nm, w))
    for base_, idx in groups.items():
        if idx == set(range(len(idx))):
            out.append((base_, len(idx)))
        else:
            out.extend(('%s[%d]' % (base_, k), 1) for k in sorted(idx))
    return sorted(out)


def interface(block):
    return {'inputs': merge_bit_pins([(w.name, w.bitwidth) for w in block.wirevector_subset(pyrtl.Input)]),
            'outputs': merge_bit_pins([(w.name, w.bitwidth) for w in block.wirevector_subset(pyrtl.Output)])}


def adapt_inputs(block, step, strict):
    """the testbench written for the source (vector names) as this block takes it: a vector pin x may have become
    the bit pins x[0..n-1] (documented effect of merge_io_vectors=False).  strict: a name the block does not take
    at all is an error (KeyError), as Simulation.step would report it"""
    byname = block.wirevector_by_name
    out = {}
    for nm, v in step.items():
        if isinstance(byname.get(nm), pyrtl.Input):
            out[nm] = v
        elif isinstance(byname.get(nm + '[0]'), pyrtl.Input):
            k = 0
            while isinstance(byname.get('%s[%d]' % (nm, k)), pyrtl.Input):
                out['%s[%d]' % (nm, k)] = (v >> k) & 1
                k += 1
        elif strict:
            raise KeyError(nm)
    return out


def simulate(block, inputs, memmap_by_id, regmap=None, dflt=0, src_mems=None, notes=None, strict=False):
    """fresh Simulation; returns (sim, tracer).  strict: replay the testbench exactly as written for the source
    (every input name it supplies), instead of only the names this block still has"""
    mvm = memory_value_map(block, memmap_by_id, src_mems, notes)
    tracer = pyrtl.SimulationTrace(wires_to_track='all', block=block)
    sim = pyrtl.Simulation(tracer=tracer, register_value_map=dict(regmap or {}),
                           memory_value_map=mvm, default_value=dflt, block=block)
    for step in inputs:
        sim.step(adapt_inputs(block, step, strict))
    return sim, tracer


def out_trace(block, tracer, ncyc):
    """{output name: values}; bit pins o[0..n-1] are reassembled into o"""
    raw = {w.name: list(tracer.trace[w.name][:ncyc]) for w in block.wirevector_subset(pyrtl.Output)}
    out, groups = {}, {}
    for nm, vals in raw.items():
        m = _BIT.match(nm)
        if m and m.group(1) not in raw:
            groups.setdefault(m.group(1), {})[int(m.group(2))] = vals
        else:
            out[nm] = vals
    for base_, bits in groups.items():
        if set(bits) == set(range(len(bits))):
            out[base_] = [sum(bits[k][t] << k for k in bits) for t in range(ncyc)]
        else:
            out.update({'%s[%d]' % (base_, k): v for k, v in bits.items()})
    return out


def final_memories(block, sim, dflt=0):
    """{memid: {addr: value}} of every read/write memory after the run (inspect_mem), default entries dropped"""
    out = {}
    for i, m in mems_of(block).items():
        if not isinstance(m, pyrtl.RomBlock):
            out[i] = {a: v for a, v in sim.memvalue.get(i, {}).items() if v != dflt}
    return out


def call_api(api, block, variant=None):
    with contextlib.redirect_stdout(io.StringIO()):   # optimize prints "deemed useless" notes
        return _call_api(api, block, variant or {})


def pick_variant(k, api, scenario):
    """the k-th documented way to make the non-updating call (systematic: every option combination is met)"""
    v = {'block_kw': True}
    if scenario == 'source-is-working-block' and (k // 2) % 2 == 1:
        v['block_kw'] = False                      # block omitted: defaults to the working block = the source
    if api == 'synthesize':
        v['merge_io_vectors'] = k % 2 == 1
    if api == 'optimize':
        v['skip_sanity_check'] = k % 2 == 1
    return v


def variant_str(api, v):
    kw = ['update_working_block=False']
    if 'merge_io_vectors' in v:
        kw.append('merge_io_vectors=%s' % v['merge_io_vectors'])
    if 'skip_sanity_check' in v:
        kw.append('skip_sanity_check=%s' % v['skip_sanity_check'])
    if v.get('block_kw', True):
        kw.append('block=src')
    return '%s(%s)' % (api, ', '.join(kw))


def _call_api(api, block, v):
    kw = {'update_working_block': False}
    if v.get('block_kw', True):
        kw['block'] = block
    if api == 'copy_block':
        return pyrtl.copy_block(**kw)
    if api == 'synthesize':
        if 'merge_io_vectors' in v:
            kw['merge_io_vectors'] = v['merge_io_vectors']
        return pyrtl.synthesize(**kw)
    if api == 'optimize':
        if 'skip_sanity_check' in v:
            kw['skip_sanity_check'] = v['skip_sanity_check']
        return pyrtl.optimize(**kw)
    raise ValueError(api)


def canon_nets(block):
    return sorted(block.logic, key=net_attrs)


def result_registers(api, src, res):
    """[(source register, [(result register, bit index or None)])]"""
    out = []
    byname = res.wirevector_by_name
    for r in sorted(src.wirevector_subset(pyrtl.Register), key=lambda w: w.name):
        if api == 'synthesize':
            bits = []
            for i in range(r.bitwidth):
                w = byname.get('%s_synth_%d' % (r.name, i))
                if isinstance(w, pyrtl.Register):
                    bits.append((w, i))
            out.append((r, bits))
        else:
            w = byname.get(r.name)
            out.append((r, [(w, None)] if isinstance(w, pyrtl.Register) else []))
    return out


def reset_compensation(api, src, res):
    """register_value_map for the result that re-supplies the source's reset values"""
    m = {}
    for r, lst in result_registers(api, src, res):
        if r.reset_value is None:
            continue
        for w, i in lst:
            m[w] = r.reset_value if i is None else (r.reset_value >> i) & 1
    return m


def res_value(api, res_trace, w, t):
    """value of source wire w at cycle t as the result block shows it (None when not observable)"""
    if api == 'synthesize':
        v = 0
        for i in range(w.bitwidth):
            for nm in ('%s_synth_%d' % (w.name, i), 'tmp_%s_synth_%d' % (w.name, i)):
                if nm in res_trace:
                    v |= res_trace[nm][t] << i
                    break
            else:
                return res_trace[w.name][t] if w.name in res_trace else None
        return v
    return res_trace[w.name][t] if w.name in res_trace else None


def attribute(api, src, src_trace, res_trace, ncyc):
    """the first source net (dependency order, earliest cycle) whose arguments agree between source and
    result but whose destination does not: identifies WHICH rewrite is wrong"""
    for c in sorted(src.wirevector_subset(pyrtl.Const), key=lambda w: w.name):
        cv = res_value(api, res_trace, c, 0)
        if cv is not None and cv != c.val:
            return 'const', 'Const %s is %d in the source and %d in the result' % (c.name, c.val, cv)
    for t in range(ncyc):
        found = []
        for n in src.logic:
            if n.op in 'r@' or not n.dests:
                continue
            d = n.dests[0]
            dv = res_value(api, res_trace, d, t)
            if dv is None or dv == src_trace[d.name][t]:
                continue
            avs = [res_value(api, res_trace, a, t) for a in n.args]
            if all(av is not None and av == src_trace[a.name][t] for av, a in zip(avs, n.args)):
                found.append((str(n), n.op, '%s: args %s -> %s, result block shows %s' % (
                    str(n), [src_trace[a.name][t] for a in n.args], src_trace[d.name][t], dv)))
        if found:       # all candidates of this cycle have correct arguments; report the least by text (stable)
            _, op, where = min(found)
            return op, where
        for r in sorted(src.wirevector_subset(pyrtl.Register), key=lambda w: w.name):
            rv = res_value(api, res_trace, r, t)
            if rv is not None and rv != src_trace[r.name][t]:
                return ('reset' if t == 0 else 'r'), 'register %s at cycle %d: %s vs %s' % (
                    r.name, t, src_trace[r.name][t], rv)
    for r in sorted(src.wirevector_subset(pyrtl.Register), key=lambda w: w.name):
        if res_value(api, res_trace, r, 0) is None:
            return 'r', 'register %s has no counterpart in the result (folded away)' % r.name
    return '?', ''


def compile_time_constants(block):
    """{wire: value} for every wire whose value is a compile-time constant in the steady state: Consts, gates all of
    whose arguments are constants (plus the absorbing cases x&0, x|all-ones, mux with a constant select), and registers
    whose next value is such a constant (transitively).  Documented op table, plain Python."""
    val = {w: w.val for w in block.wirevector_subset(pyrtl.Const)}
    nets = list(block.logic)

    def mask(w):
        return (1 << w.bitwidth) - 1

    def ev(n):
        a = n.args
        d = n.dests[0]
        known = [val.get(x) for x in a]
        op = n.op
        if op == '&' and any(v == 0 for v in known if v is not None):
            return 0
        if op == 'n' and any(v == 0 for v in known if v is not None):
            return max(mask(a[0]), mask(a[1])) & mask(d)
        if op == '|' and any(v is not None and v == mask(x) for v, x in zip(known, a)) and a[0].bitwidth == a[1].bitwidth:
            return mask(a[0]) & mask(d)
        if op == 'x' and known[0] is not None:
            v = known[1] if known[0] == 0 else known[2]
            return None if v is None else v & mask(d)
        if any(v is None for v in known):
            return None
        if op in 'wr':
            r = known[0]
        elif op == '~':
            r = ~known[0] & mask(a[0])
        elif op == '&':
            r = known[0] & known[1]
        elif op == '|':
            r = known[0] | known[1]
        elif op == '^':
            r = known[0] ^ known[1]
        elif op == 'n':
            r = ~(known[0] & known[1]) & max(mask(a[0]), mask(a[1]))
        elif op == '+':
            r = known[0] + known[1]
        elif op == '-':
            r = known[0] - known[1]
        elif op == '*':
            r = known[0] * known[1]
        elif op == '<':
            r = int(known[0] < known[1])
        elif op == '>':
            r = int(known[0] > known[1])
        elif op == '=':
            r = int(known[0] == known[1])
        elif op == 'c':
            r = 0
            for v, x in zip(known, a):
                r = (r << x.bitwidth) | v
        elif op == 's':
            r = sum(((known[0] >> i) & 1) << k for k, i in enumerate(n.op_param))
        else:
            return None
        return r & mask(d)

    changed = True
    while changed:
        changed = False
        for n in nets:
            if n.op in 'm@' or not n.dests or n.dests[0] in val:
                continue
            v = ev(n)
            if v is not None:
                val[n.dests[0]] = v
                changed = True
    return val


def constant_register_proviso(src, res, inputs, memmap_by_id, src_sim_mems):
    """C04's sanctioned case only: registers of the source that the optimize result no longer has AND whose next
    value is (transitively) a compile-time constant.  Returns the source's traces when each of them starts out holding
    that constant, or None when there is no such register.  A register eliminated for any other reason (e.g. merged
    with another one) is NOT compensated."""
    consts = compile_time_constants(src)
    regs = sorted((r for r in src.wirevector_subset(pyrtl.Register)
                   if not isinstance(res.wirevector_by_name.get(r.name), pyrtl.Register) and r in consts),
                  key=lambda w: w.name)
    if not regs:
        return None
    settled = {r: consts[r] for r in regs}
    psim, ptr = simulate(src, inputs, memmap_by_id, regmap=settled, src_mems=src_sim_mems)
    return {'regs': {r.name: v for r, v in settled.items()},
            'trace_all': {nm: list(v) for nm, v in ptr.trace.items()},
            'out_trace': out_trace(src, ptr, len(inputs)), 'mem_final': final_memories(src, psim)}


# ---------------------------------------------------------------- edits

def driver(block, w):
    for n in block.logic:
        if any(d is w for d in n.dests):
            return n
    return None


def apply_edit(block, kind, rng, k):
    """mutate `block` through its own objects only; returns a description or None"""
    ws = sorted(block.wirevector_set, key=lambda w: w.name)
    if kind == 'add_net':
        cands = [w for w in ws if not isinstance(w, (pyrtl.Output, pyrtl.Const))]
        if not cands:
            return None
        w = rng.choice(cands)
        with pyrtl.set_working_block(block, no_sanity_check=True):
            o = pyrtl.Output(len(w), 'c11_added_%d' % k)
            o <<= ~w
        return 'Output c11_added_%d <<= ~%s' % (k, w.name)
    if kind == 'rename':
        cands = [w for w in ws if not isinstance(w, (pyrtl.Input, pyrtl.Const))]
        if not cands:
            return None
        w = rng.choice(cands)
        old = w.name
        w.name = 'c11_ren_%d' % k
        return 'rename %s -> c11_ren_%d' % (old, k)
    if kind == 'remove':
        outs = [w for w in ws if isinstance(w, pyrtl.Output)]
        if len(outs) < 2:
            return None
        o = rng.choice(outs)
        n = driver(block, o)
        if n is None:
            return None
        block.logic.remove(n)
        block.remove_wirevector(o)
        return 'remove Output %s and its driver' % o.name
    if kind == 'set_reset':
        regs = [w for w in ws if isinstance(w, pyrtl.Register)]
        if not regs:
            return None
        r = rng.choice(regs)
        v = rng.getrandbits(r.bitwidth)
        if v == (r.reset_value or 0):
            v ^= 1
        r.reset_value = v
        return '%s.reset_value = %d' % (r.name, v)
    raise ValueError(kind)


EDIT_KINDS = ['add_net', 'rename', 'remove', 'set_reset']


def probe_edit(block, inputs, memmap_by_id, src_mems, with_sim):
    """edit + sanity_check (+ one simulated step) of `block`, then undo: must work whatever was done to ANOTHER block"""
    logic0, wires0 = set(block.logic), set(block.wirevector_set)
    try:
        cands = sorted((w for w in block.wirevector_set if not isinstance(w, (pyrtl.Output, pyrtl.Const))),
                       key=lambda w: w.name)
        with pyrtl.set_working_block(block, no_sanity_check=True):
            o = pyrtl.Output(len(cands[0]), 'c11_probe')
            o <<= ~cands[0]
        block.sanity_check()
        if with_sim:
            simulate(block, inputs[:1], memmap_by_id, src_mems=src_mems)
    finally:
        for n in set(block.logic) - logic0:
            block.logic.remove(n)
        for w in set(block.wirevector_set) - wires0:
            block.remove_wirevector(w)


def container_mutations(X, rng):
    """[(label, mutate, restore)]: in-place mutation of every mutable Block-level container a copy could alias"""
    muts = []
    ops = sorted(X.legal_ops)
    gone = set(rng.sample(ops, min(len(ops), rng.randint(1, 3)))) | {'~', 'w'}
    gone &= set(ops)
    if rng.random() < 0.5:
        muts.append(('legal_ops.difference_update(%s)' % ''.join(sorted(gone)),
                     lambda: X.legal_ops.difference_update(gone), lambda: X.legal_ops.update(gone)))
    else:
        def discard_all():
            for c in gone:
                X.legal_ops.discard(c)
        muts.append(('legal_ops.discard(%s)' % ''.join(sorted(gone)), discard_all, lambda: X.legal_ops.update(gone)))
    saved_m = dict(X.memblock_by_name)
    muts.append(('memblock_by_name.clear()+junk', lambda: (X.memblock_by_name.clear(),
                                                            X.memblock_by_name.__setitem__('c11_junk', None)),
                 lambda: (X.memblock_by_name.clear(), X.memblock_by_name.update(saved_m))))
    saved_w = dict(X.wirevector_by_name)
    muts.append(('wirevector_by_name.clear()+junk', lambda: (X.wirevector_by_name.clear(),
                                                              X.wirevector_by_name.__setitem__('c11_junk', None)),
                 lambda: (X.wirevector_by_name.clear(), X.wirevector_by_name.update(saved_w))))
    if hasattr(X, 'rtl_assert_dict'):
        saved_a = dict(X.rtl_assert_dict)
        muts.append(('rtl_assert_dict[junk]=..', lambda: X.rtl_assert_dict.__setitem__('c11_junk', Exception('x')),
                     lambda: (X.rtl_assert_dict.clear(), X.rtl_assert_dict.update(saved_a))))
    for attr in ('io_map', 'reg_map', 'mem_map'):
        v = getattr(X, attr, None)
        if isinstance(v, dict):
            def mut(v=v):
                v['c11_junk'] = []
            def undo(v=v):
                v.pop('c11_junk', None)
            muts.append(('%s[junk]=[]' % attr, mut, undo))
    return muts


# ---------------------------------------------------------------- one (design, api, scenario)

def synth_cost(block):
    """rough number of nets synthesize() will produce"""
    c = 0
    for n in block.logic:
        ws = [w.bitwidth for w in n.args] or [1]
        if n.op in '+-':
            c += 2 * max(ws) ** 2
        elif n.op == '*':
            c += 24 * ws[0] * ws[-1]
        elif n.op in '<>':
            c += max(ws) ** 2 + 100
        else:
            c += 8 * max(ws + [w.bitwidth for w in n.dests])
    return c


def build(ctx, i):
    rng = ctx.sub_rng('design', i)
    mode = i % 3
    logs_only = i % 5 == 4        # memory profile: the design's only memories are write-only logs
    ALL = ['&', '|', '^', '~', 'nand', '+', '-', '*', '<', '>', '==', '!=', '<=', '>=', 'mux', 'concat',
           'slice', 'index', 'const', 'trunc', 'zext', 'sext', 'memrd', 'romrd', 'select']
    # cost control: the gate-level forms of + - * < > are quadratic in the width (a 128-bit adder synthesizes to ~27k
    # nets, a 66x66 multiplier to ~130k) and one such design costs 10-60 s.  A design whose estimated synthesized
    # size exceeds the budget is regenerated (same rng stream, so still a function of the seed) from a poorer op set.
    for drop in ([], ['*'], ['*', '<', '>', '<=', '>='], ['*', '<', '>', '<=', '>=', '+', '-']):
        ops = [o for o in ALL if o not in drop]
        if logs_only:
            d = gen_designs.make_design(rng, wide_prob=0.05, max_width=16, allow_mem=False, allow_rom=False, ops_subset=ops)
        elif mode == 0:
            d = gen_designs.make_design(rng, wide_prob=0.0, max_width=8, ops_subset=ops)
        elif mode == 1:
            d = gen_designs.make_design(rng, wide_prob=0.1, max_width=33, ops_subset=ops)
        else:
            d = gen_designs.make_design(rng, wide_prob=0.25, ops_subset=[o for o in ops if o != '*'],
                                        n_ops=rng.randint(4, 12))
        if synth_cost(d.block) <= 20000:
            break
    ncyc = rng.randint(3, 6 if ctx.tier == 'quick' else 12)
    holes = add_padded_rom(rng, d) if rng.random() < 0.6 and not logs_only else None
    dup = add_same_named_memories(rng, d) if rng.random() < 0.5 and not logs_only else None
    kinds = add_memory_kinds(rng, d, read_only=not logs_only) if (rng.random() < 0.6 or logs_only) else None
    if rng.random() < 0.6:
        add_bit_permutations(rng, d)
    if rng.random() < 0.5:
        add_reserved_pins(rng, d)
    if rng.random() < 0.4:
        # history: the source was already transformed IN PLACE before it is copied
        add_masked_pin(rng, d)
        with contextlib.redirect_stdout(io.StringIO()):
            pyrtl.optimize(block=d.block)
        pyrtl.set_working_block(d.block, no_sanity_check=True)
        d.ops.append('history:optimized-in-place')
    _, memmap, inputs = gen_designs.make_stimulus(rng, d, ncyc)
    if kinds is not None:
        for m in kinds:      # initial contents for the write-only and the read-only memory
            memmap[m] = {a: gen_designs.boundary_value(rng, m.bitwidth)
                         for a in range(1 << m.addrwidth) if rng.random() < 0.6}
    if dup is not None:
        # different initial contents, and both read at an initialised address in cycle 0
        (m1, m2), bw = dup
        v1 = gen_designs.boundary_value(rng, bw)
        memmap[m1] = {0: v1, 1: v1 ^ 1}
        memmap[m2] = {0: v1 ^ ((1 << bw) - 1), 1: v1}
        inputs[0]['c11_da'] = 0
    if holes is not None:
        # make sure the run reads outside AND inside the romdata
        inside, outside = holes
        inputs[0]['c11_ra'] = rng.choice(outside)
        if inside:
            inputs[1]['c11_ra'] = rng.choice(inside)
        inputs[-1]['c11_ra'] = rng.choice(outside)
    memmap_by_id = {m.id: dict(c) for m, c in memmap.items()}
    return d, memmap, memmap_by_id, inputs


def add_bit_permutations(rng, d):
    """selects that take ALL bits of a wire in a non-ascending order -- the bit-reversal idiom w[::-1], reversed
    partial slices, whole-wire ascending slices next to them -- and bit permutations rebuilt with concat; each feeds
    an Output directly and through more logic, and (when there is one) a register"""
    pool = sorted((w for w in d.block.wirevector_set
                   if not isinstance(w, (pyrtl.Output, pyrtl.Const)) and 2 <= len(w) <= 40), key=lambda w: w.name)
    if not pool:
        return
    with pyrtl.set_working_block(d.block, no_sanity_check=True):
        for k in range(rng.randint(1, 3)):
            w = rng.choice(pool)
            n = len(w)
            rev = w[::-1]
            o = pyrtl.Output(n, 'c11_rev%d' % k)
            o <<= rev
            other = gen_designs.fit(rng, rng.choice(pool), n)
            o2 = pyrtl.Output(n, 'c11_revmix%d' % k)
            o2 <<= (rev & other) | other[::-1] if rng.random() < 0.5 else rev ^ w[:]
            if n >= 3:
                j = rng.randint(1, n - 1)
                o3 = pyrtl.Output(j + 1, 'c11_revpart%d' % k)
                o3 <<= w[j::-1]
            if rng.random() < 0.5:
                perm = list(range(n))
                rng.shuffle(perm)
                o4 = pyrtl.Output(n, 'c11_perm%d' % k)
                o4 <<= pyrtl.concat_list([w[i] for i in perm])
        if d.regs and rng.random() < 0.6:
            r = rng.choice([x for x in d.regs])
            if len(r) >= 2:
                o5 = pyrtl.Output(len(r), 'c11_revreg')
                o5 <<= r[::-1] ^ r
    d.ops.append('bit-permutations')


def add_memory_kinds(rng, d, read_only=True):
    """memories of every port profile: WRITE-ONLY (a log/trace memory, observed through inspect_mem only) and
    READ-ONLY MemBlock (contents from memory_value_map); gen_designs already supplies read+write memories and ROMs.
    Some designs are reduced to write-only memories alone (no read port anywhere)."""
    pool = sorted((w for w in d.block.wirevector_set if not isinstance(w, (pyrtl.Output, pyrtl.Const))),
                  key=lambda w: w.name)
    out = []
    with pyrtl.set_working_block(d.block, no_sanity_check=True):
        aw, bw = rng.choice([1, 2, 3]), rng.choice([1, 2, 4, 7])
        wa = pyrtl.Input(aw, 'c11_wa')
        log = pyrtl.MemBlock(bitwidth=bw, addrwidth=aw, name='c11_log', max_read_ports=None, asynchronous=True)
        data = gen_designs.fit(rng, rng.choice(pool), bw)
        if rng.random() < 0.6:
            en = rng.choice(pool)
            log[wa] <<= pyrtl.MemBlock.EnabledWrite(data, en[rng.randrange(len(en))])
        else:
            log[wa] <<= data
        d.inputs.append(wa)
        out.append(log)
        if read_only and rng.random() < 0.6:
            aw2, bw2 = rng.choice([1, 2, 3]), rng.choice([1, 3, 8])
            ra = pyrtl.Input(aw2, 'c11_roa')
            ro = pyrtl.MemBlock(bitwidth=bw2, addrwidth=aw2, name='c11_readonly', max_read_ports=None, asynchronous=True)
            o = pyrtl.Output(bw2, 'c11_readonly_out')
            o <<= ro[ra]
            d.inputs.append(ra)
            out.append(ro)
    d.mems.extend(out)
    d.ops.append('memory-kinds:write-only' + ('+read-only' if len(out) > 1 else ''))
    return out


def add_reserved_pins(rng, d):
    """declared but unused interface pins (legal: sanity_check accepts unconnected Inputs and Consts): part of the
    design's interface, so of every copy's too"""
    with pyrtl.set_working_block(d.block, no_sanity_check=True):
        for k in range(rng.randint(1, 2)):
            p = pyrtl.Input(rng.choice([1, 2, 5, 33]), 'c11_spare%d' % k)
            d.inputs.append(p)
        if rng.random() < 0.5:
            pyrtl.Const(rng.getrandbits(3), bitwidth=3, name='c11_spare_const')
    d.ops.append('reserved-pins')


def add_masked_pin(rng, d):
    """a 1-bit pin whose only use is masked by a constant (pin & 0 | x): an in-place optimize() folds the gate away
    and keeps the pin, which is then connected to nothing"""
    with pyrtl.set_working_block(d.block, no_sanity_check=True):
        pin = pyrtl.Input(1, 'c11_mpin')
        x = rng.choice(sorted((w for w in d.block.wirevector_set
                               if not isinstance(w, (pyrtl.Output, pyrtl.Const))), key=lambda w: w.name))
        q = pyrtl.Output(1, 'c11_mpin_out')
        q <<= (pin & pyrtl.Const(0, bitwidth=1)) | x[0]
    d.inputs.append(pin)
    d.ops.append('masked-pin')


def add_same_named_memories(rng, d):
    """two DISTINCT MemBlocks deliberately given the same name (legal: names need not be unique), with different
    ports and contents, and two distinct RomBlocks sharing another name with different data"""
    aw = rng.randint(1, 3)
    bw = rng.choice([1, 2, 4, 7])
    with pyrtl.set_working_block(d.block, no_sanity_check=True):
        da = pyrtl.Input(aw, 'c11_da')
        dd = pyrtl.Input(bw, 'c11_dd')
        m1 = pyrtl.MemBlock(bitwidth=bw, addrwidth=aw, name='c11_dupmem', max_read_ports=None, max_write_ports=1,
                            asynchronous=True)
        m2 = pyrtl.MemBlock(bitwidth=bw, addrwidth=aw, name='c11_dupmem', max_read_ports=None, max_write_ports=1,
                            asynchronous=True)
        o1 = pyrtl.Output(bw, 'c11_dup_out1')
        o2 = pyrtl.Output(bw, 'c11_dup_out2')
        o1 <<= m1[da]
        o2 <<= m2[da]
        m1[da] <<= dd                                                    # unconditional write port
        m2[da] <<= pyrtl.MemBlock.EnabledWrite(~dd, enable=da[0])        # different data, enabled
        size = 1 << aw
        t1 = [gen_designs.boundary_value(rng, bw) for _ in range(size)]
        t2 = [v ^ 1 for v in t1]
        r1 = pyrtl.RomBlock(bitwidth=bw, addrwidth=aw, romdata=t1, name='c11_duprom', max_read_ports=None,
                            asynchronous=True)
        r2 = pyrtl.RomBlock(bitwidth=bw, addrwidth=aw, romdata={a: v for a, v in enumerate(t2)}, name='c11_duprom',
                            max_read_ports=None, asynchronous=True)
        o3 = pyrtl.Output(bw, 'c11_dup_out3')
        o4 = pyrtl.Output(bw, 'c11_dup_out4')
        o3 <<= r1[da]
        o4 <<= r2[da]
    d.inputs.extend([da, dd])
    d.mems.extend([m1, m2])
    d.roms.extend([r1, r2])
    d.ops.append('same-named-memories')
    return (m1, m2), bw


def add_padded_rom(rng, d):
    """a RomBlock with pad_with_zeros=True whose romdata does NOT cover the address space (list shorter than
    2^addrwidth / dict with holes), addressed by its own Input so the stimulus can reach the holes; built
    through the public API in the design's block.  Returns (addresses inside the data, addresses outside)."""
    aw = rng.randint(2, 4)
    bw = rng.choice([1, 2, 3, 5, 8, 33])
    size = 1 << aw
    kind = rng.choice(['short-list', 'holey-dict', 'short-tuple'])
    if kind == 'holey-dict':
        inside = sorted(rng.sample(range(size), rng.randint(1, size - 1)))
        data = {a: gen_designs.boundary_value(rng, bw) | 1 for a in inside}
    else:
        n = rng.randint(1, size - 1)
        inside = list(range(n))
        data = [gen_designs.boundary_value(rng, bw) | 1 for _ in inside]
        if kind == 'short-tuple':
            data = tuple(data)
    outside = [a for a in range(size) if a not in inside]
    with pyrtl.set_working_block(d.block, no_sanity_check=True):
        ra = pyrtl.Input(aw, 'c11_ra')
        rom = pyrtl.RomBlock(bitwidth=bw, addrwidth=aw, romdata=data, name='c11_padrom', max_read_ports=None,
                             asynchronous=True, pad_with_zeros=True)
        o = pyrtl.Output(bw, 'c11_padrom_out')
        o <<= rom[ra]
        if d.regs and rng.random() < 0.5:       # a second port addressed from inside the design
            r = d.regs[0]
            o2 = pyrtl.Output(bw, 'c11_padrom_out2')
            o2 <<= rom[r[:aw] if len(r) >= aw else r.zero_extended(aw)]
    d.inputs.append(ra)
    d.roms.append(rom)
    d.ops.append('padromrd:' + kind)
    return inside, outside


def observe(block, inputs, memmap_by_id, src_mems=None):
    sim, tr = simulate(block, inputs, memmap_by_id, src_mems=src_mems)
    return {'fp': fingerprint(block), 'trace_all': {nm: list(v) for nm, v in tr.trace.items()},
            'out_trace': out_trace(block, tr, len(inputs)), 'mem_final': final_memories(block, sim)}


def check_one(ctx, i, api, scenario, src, memmap_by_id, inputs, base, chain=None, bystanders=(), variant=None):
    """`base` = observations of the pristine source (fp, traces). Returns info dict.
    chain: the apis that produced `src` from the generated design (history); bystanders: [(label, block, fp)]
    of earlier blocks that must stay untouched too."""
    ncyc = len(inputs)
    src_sim_mems = None if not chain else chain[1]
    rep = {'seed': ctx.seed, 'tier': ctx.tier, 'design': i, 'api': api, 'scenario': scenario,
           'how': 'gen_designs.make_design(ctx.sub_rng("design", %d), ...) as in C11.build; then %s%s' % (
                      i, ''.join('%s(update_working_block=False) then ' % a for a in (chain[0] if chain else [])),
                      variant_str(api, variant or {})),
           'call': variant_str(api, variant or {}),
           'nets': [str(n) for n in sorted(src.logic, key=str)][:60], 'inputs': inputs,
           'memory_value_map_by_id': {str(k): v for k, v in memmap_by_id.items()}}

    def viol(sig, what, **extra):
        ctx.spec_violation(sig, what, dict(rep, **extra))

    # --- the call
    if scenario == 'other-working-block':
        other = pyrtl.Block()
        pyrtl.set_working_block(other, no_sanity_check=True)
    wb_before = pyrtl.working_block()
    try:
        res = call_api(api, src, variant)
    except Exception as e:  # well-formed, API-built source: a non-updating call must succeed
        pyrtl.set_working_block(src, no_sanity_check=True)
        viol('api-raised:%s:%s' % (api, type(e).__name__),
             '%s raised %r on a well-formed API-built design' % (variant_str(api, variant or {}), e))
        if fingerprint(src) != base['fp']:
            viol('source-modified:%s' % api, '%s raised and left the source modified' % variant_str(api, variant or {}),
                 difference=fp_diff(base['fp'], fingerprint(src)))
        return None
    wb_after = pyrtl.working_block()
    if wb_after is not wb_before:
        which = 'the returned block' if wb_after is res else ('the source' if wb_after is src else 'another block')
        viol('working-block-changed:%s' % api,
             '%s(update_working_block=False) changed working_block(): it is now %s' % (api, which),
             working_block_after=which)
    pyrtl.set_working_block(src, no_sanity_check=True)
    if res is src:
        viol('returned-source:%s' % api, '%s(update_working_block=False) returned the source block itself' % api)
        return None

    # --- source untouched: structure and behaviour
    fp1 = fingerprint(src)
    if fp1 != base['fp']:
        viol('source-modified:%s' % api, '%s(update_working_block=False) modified the block it read' % api,
             difference=fp_diff(base['fp'], fp1))
    for label, blk, fpb in bystanders:
        if fingerprint(blk) != fpb:
            viol('source-modified:%s' % api, '%s(update_working_block=False) on a derived block modified the %s' % (api, label),
                 difference=fp_diff(fpb, fingerprint(blk)))
    _, tr = simulate(src, inputs, memmap_by_id, src_mems=src_sim_mems)
    tr1 = {nm: list(v) for nm, v in tr.trace.items()}
    if tr1 != base['trace_all']:
        bad = sorted(nm for nm in base['trace_all'] if tr1.get(nm) != base['trace_all'][nm])[:3]
        viol('source-behaviour-changed:%s' % api,
             'simulated behaviour of the source differs after %s(update_working_block=False)' % api, wires=bad)

    # --- identity disjointness
    shared_w = set(wire_objects(src)) & set(wire_objects(res))
    if shared_w:
        viol('shared-wire-object:%s' % api, 'source and result of %s share %d wire object(s)' % (api, len(shared_w)),
             shared=sorted(wire_objects(src)[k].name for k in shared_w)[:5])
    # --- the interface (pins, connected or not) is part of the design: same Inputs/Outputs, names and widths
    i0, i1 = interface(src), interface(res)
    for side in ('inputs', 'outputs'):
        if i0[side] != i1[side]:
            viol('interface-changed:%s:%s' % (api, side),
                 '%s(update_working_block=False): the %s of the result differ from the source\'s (missing %s, extra %s)'
                 % (api, side, [x for x in i0[side] if x not in i1[side]][:4], [x for x in i1[side] if x not in i0[side]][:4]),
                 source_interface=i0, result_interface=i1)
    for a0, a1 in shared_containers(src, res):
        viol('shared-block-container:%s:%s' % (api, a1),
             'source.%s and result.%s of %s are the SAME %s object: an in-place change of one block\'s %s changes the other'
             % (a0, a1, api, type(vars(res)[a1]).__name__, a1))
    shared_m = set(mem_objects(src)) & set(mem_objects(res))
    if shared_m:
        viol('shared-memory-object:%s' % api, 'source and result of %s share %d memory object(s)' % (api, len(shared_m)),
             shared=sorted(mem_objects(src)[k].name for k in shared_m)[:5])
    if fingerprint(res)['backptr']:
        viol('wire-owned-by-other-block:%s' % api, 'a wire of the result has _block pointing at another block',
             wires=fingerprint(res)['backptr'][:5])
    for k, m in mem_objects(res).items():
        if isinstance(m, pyrtl.RomBlock):
            for m0 in mem_objects(src).values():
                if isinstance(m0, pyrtl.RomBlock) and m0.data is m.data and not callable(m.data):
                    ctx.count('rom_data_container_shared', api)

    # --- attributes: registers' reset values, memories (id, widths, async, ROM contents)
    reset_dropped = []
    for r, lst in result_registers(api, src, res):
        for w, bit in lst:
            want = r.reset_value if (bit is None or r.reset_value is None) else (r.reset_value >> bit) & 1
            if w.reset_value != want:
                reset_dropped.append((r.name, r.reset_value, w.name, w.reset_value))
    effective = [x for x in reset_dropped if (x[1] or 0) != (x[3] or 0) or (x[1] is None) != (x[3] is None)]
    if reset_dropped:
        viol('reset-value-dropped:%s' % api,
             '%s(update_working_block=False): register reset_value not carried to the result '
             '(%s: %r -> %s: %r)' % ((api,) + reset_dropped[0]), registers=reset_dropped[:6])
    src_m, res_m = mems_of(src), mems_of(res)
    for mid_, m0 in sorted(src_m.items()):
        m1 = res_m.get(mid_)
        if m1 is None:
            if api == 'copy_block':
                viol('memory-missing:%s' % api, 'memory id %d absent from the result' % mid_)
            continue
        a0, a1 = mem_attrs(m0), mem_attrs(m1)
        for nm, x0, x1 in zip(MEM_ATTR_NAMES, a0, a1):
            if x0 != x1:
                viol('memory-attribute-changed:%s:%s' % (api, nm),
                     '%s: memory %s attribute %s is %r in the source and %r in the result' % (api, m0.name, nm, x0, x1))
        if (len(m0.readport_nets), len(m0.writeport_nets)) != (len(m1.readport_nets), len(m1.writeport_nets)):
            ctx.count('result_mem_port_lists_differ', api)

    # --- behaviour of the result from reset: vs the source's real trace (itself checked against
    #     the Coq reference semantics of the source dump in run())
    res_trace = None
    src_mems = mems_of(src)
    f19 = []
    try:
        rsim, rtr = simulate(res, inputs, memmap_by_id, src_mems=src_mems, notes=f19, strict=True)
        res_trace = out_trace(res, rtr, ncyc)
        res_mem = final_memories(res, rsim)
        want_mem = dict(base.get('mem_final', {}))
        if 'mem_final' in base and {k: v for k, v in res_mem.items() if k in want_mem} != want_mem and api == 'optimize':
            # same proviso as for the traces (C04): compare with the source started in the settled state of the
            # registers the pass eliminated
            pv = constant_register_proviso(src, res, inputs, memmap_by_id, src_sim_mems)
            if pv is not None and {k: v for k, v in res_mem.items() if k in pv['mem_final']} == pv['mem_final']:
                ctx.count('optimize_constant_register_proviso', 'memory-difference-explained-not-flagged')
                want_mem = pv['mem_final']
        if 'mem_final' in base and {k: v for k, v in res_mem.items() if k in want_mem} != want_mem:
            badm = sorted(k for k in want_mem if res_mem.get(k) != want_mem[k])
            viol('final-memory-differs:%s' % api,
                 '%s: after the same run the memory contents (inspect_mem) of the result differ from the source\'s: '
                 'memory id %s holds %s, source %s' % (variant_str(api, variant or {}), badm[:1],
                                                        res_mem.get(badm[0]) if badm else None,
                                                        want_mem.get(badm[0]) if badm else None), memories=badm[:4])
        full_trace = {nm: list(v) for nm, v in rtr.trace.items()}
        if f19:
            viol('postsynth-mem-map-not-keyed-by-source-memory:%s' % api,
                 'PostSynthBlock.mem_map of the %s result is keyed by the memories of an internal copy, not by the '
                 'source MemBlocks: memory_value_map keyed by the original memory raises KeyError' % api, memids=f19)
    except (pyrtl.PyrtlError, pyrtl.PyrtlInternalError, KeyError) as e:
        viol('result-not-simulable:%s:%s' % (api, type(e).__name__), 'the source\'s testbench (same input names and values) is rejected by the result of %s: %r' % (api, e))
    if res_trace is not None and res_trace != base['out_trace']:
        explained = False
        if reset_dropped:
            try:
                _, ctr = simulate(res, inputs, memmap_by_id, regmap=reset_compensation(api, src, res), src_mems=src_mems)
                explained = out_trace(res, ctr, ncyc) == base['out_trace']
                full_trace = {nm: list(v) for nm, v in ctr.trace.items()}
            except Exception:
                explained = False
        bad = sorted(nm for nm in base['out_trace'] if res_trace.get(nm) != base['out_trace'][nm])
        # C04's proviso, which C11's "behaviourally identical" inherits for optimize ONLY: the pass may
        # replace a register whose next value is (transitively) a compile-time constant c by c; equivalence
        # is required when every register the pass eliminates starts out holding that constant.
        proviso = None
        if not explained and api == 'optimize':
            proviso = constant_register_proviso(src, res, inputs, memmap_by_id, src_sim_mems)
        if explained:
            viol('reset-value-dropped:%s' % api,
                 '%s(update_working_block=False): result differs from the source from reset because register '
                 'reset values were dropped (output %s: %s instead of %s)' % (
                     api, bad[0] if bad else '?', res_trace.get(bad[0]) if bad else None,
                     base['out_trace'].get(bad[0]) if bad else None), outputs=bad[:4])
        elif proviso is not None and proviso['out_trace'] == res_trace:
            ctx.count('optimize_constant_register_proviso', 'difference-explained-not-flagged')
            ctx.count('optimize_eliminated_registers', len(proviso['regs']))
        else:
            ref_all, ref_out = base['trace_all'], base['out_trace']
            extra = ''
            if proviso is not None:
                ref_all, ref_out = proviso['trace_all'], proviso['out_trace']
                bad = sorted(nm for nm in ref_out if res_trace.get(nm) != ref_out[nm])
                extra = (' even when the %d register(s) the pass eliminated (%s) start out holding their constant'
                         % (len(proviso['regs']), ', '.join(sorted(proviso['regs']))[:80]))
            op, where = attribute(api, src, ref_all, full_trace, ncyc)
            viol('result-behaviour-differs:%s:op=%s' % (api, op),
                 'the result of %s(update_working_block=False) does not behave like the source from reset%s%s '
                 '(output %s: %s, source and reference semantics: %s); first wrong net: %s' % (
                     api, ' even with the reset values re-supplied' if reset_dropped else '', extra,
                     bad[0] if bad else sorted(set(res_trace) ^ set(ref_out))[:1],
                     res_trace.get(bad[0]) if bad else None, ref_out.get(bad[0]) if bad else None, where),
                 outputs=bad[:4], culprit=where)
    return {'res': res, 'res_trace': res_trace, 'effective_reset_drop': bool(effective)}


def edit_phase(ctx, i, api, scenario, d, res, memmap_by_id, inputs, rep_base):
    """edit/simulate sequences on one block; the other must not notice"""
    src = d.block
    script_log = []
    for phase, (x_name, X, Y) in enumerate([('result', res, src), ('source', src, res)]):
        rng = ctx.sub_rng('edits', i, api, scenario, phase)
        fpY = fingerprint(Y)
        try:
            _, trY = simulate(Y, inputs, memmap_by_id, src_mems=mems_of(src))
            baseY = {nm: list(v) for nm, v in trY.trace.items()}
        except Exception:
            baseY = None
        idsY = set(wire_objects(Y)) | set(mem_objects(Y))
        nedits = rng.randint(2, 5)
        for k in range(nedits):
            kind = rng.choice(EDIT_KINDS)
            try:
                desc = apply_edit(X, kind, rng, 100 * phase + k)
            except pyrtl.PyrtlError as e:
                desc = None
                ctx.count('edit_rejected', kind)
            if desc is None:
                continue
            ctx.count('edits', kind)
            script_log.append('%s: %s' % (x_name, desc))
            fpY2 = fingerprint(Y)
            if fpY2 != fpY:
                shared = idsY & (set(wire_objects(X)) | set(mem_objects(X)))
                sig = ('shared-wire-object:%s' % api) if shared else ('edit-leaks:%s:%s' % (api, kind))
                ctx.spec_violation(sig, 'after %s, editing the %s (%s) changed the other block' % (api, x_name, desc),
                                   dict(rep_base, script=list(script_log), difference=fp_diff(fpY, fpY2)))
                fpY = fpY2
        # in-place mutation of X's Block-level containers, then edit + simulate Y
        # cost control (does not change the designs): on very large blocks (wide multipliers after synthesize) every
        # sanity_check / Simulation costs seconds, so only the first two containers are probed and without simulation
        big = len(X.logic) + len(Y.logic) > 6000
        for mi, (label, mutate, restore) in enumerate(container_mutations(X, rng)[:2] if big
                                                      else container_mutations(X, rng)):
            mutate()
            try:
                script_log.append('%s: %s' % (x_name, label))
                ctx.count('edits', 'container:' + label.split('.')[0].split('[')[0])
                fpY2 = fingerprint(Y)
                if fpY2 != fpY:
                    ctx.spec_violation('shared-block-container:%s:%s' % (api, label.split('.')[0].split('[')[0]),
                                       'after %s, the in-place change %s of the %s changed the other block' % (api, label, x_name),
                                       dict(rep_base, script=list(script_log), difference=fp_diff(fpY, fpY2)))
                try:
                    probe_edit(Y, inputs, memmap_by_id, mems_of(src), with_sim=(mi == 0 and not big))
                except (pyrtl.PyrtlError, pyrtl.PyrtlInternalError, KeyError, AttributeError, TypeError) as e:
                    ctx.spec_violation('shared-block-container:%s:%s' % (api, label.split('.')[0].split('[')[0]),
                                       'after %s and the in-place change %s of the %s, editing/simulating the OTHER block '
                                       'fails: %r' % (api, label, x_name, e), dict(rep_base, script=list(script_log)))
            finally:
                restore()
        # interleaved simulation: X (with its memory writes) and Y step alternately
        ctx.count('edits_per_sequence', nedits)
        if baseY is None:
            continue
        try:
            memsX, memsY = mems_of(X), mems_of(Y)
            mk = lambda B, mems: pyrtl.Simulation(
                tracer=pyrtl.SimulationTrace(wires_to_track='all', block=B),
                memory_value_map=memory_value_map(B, memmap_by_id, mems_of(src)), block=B)
            simX = mk(X, memsX)
            simY = mk(Y, memsY)
            inX = {w.name for w in X.wirevector_subset(pyrtl.Input)}
            inY = {w.name for w in Y.wirevector_subset(pyrtl.Input)}
            for step in inputs:
                # X runs ahead with different data (so shared state would show)
                simX.step({nm: ((v + 1) & ((1 << X.wirevector_by_name[nm].bitwidth) - 1))
                           for nm, v in adapt_inputs(X, step, False).items() if nm in inX})
                simY.step(adapt_inputs(Y, step, False))
            gotY = {nm: list(v) for nm, v in simY.tracer.trace.items()}
            script_log.append('%s: simulate %d steps interleaved' % (x_name, len(inputs)))
            ctx.count('edits', 'simulate')
            if gotY != baseY:
                bad = sorted(nm for nm in baseY if gotY.get(nm) != baseY[nm])[:3]
                ctx.spec_violation('shared-memory-state:%s' % api,
                                   'after %s, simulating the %s while the other block is being simulated changed '
                                   'the other block\'s trace' % (api, x_name),
                                   dict(rep_base, script=list(script_log), wires=bad))
            for j in set(memsX) & set(memsY):
                if simX.memvalue.get(j) is not None and simX.memvalue.get(j) is simY.memvalue.get(j):
                    ctx.spec_violation('shared-memory-state:%s' % api,
                                       'two Simulations of source and result hold the same memory dict for id %d' % j,
                                       dict(rep_base, script=list(script_log)))
        except (pyrtl.PyrtlError, pyrtl.PyrtlInternalError) as e:
            ctx.count('edited_block_not_simulable', type(e).__name__)
        if fingerprint(Y) != fpY:
            ctx.spec_violation('simulation-modified-block:%s' % api,
                               'simulating the %s changed the fingerprint of the other block' % x_name,
                               dict(rep_base, script=list(script_log), difference=fp_diff(fpY, fingerprint(Y))))
    return script_log


# ---------------------------------------------------------------- driver

def run(ctx, only=None):
    ndesigns = 36 if ctx.tier == 'quick' else 250
    spec_exprs, spec_meta = [], []
    tie_exprs, tie_meta = [], []
    memtie_exprs, memtie_meta = [], []
    for i in (range(ndesigns) if only is None else [only]):
        for ai, api in enumerate(APIS):
            try:
                scenario = 'other-working-block' if (i + ai) % 4 == 3 else 'source-is-working-block'
                d, memmap, memmap_by_id, inputs = build(ctx, i)
                src = d.block
                ncyc = len(inputs)
                # pristine observations of the source
                try:
                    sim0, tr0 = simulate(src, inputs, memmap_by_id)
                except pyrtl.PyrtlError as e:
                    ctx.spec_violation('api-built-design-rejected', 'Simulation rejected an API-built design: %s' % e,
                                       {'seed': ctx.seed, 'design': i})
                    break
                base = {'fp': fingerprint(src),
                        'trace_all': {nm: list(v) for nm, v in tr0.trace.items()},
                        'out_trace': out_trace(src, tr0, ncyc), 'mem_final': final_memories(src, sim0)}
                variant = pick_variant(i, api, scenario)
                ctx.count('call_variants', variant_str(api, variant))
                if ai == 0:
                    dump = nlx.Dump(src, net_order=sim0.ordered_nets)
                    names = dump.names()
                    probes = [(mi_, a) for mi_, m_ in sorted(mems_of(src).items()) if not isinstance(m_, pyrtl.RomBlock)
                              for a in range(1 << m_.addrwidth)]
                    spec_exprs.append('spec_case %s 0 [] %s %s %s' % (dump.coq(), dump.memmap(memmap), dump.inputs(inputs),
                                                                      nlx.pairs(probes)))
                    spec_meta.append(dict(i=i, names=names, probes=probes,
                                          mem=[sim0.memvalue.get(mi_, {}).get(a, 0) for mi_, a in probes], trace=[[tr0.trace[nm][t] for nm in names] for t in range(ncyc)],
                                          nets=[str(n) for n in sorted(src.logic, key=str)][:60], inputs=inputs))
                    for o in d.ops:
                        ctx.count('ops', o)
                    ctx.count('registers', len(d.regs))
                    ctx.count('registers_with_reset', sum(1 for r in d.regs if r.reset_value is not None))
                    ctx.count('memories', len(d.mems))
                    ctx.count('roms', len(d.roms))
                    ctx.count('cycles', ncyc)
                src_canon = nlx.Dump(src, net_order=canon_nets(src)).coq() if api == 'copy_block' else None
                info = check_one(ctx, i, api, scenario, src, memmap_by_id, inputs, base, variant=variant)
                if info is None:
                    continue
                res = info['res']
                if api == 'copy_block':
                    try:
                        cp_canon = nlx.Dump(res, net_order=canon_nets(res)).coq()
                        tie_exprs.append('copy_tie_case %s %s' % (src_canon, cp_canon))
                        tie_meta.append(dict(i=i, scenario=scenario, names=sorted(w.name for w in src.wirevector_set)))
                        sm, rm = mems_of(src), mems_of(res)
                        ids = sorted(k for k in sm if k in rm)
                        if ids:
                            memtie_exprs.append('mem_tie_case [%s]' % '; '.join(mattrs_coq(sm[k]) for k in ids))
                            memtie_meta.append(dict(i=i, scenario=scenario, real=[mattrs_code(rm[k]) for k in ids],
                                                    names=[sm[k].name for k in ids]))
                    except Exception as e:
                        ctx.model_mismatch('the result of copy_block could not be dumped: %r' % e, {'design': i})
                # histories: a second non-updating call on the first result (copy of a copy, synthesize of a
                # copy, optimize of a PostSynthBlock, copy of a PostSynthBlock ...)
                if (i + ai) % 3 == 0 and info['res_trace'] is not None:
                    api2 = APIS[(ai + 1 + i // 3) % 3]
                    try:
                        base2 = observe(res, inputs, memmap_by_id, src_mems=mems_of(src))
                        check_one(ctx, i, api2, scenario, res, memmap_by_id, inputs, base2,
                                  chain=([api], mems_of(src)), bystanders=[('original source', src, fingerprint(src))])
                        ctx.count('chains', '%s>%s' % (api, api2))
                    except (pyrtl.PyrtlError, pyrtl.PyrtlInternalError) as e:
                        ctx.count('chain_not_observable', '%s>%s:%s' % (api, api2, type(e).__name__))
                    pyrtl.set_working_block(src, no_sanity_check=True)
                rep_base = {'seed': ctx.seed, 'tier': ctx.tier, 'design': i, 'api': api, 'scenario': scenario,
                            'nets': [str(n) for n in sorted(src.logic, key=str)][:60], 'inputs': inputs}
                script = edit_phase(ctx, i, api, scenario, d, res, memmap_by_id, inputs, rep_base)
                outs = base['out_trace']
                varying = sum(1 for v in outs.values() if len(set(v)) > 1)
                nontrivial = bool(d.regs or d.mems or d.roms) and 2 * varying >= len(outs)
                ctx.case((base['fp']['nets'], api, scenario, tuple(script)), nontrivial=nontrivial,
                         sample={'design': i, 'api': api, 'scenario': scenario,
                                 'source_fingerprint': fp_hash(base['fp']), 'registers': [wire_attrs(r) for r in d.regs],
                                 'edit_script': script[:6],
                                 'output_trace': dict(list(sorted(outs.items()))[:3])} if i < 2 else None)
                ctx.count('api', api)
                ctx.count('scenario', scenario)
            except Exception:   # one broken case must not hide the others; it is still reported
                import traceback
                ctx.model_mismatch('harness exception in design %d / %s: %s' % (i, api, traceback.format_exc()[-700:]),
                                   {'seed': ctx.seed, 'tier': ctx.tier, 'design': i, 'api': api})
                pyrtl.reset_working_block()
    pyrtl.reset_working_block()

    # ---- search anchor: the real source trace vs the Coq reference semantics of the source dump
    shard = 15 if ctx.tier == 'quick' else 40
    try:
        spec_results = ctx.coq_eval(spec_exprs, IMPORTS, tag='c11spec_%d' % os.getpid(), shard=shard, jobs=12)
    except Exception as e:
        spec_results = []
        ctx.model_mismatch('the reference semantics could not be evaluated on the source dumps: %s' % str(e)[-600:], {})
    for m, r in zip(spec_meta, spec_results):
        if r[0][0] != 1:
            ctx.model_mismatch('wfb is false on an API-built design (premise of C11_wellformed_has_arity)', {'design': m['i']})
        spec_trace = r[2:]
        if list(r[1]) != list(m['mem']):
            k = next(k for k in range(len(m['mem'])) if r[1][k] != m['mem'][k])
            ctx.spec_violation('source-simulation-vs-reference-semantics',
                               'final memory contents of the source (inspect_mem) disagree with Netlist/Sem.v: memory id %d '
                               'address %d holds %s, reference %s' % (m['probes'][k][0], m['probes'][k][1], m['mem'][k], r[1][k]),
                               {'seed': ctx.seed, 'design': m['i'], 'nets': m['nets'], 'inputs': m['inputs']})
        if spec_trace != m['trace']:
            t = next(t for t in range(len(m['trace'])) if spec_trace[t] != m['trace'][t])
            k = next(k for k in range(len(m['names'])) if spec_trace[t][k] != m['trace'][t][k])
            ctx.spec_violation('source-simulation-vs-reference-semantics',
                               'pyrtl.Simulation of the source disagrees with Netlist/Sem.v (cycle %d wire %s: %s vs %s); '
                               'the traces the results were compared with are not the documented behaviour' % (
                                   t, m['names'][k], m['trace'][t][k], spec_trace[t][k]),
                               {'seed': ctx.seed, 'design': m['i'], 'nets': m['nets'], 'inputs': m['inputs']})

    # ---- structural tie for copy_block
    try:
        tie_results = ctx.coq_eval(tie_exprs, IMPORTS, tag='c11tie_%d' % os.getpid(), shard=shard, jobs=12)
    except Exception as e:
        tie_results = []
        ctx.model_mismatch('Pass/Copy.v could not be evaluated: %s' % str(e)[-600:], {})
    for m, r in zip(tie_meta, tie_results):
        model_asis, real, required, misc = r
        rep = {'seed': ctx.seed, 'design': m['i'], 'scenario': m['scenario']}
        if misc[0][1] != 1:
            ctx.model_mismatch('model copy identities are not disjoint from the source (C11_copy_disjoint contradicted)', rep)
        if real != required:
            diffs = [(a, b) for a, b in zip(required, real) if a != b]
            only_reset = (len(real) == len(required) and diffs and
                          all(a[0] == 0 and b[0] == 0 and a[1:3] == b[1:3] and a[3] == 5 and b[3] == 4 for a, b in diffs))
            off = misc[0][0]
            if only_reset:
                nm = m['names'][diffs[0][0][1] - off - 1]
                ctx.spec_violation('reset-value-dropped:copy_block',
                                   'copy_block: the copy is not isomorphic to the source: register %s has reset_value %d '
                                   'in the source and None in the copy' % (nm, diffs[0][0][4]), rep)
            else:
                ctx.spec_violation('copy-not-isomorphic:copy_block',
                                   'copy_block: the copy is not the renaming of the source (first difference: required %s, '
                                   'got %s)' % (diffs[0] if diffs else ('length %d' % len(required), 'length %d' % len(real))),
                                   rep)
        if real != model_asis:
            hint = (' (the model is assembled from Gen/CopyAttrs.v, regenerated from transform.py/memory.py by '
                    'py/genfrag_C11.py: the translated fragments no longer explain what copy_block does)')
            ctx.model_mismatch('Pass/Copy.v copy_block_gen (copy_block assembled from the regenerated fragments) differs from the real copy_block result'
                               + hint, rep)


    # ---- attribute-level tie for memories: generated _make_copy / _get_new_block_mem_instance vs the real copies
    try:
        memtie_results = ctx.coq_eval(memtie_exprs, IMPORTS, tag='c11memtie_%d' % os.getpid(), shard=40, jobs=8) if memtie_exprs else []
    except Exception as e:
        memtie_results = []
        ctx.model_mismatch('Gen/CopyAttrs.v mem_tie_case could not be evaluated: %s' % str(e)[-600:], {})
    for m, r in zip(memtie_meta, memtie_results):
        if [list(x) for x in r] != m['real']:
            k = next(k for k in range(len(m['real'])) if list(r[k]) != m['real'][k])
            ctx.model_mismatch('the attributes of the real copy of memory %s differ from what the translated '
                               'MemBlock/RomBlock._make_copy + _get_new_block_mem_instance give (fields id,name,bitwidth,'
                               'addrwidth,asynchronous,max_read_ports,max_write_ports,is_rom,pad_with_zeros,build_new_roms): '
                               'generated %s, real %s' % (m['names'][k], list(r[k]), m['real'][k]),
                               {'seed': ctx.seed, 'design': m['i'], 'scenario': m['scenario']})
        ctx.count('memory_attribute_tie', len(m['real']))


def replay(ctx, data):
    """re-run the one design named by a replay file (same seed/tier as recorded => same design)"""
    rep = data.get('replay', {})
    print('replaying design %s (%s, %s): %s' % (rep.get('design'), rep.get('api'), rep.get('scenario'),
                                                data.get('what', '')[:200]))
    if 'seed' in rep:
        ctx.seed = rep['seed']
    if 'tier' in rep:
        ctx.tier = rep['tier']
    run(ctx, only=rep.get('design'))
