"""C16: value conversion helpers are range-exact and mutually inverse.

Tie: Gen/Conv.v and Gen/ConvFmt.v (formatted_str_to_val / val_to_formatted_str, whole, statement by
statement) are regenerated from the helpers' source on every run (translator) and the theorems of
Props/C16.v are re-checked against them; on top, every helper is run against the Coq
model (vm_compute) on the same inputs (behavioural correspondence -> model_mismatch).
Search: every helper is run against the mathematical definition written here in plain Python
(representable ranges, v mod 2^w, minimal width, inverse relations) -> spec_violation."""
import enum
import itertools

import pyrtl
from pyrtl.helperfuncs import (infer_val_and_bitwidth, val_to_signed_integer, formatted_str_to_val,
                               val_to_formatted_str, bitpattern_to_val)
from pyrtl.rtllib import libutils

RULE = ('inputs of the conversion helpers: (value, bitwidth|None, signed) exhaustively for |value| <= 300 x '
        'bitwidth in None,0..10, plus +-2^k, +-2^k+-1 (k <= 130) x bitwidths k-1..k+2|None; bool x bitwidth; '
        'verilog-style strings built from (sign, width, radix letter incl. none/upper case, digits with and '
        'without underscores, bitwidth parameter) exhaustively for width <= 6 plus boundary values to width 130, every '
        'digit of every radix in leading/middle/trailing position (all two-digit and sampled three-digit bodies) '
        'and a list of malformed strings; Const on the same triples, also compared directly with '
        'infer_val_and_bitwidth; val_to_signed_integer / twos_comp_repr / '
        'rev_twos_comp_repr on all (value, width) with width <= 10 plus boundaries; all five format types '
        '(s,u,x,b,e + unknown) x widths 1..8 exhaustively over [0,2^w) plus boundaries, and back, plus malformed format '
        'strings (negative / missing / non-numeric width, empty), all against the functions REGENERATED from the source '
        '(Gen/ConvFmt.v); the enum format over '
        'enum_sets of five Enum/IntEnum classes whose names are prefixes/suffixes of each other, one nested, with shared '
        'member names carrying different values, in every relative order (rotations+reversals, sub-sets; thorough: all '
        'permutations) x every requested name (also absent / dotted / partial names) x every member name and value: '
        'the enum denoted is the first with exactly that name (dotted requests: only the two round trips are required); '
        'bit patterns over '
        '{0,1,a,b,?} exhaustively up to length 5 (quick) / 6 (thorough) and sampled up to length 10 (also with '
        '_ and blanks for match_bitpattern) x field tuples (exact, too wide, negative, wrong arity), each '
        'accepted value fed to a simulated match_bitpattern circuit; every entry point that can reject (Const on '
        'int/bool/str/other, infer_val_and_bitwidth, val_to_signed_integer, the two twos-complement helpers, both '
        'formatted-string functions, bitpattern_to_val) called inside a design under construction: the working block '
        '(wires, names, nets) is compared around each call (rejected: unchanged; accepted Const: exactly one valued Const '
        'more; value helpers: unchanged) and the design is then completed and simulated; the former: each '
        'accepted value fed to a simulated match_bitpattern circuit.  A case = one helper call; distinct by '
        '(helper, arguments); all cases are non-trivial calls (error paths are counted separately).')
IMPORTS = 'From PyRTL Require Import Base.PyZ Conv.ConvBase Gen.Conv Conv.Str Conv.Harness.'
COQ_TARGETS = ['theories/Conv/Harness.vo', 'theories/Conv/HarnessFmt.vo']
IMPORTS_FMT = IMPORTS + ' From PyRTL Require Import Gen.ConvFmt Conv.HarnessFmt.'
TRUSTED = [
    'py/checks/C16.py: the mathematical definitions used by the search (representable, v mod 2^w, minimal '
    'width, signed interpretation, positional digits, bit-pattern packing, enum lookup by exact name) in plain Python',
    'coq/theories/Conv/Str.v: models of the Python built-ins the helpers call -- int(s, base), str(), bin()/hex() '
    'slices, s[k], s.split(c), getattr(Enum, name).value, Enum(value).name, the ValueError of a negative shift '
    'count -- proved mutually inverse where that is meaningful (int(str(n)) = n, radix 2..36) and compared with '
    'the real built-ins on every run',
    'coq/theories/Conv/Str.v: hand models of the control skeleton of the string part of _convert_verilog_str (its '
    'table, character literals and default radix are generated; the skeleton is frozen by AST identity in '
    'genfrag_C16 and proved to parse every printed constant), of the Const call sequence validate/infer/post-checks/'
    'validate (proved equal to validate-then-infer; the sequence is checked to be present in the source), of '
    'bitpattern_to_val and a value-level match_bitpattern (proved mutually inverse; match_bitpattern itself is tied '
    'to the real circuit by simulation only)',
]
ASSUMPTIONS = [
    'arguments are Python ints/bools/strs (isinstance(x, WireVector) is false in the model)',
    'shift counts are non-negative in accepted calls: for bitwidth < 1 Python raises ValueError on `>> (w-1)` '
    'where the model shifts the other way; both reject, the exception class is not compared',
    '2 ** (bitwidth - 1) in rev_twos_comp_repr is an integer only for bitwidth >= 1: correspondence and '
    'theorems for rev_twos_comp_repr are for bitwidth >= 1',
    "int(s, base) is modelled for an optional sign followed by ASCII digits of the radix; whitespace, "
    "'_' separators inside the width part, 0x/0b prefixes and non-ASCII digits are outside the model and "
    'outside the generated inputs',
    'bit patterns given to bitpattern_to_val contain no blanks/underscores (it treats them as field names, '
    'match_bitpattern strips them); fields are passed positionally',
    'enum formats: the enum has distinct member values (no aliases) for the text round trip; member and class '
    'names distinct (always true in Python) are explicit premises of the enum theorems',
    'format strings: the width field is read by int() as modelled (ASCII digits, optional sign); a negative width '
    'is rejected by both directions (ValueError of 1 << bitwidth) in the model as in Python',
]


# ---------------------------------------------------------------------------------------------
# Coq term printers
def z(v):
    return str(v) if v >= 0 else '(%d)' % v


def zl(vs):
    return '[' + '; '.join(z(v) for v in vs) + ']'


def oz(w):
    return 'None' if w is None else 'Some %s' % z(w)


def ol(ws):
    return '[' + '; '.join(oz(w) for w in ws) + ']'


def sl(s):
    return zl([ord(c) for c in s])


def sll(ss):
    return '[' + '; '.join(sl(s) for s in ss) + ']'


class _Any(object):
    """stands for a model answer that could not be computed (the generated Coq model does not build):
    equal to everything, indexable, iterable -- so the implementation-vs-definition search still runs"""

    def __eq__(self, other):
        return True

    def __ne__(self, other):
        return False

    def __getitem__(self, k):
        return self

    def __iter__(self):
        return itertools.repeat(self)

    def __bool__(self):
        return False

    __hash__ = None


ANY = _Any()


class Rep(object):
    """an unbounded list of copies of one fallback value"""

    def __init__(self, x):
        self.x = x

    def __getitem__(self, k):
        return self.x

    def __iter__(self):
        return itertools.repeat(self.x)


def model_eval(ctx, F, exprs, tag, fallback=ANY, imports=None, **kw):
    """vm_compute the model; when the model cannot be built (e.g. the source became untranslatable) record the
    broken tie once and return placeholders, so that the search against the definitions still runs"""
    try:
        return ctx.coq_eval(exprs, imports or IMPORTS, tag=tag, **kw)
    except Exception as e:
        F.model_fail('model-unavailable', (0, 0, 0),
                     'the Coq model (Gen/Conv.v + Conv/Str.v) cannot be evaluated; searching without it',
                     {'error': str(e)[-500:]})
        return [fallback] * len(exprs)


def unstr(codes):
    if codes is ANY:
        return ANY
    return None if codes is None else ''.join(chr(c) for c in codes)


# ---------------------------------------------------------------------------------------------
# The mathematical definitions (specification side of the search)
def representable(v, w, signed):
    if w < 1:
        return False
    if signed:
        return -(1 << (w - 1)) <= v < (1 << (w - 1))
    if v >= 0:
        return v < (1 << w)
    return -(1 << (w - 1)) <= v        # negative with explicit width: two's-complement fit


def spec_int(v, w, signed):
    """None = must be rejected, else (encoding, width)."""
    if w is None:
        if v < 0 and not signed:
            return None
        w = 1
        while not representable(v, w, signed):
            w += 1
    elif not representable(v, w, signed):
        return None
    return (v % (1 << w), w)


def spec_bool(b, w, signed):
    if signed or w not in (None, 1):
        return None
    return (1 if b else 0, 1)


def spec_signed_value(u, w):
    """signed reading of the w-bit pattern u in [0, 2^w)"""
    return u if u < (1 << (w - 1)) else u - (1 << w)


def call(f, *a, **k):
    try:
        r = f(*a, **k)
    except pyrtl.PyrtlError:
        return None, 'PyrtlError'
    except Exception as e:  # ValueError / KeyError ... still a rejection
        return None, type(e).__name__
    return r, 'ok'


def tup(r):
    if r is ANY:
        return ANY
    return None if r is None else (int(r[0]), int(r[1]))


def eval_fmt(ctx, F, template, tag, fallback=None, **kw):
    """evaluate with the formatted-string functions regenerated from the source (Gen/ConvFmt.v); if that
    file does not build (untranslatable source) report the broken tie and fall back to the hand-written
    definitions of Conv/Str.v so that the search still runs.  template: exprs with {to_str}/{to_val}/{val}"""
    src = [t.format(to_str='hs_to_str', to_val='hs_to_val', val='hs_val') for t in template]
    try:
        return ctx.coq_eval(src, IMPORTS_FMT, tag=tag, **kw)
    except Exception as e:
        F.model_fail('fmt:generated-model-unavailable', (0, 0, 0),
                     'Gen/ConvFmt.v (formatted-string functions regenerated from the source) cannot be evaluated',
                     {'error': str(e)[-600:]})
        hand = [t.format(to_str='h_to_str', to_val='h_to_val',
                         val='(fun d f e => res_opt (formatted_str_to_val d f e))') for t in template]
        return model_eval(ctx, F, hand, tag + 'hand', fallback=ANY if fallback is None else fallback, **kw)


class Fails(object):
    """collect failures per signature, report the smallest"""

    def __init__(self, ctx):
        self.ctx = ctx
        self.spec = {}
        self.model = {}

    def spec_fail(self, sig, size, what, rep):
        cur = self.spec.get(sig)
        if cur is None:
            self.spec[sig] = [1, size, what, rep]
        else:
            cur[0] += 1
            if size < cur[1]:
                cur[1:] = [size, what, rep]

    def model_fail(self, sig, size, what, rep):
        cur = self.model.get(sig)
        if cur is None:
            self.model[sig] = [1, size, what, rep]
        else:
            cur[0] += 1
            if size < cur[1]:
                cur[1:] = [size, what, rep]

    def flush(self):
        for sig, (n, size, what, rep) in sorted(self.spec.items()):
            self.ctx.spec_violation(sig, '%s (smallest of %d failing inputs)' % (what, n),
                                    dict(rep, seed=self.ctx.seed, tier=self.ctx.tier, failing_inputs=n))
        for sig, (n, size, what, rep) in sorted(self.model.items()):
            self.ctx.model_mismatch('%s: %s (smallest of %d)' % (sig, what, n),
                                    dict(rep, seed=self.ctx.seed, tier=self.ctx.tier))


# ---------------------------------------------------------------------------------------------
def boundary_values(kmax):
    out = []
    for k in range(0, kmax + 1):
        vs = sorted({s * ((1 << k) + d) for s in (1, -1) for d in (-1, 0, 1)})
        ws = [None] + [w for w in (k - 1, k, k + 1, k + 2)]
        out.append((k, vs, ws))
    return out


def check_int(ctx, F):
    kmax = 130 if ctx.tier == 'quick' else 260
    small_vs = list(range(-300, 301)) if ctx.tier == 'quick' else list(range(-700, 701))
    small_ws = [None] + list(range(-1, 11 if ctx.tier == 'quick' else 13))
    groups = [('small', small_vs[i:i + 60], small_ws) for i in range(0, len(small_vs), 60)]
    groups += [('k=%d' % k, vs, ws) for k, vs, ws in boundary_values(kmax)]
    exprs = ['(h_int %s %s, h_const_int %s %s)' % (zl(vs), ol(ws), zl(vs), ol(ws)) for _, vs, ws in groups]
    res = model_eval(ctx, F, exprs, 'c16int', fallback=(ANY, ANY), shard=24, jobs=12)
    pyrtl.reset_working_block()
    n_const = 0
    for (gname, vs, ws), (m_inf, m_const) in zip(groups, res):
        for vi, v in enumerate(vs):
            for wi, w in enumerate(ws):
                for si, signed in enumerate((False, True)):
                    impl, cls = call(infer_val_and_bitwidth, v, w, signed)
                    impl = tup(impl)
                    spec = spec_int(v, w, signed)
                    model = tup(m_inf[vi][wi][si])
                    rep = {'call': 'infer_val_and_bitwidth(%d, bitwidth=%r, signed=%r)' % (v, w, signed),
                           'expected': spec, 'got': impl, 'exception': cls}
                    size = (abs(v).bit_length(), abs(v), w or 0)
                    ctx.case(('int', v, w, signed),
                             sample={'helper': 'infer_val_and_bitwidth', 'args': [v, w, signed], 'result': impl}
                             if (v, w, signed) in ((-8, 4, False), (5, None, True)) else None)
                    ctx.count('int:outcome', cls)
                    ctx.count('int:width', 'None' if w is None else ('<=0' if w <= 0 else ('1-8' if w <= 8 else '9+')))
                    if impl != spec:
                        if (impl is None) != (spec is None):
                            sig = 'int:accept-iff-representable'
                        elif w is None and impl[1] != spec[1]:
                            sig = 'int:minimal-bitwidth'
                        else:
                            sig = 'int:encoding'
                        F.spec_fail(sig, size, 'infer_val_and_bitwidth(%d, %r, %r) = %r, definition says %r'
                                    % (v, w, signed, impl, spec), rep)
                    if impl != model:
                        F.model_fail('int:model', size, 'infer_val_and_bitwidth(%d, %r, %r) = %r, Gen/Conv.v '
                                     'convert_int = %r' % (v, w, signed, impl, model), rep)
                    # Const on the same triple (needs a valid bitwidth argument)
                    cimpl, ccls = call(lambda: (lambda c: (c.val, c.bitwidth))(pyrtl.Const(v, bitwidth=w, signed=signed)))
                    n_const += 1
                    if n_const % 2000 == 0:
                        pyrtl.reset_working_block()
                    cspec = spec if (w is None or w >= 1) else None
                    cmodel = tup(m_const[vi][wi][si])
                    ctx.case(('const-int', v, w, signed))
                    ctx.count('const:outcome', ccls)
                    crep = {'call': 'Const(%d, bitwidth=%r, signed=%r)' % (v, w, signed),
                            'expected': cspec, 'got': cimpl, 'exception': ccls}
                    if cimpl != cspec:
                        F.spec_fail('const:int', size, 'Const(%d, bitwidth=%r, signed=%r) -> %r, definition says %r'
                                    % (v, w, signed, cimpl, cspec), crep)
                    if ccls == 'PyrtlInternalError':
                        F.spec_fail('const:postcheck-fired', size, 'a Const post-check fired', crep)
                    if (w is None or w >= 1) and cimpl != impl:
                        F.spec_fail('const:differs-from-infer', size, 'Const(%d, bitwidth=%r, signed=%r) -> %r but '
                                    'infer_val_and_bitwidth(%d, %r, %r) = %r' % (v, w, signed, cimpl, v, w, signed, impl),
                                    dict(crep, infer=impl))
                    if cimpl != cmodel:
                        F.model_fail('const:model', size, 'Const(%d, %r, %r) -> %r, const_model = %r'
                                     % (v, w, signed, cimpl, cmodel), crep)


def check_bool(ctx, F):
    ws = [None, -1, 0, 1, 2, 8]
    (m_inf, m_const), = model_eval(ctx, F, ['(h_bool %s, h_const_bool %s)' % (ol(ws), ol(ws))], 'c16bool',
                                    fallback=(ANY, ANY))
    pyrtl.reset_working_block()
    for bi, b in enumerate((False, True)):
        for wi, w in enumerate(ws):
            for si, signed in enumerate((False, True)):
                impl = tup(call(infer_val_and_bitwidth, b, w, signed)[0])
                spec = spec_bool(b, w, signed)
                model = tup(m_inf[bi][wi][si])
                ctx.case(('bool', b, w, signed))
                rep = {'call': 'infer_val_and_bitwidth(%r, bitwidth=%r, signed=%r)' % (b, w, signed),
                       'expected': spec, 'got': impl}
                if impl != spec:
                    F.spec_fail('bool:rules', (0, 0, 0), 'infer_val_and_bitwidth(%r, %r, %r) = %r, rules say %r'
                                % (b, w, signed, impl, spec), rep)
                if impl != model:
                    F.model_fail('bool:model', (0, 0, 0), '%r vs convert_bool %r' % (impl, model), rep)
                cimpl = call(lambda: (lambda c: (c.val, c.bitwidth))(pyrtl.Const(b, bitwidth=w, signed=signed)))[0]
                cmodel = tup(m_const[bi][wi][si])
                ctx.case(('const-bool', b, w, signed))
                if cimpl != spec:
                    F.spec_fail('const:bool', (0, 0, 0), 'Const(%r, %r, %r) -> %r, rules say %r'
                                % (b, w, signed, cimpl, spec), rep)
                if (w is None or w >= 1) and cimpl != impl:
                    F.spec_fail('const:differs-from-infer', (0, 0, 0), 'Const(%r, bitwidth=%r, signed=%r) -> %r but '
                                'infer_val_and_bitwidth gives %r' % (b, w, signed, cimpl, impl), dict(rep, infer=impl))
                if cimpl != cmodel:
                    F.model_fail('const:model', (0, 0, 0), 'Const(%r,%r,%r) -> %r vs const_model %r'
                                 % (b, w, signed, cimpl, cmodel), rep)


DIGITS = '0123456789abcdef'
RADIX = {'': 10, 'b': 2, 'o': 8, 'd': 10, 'h': 16, 'x': 16}


def to_base(n, base):
    if n == 0:
        return '0'
    s = ''
    while n:
        s = DIGITS[n % base] + s
        n //= base
    return s


MALFORMED = ['', '-', "'", "4'", "'d3", "4'sd3", "4'SD3", "4d3", "4'd3'd1", "4'dz", "4'b2", "4'o8", "4'hg",
             "4'_", "4'd_", "x'd3", "4''d3", "-'d1", "4'-", "--4'd3", "4'd", "4's", "3", "abc", "4'q1", "4'b"]
ODD_BUT_VALID = ["4'd_3", "4'd3_", "8'b0110_1100", "8'B0110_1100", "4'd-0", "4'd+3", "4'd-3", "+4'd3", "4'D3",
                 "8'HfF", "8'XFf", "4'3", "4'0_3", "-4'd0", "-4'b000", "-0'd0", "0'd0", "0'b0", "0'd1", "12'o7_7"]


def verilog_cases(ctx):
    """(string, construction or None) ; construction = (neg, w, n)"""
    out = []
    wmax = 6 if ctx.tier == 'quick' else 8
    rng = ctx.sub_rng('verilog')
    for w in range(0, wmax + 1):
        for n in range(0, (1 << w) + 2):
            for neg in (False, True):
                for letter in ('', 'b', 'o', 'd', 'h', 'x'):
                    if w > 4 and letter in ('o', 'x', '') and n % 3:
                        continue          # thin the redundant radix letters at the larger widths
                    s = ('-' if neg else '') + str(w) + "'" + letter + to_base(n, RADIX[letter])
                    if rng.random() < 0.1:
                        s = s.upper()
                    out.append((s, (neg, w, n)))
    # every digit of every radix in leading / middle / trailing position (two- and three-digit bodies; in
    # particular the hex digits that are also radix letters), either case, optional underscores, both signs
    for letter in ('b', 'o', 'd', 'h', 'x', ''):
        base = RADIX[letter]
        digs = DIGITS[:base]
        bodies = [a + b for a in digs for b in digs]
        bodies += [a + m + rng.choice(digs) for a in digs for m in digs] if base <= 10 or ctx.tier != 'quick' \
            else [a + m + rng.choice(digs) for a in digs for m in digs if rng.random() < 0.5]
        bodies += [d for d in digs]
        for body in bodies:
            n = int(body, base)
            w = rng.choice([max(1, n.bit_length()), n.bit_length() + 1, 12, 16])
            neg = rng.random() < 0.3
            text = body
            if len(text) > 1 and rng.random() < 0.25:
                k = rng.randrange(1, len(text))
                text = text[:k] + '_' + text[k:]
            s = ('-' if neg else '') + str(w) + "'" + letter + text
            if rng.random() < 0.3:
                s = s.upper()
            out.append((s, (neg, w, n)))
    kmax = 130 if ctx.tier == 'quick' else 260
    for k in list(range(7, kmax + 1)):
        for n in sorted({(1 << (k - 1)) - 1, 1 << (k - 1), (1 << (k - 1)) + 1, (1 << k) - 1, 1 << k}):
            for neg in (False, True):
                letter = rng.choice(['', 'b', 'o', 'd', 'h', 'x'])
                digits = to_base(n, RADIX[letter])
                if rng.random() < 0.3 and len(digits) > 2 and letter:
                    digits = digits[:1] + '_' + digits[1:]
                out.append((('-' if neg else '') + str(k) + "'" + letter + digits, (neg, k, n)))
    return out


def spec_verilog(neg, w, n, passed, signed):
    if signed:
        return None
    if passed is not None and passed != w:
        return None
    return spec_int(-n if neg else n, w, False)


def check_verilog(ctx, F):
    cases = verilog_cases(ctx)
    strings = [s for s, _ in cases] + MALFORMED + ODD_BUT_VALID
    cons = [c for _, c in cases] + [None] * len(MALFORMED) + ['odd'] * len(ODD_BUT_VALID)
    # bitwidth parameters tried per string: None, the string's own width, one more, zero
    chunks = [list(range(i, min(i + 150, len(strings)))) for i in range(0, len(strings), 150)]
    exprs, pws = [], []
    for ch in chunks:
        sub = [strings[i] for i in ch]
        exprs.append('(h_str %s [None; Some 0; Some 1; Some 4; Some 7], h_const_str %s [None; Some 1; Some 4; Some 7])'
                     % (sll(sub), sll(sub)))
    res = model_eval(ctx, F, exprs, 'c16str', fallback=(ANY, ANY), shard=3, jobs=12)
    PW = [None, 0, 1, 4, 7]
    CW = [None, 1, 4, 7]
    pyrtl.reset_working_block()
    nconst = 0
    for ch, (m_inf, m_const) in zip(chunks, res):
        for j, i in enumerate(ch):
            s, con = strings[i], cons[i]
            for pi, passed in enumerate(PW):
                for si, signed in enumerate((False, True)):
                    impl, cls = call(infer_val_and_bitwidth, s, passed, signed)
                    impl = tup(impl)
                    model = tup(m_inf[j][pi][si])
                    ctx.case(('str', s, passed, signed),
                             sample={'helper': 'infer_val_and_bitwidth', 'args': [s, passed, signed], 'result': impl}
                             if s in ("-4'd8", "8'B0110_1100") and passed is None and not signed else None)
                    ctx.count('str:outcome', cls)
                    rep = {'call': 'infer_val_and_bitwidth(%r, bitwidth=%r, signed=%r)' % (s, passed, signed),
                           'got': impl, 'exception': cls}
                    if impl != model:
                        F.model_fail('str:model', (len(s), 0, 0), 'infer_val_and_bitwidth(%r, %r, %r) = %r, '
                                     'Conv/Str.v verilog_str = %r' % (s, passed, signed, impl, model), rep)
                    if con == 'odd':
                        continue
                    spec = None if con is None else spec_verilog(con[0], con[1], con[2], passed, signed)
                    if con is not None:
                        ctx.count('str:width', con[1] if con[1] <= 8 else '9+')
                    if impl != spec:
                        rep['expected'] = spec
                        if con is None:
                            sig = 'verilog-str:malformed-accepted'
                            size = (len(s), 0, 0)
                        else:
                            neg, w, n = con
                            size = (w, n, 0 if passed is None else 1)
                            rep['agrees_with'] = 'infer_val_and_bitwidth(%d, bitwidth=%d)' % (-n if neg else n, w)
                            if neg and w >= 1 and n == (1 << (w - 1)) and impl is None and passed in (None, w):
                                sig = 'verilog-str:most-negative'
                            elif w == 0 and impl is not None:
                                sig = 'verilog-str:zero-width'
                            elif passed == 0 and impl is not None:
                                sig = 'verilog-str:bitwidth-param-zero-ignored'
                            else:
                                sig = 'verilog-str:other'
                        F.spec_fail(sig, size, 'infer_val_and_bitwidth(%r, bitwidth=%r, signed=%r) = %r but the integer '
                                    'path / definition gives %r' % (s, passed, signed, impl, spec), rep)
            if con == 'odd' or (i % 3 and con is not None and con[1] > 4):
                continue
            for pi, passed in enumerate(CW):
                for si, signed in enumerate((False, True)):
                    cimpl, ccls = call(lambda: (lambda c: (c.val, c.bitwidth))(pyrtl.Const(s, bitwidth=passed, signed=signed)))
                    nconst += 1
                    if nconst % 2000 == 0:
                        pyrtl.reset_working_block()
                    cmodel = tup(m_const[j][pi][si])
                    ctx.case(('const-str', s, passed, signed))
                    iimpl = tup(call(infer_val_and_bitwidth, s, passed, signed)[0])
                    if cimpl != iimpl:
                        F.spec_fail('const:differs-from-infer', (len(s), 0, 0), 'Const(%r, bitwidth=%r, signed=%r) -> %r '
                                    'but infer_val_and_bitwidth gives %r' % (s, passed, signed, cimpl, iimpl),
                                    {'call': 'Const(%r, bitwidth=%r, signed=%r)' % (s, passed, signed), 'got': cimpl,
                                     'infer': iimpl})
                    crep = {'call': 'Const(%r, bitwidth=%r, signed=%r)' % (s, passed, signed), 'got': cimpl,
                            'exception': ccls}
                    if cimpl != cmodel:
                        F.model_fail('const:model', (len(s), 0, 0), 'Const(%r, %r, %r) -> %r, const_model = %r'
                                     % (s, passed, signed, cimpl, cmodel), crep)
                    cspec = None if con is None else spec_verilog(con[0], con[1], con[2], passed, signed)
                    if cimpl != cspec:
                        crep['expected'] = cspec
                        neg, w, n = con if con else (False, 0, 0)
                        if con and neg and w >= 1 and n == (1 << (w - 1)) and cimpl is None and passed in (None, w):
                            sig = 'verilog-str:most-negative'
                        else:
                            sig = 'const:verilog-str'
                        F.spec_fail(sig, (w, n, 2), 'Const(%r, bitwidth=%r, signed=%r) -> %r, definition says %r'
                                    % (s, passed, signed, cimpl, cspec), crep)
                    if ccls == 'PyrtlInternalError':
                        F.spec_fail('const:postcheck-fired', (len(s), 0, 0), 'a Const post-check fired', crep)


def check_signed_and_twos(ctx, F):
    wmax = 8 if ctx.tier == 'quick' else 10
    groups = []
    ws = list(range(-1, wmax + 3))
    vs = list(range(-300, 301)) if ctx.tier == 'quick' else list(range(-700, 701))
    for i in range(0, len(vs), 100):
        groups.append((vs[i:i + 100], ws))
    kmax = 130 if ctx.tier == 'quick' else 260
    for k in range(9, kmax + 1):
        b = sorted({s * ((1 << k) + d) for s in (1, -1) for d in (-1, 0, 1)} |
                   {s * ((1 << (k - 1)) + d) for s in (1, -1) for d in (-1, 0, 1)})
        groups.append((b, [k - 1, k, k + 1]))
    exprs = ['(h_vts %s %s, h_twos %s %s)' % (zl(v), zl(w), zl(v), zl(w)) for v, w in groups]
    res = model_eval(ctx, F, exprs, 'c16vts', fallback=(ANY, Rep(Rep((ANY, ANY)))), shard=26, jobs=12)
    for (vs, ws), (m_vts, m_twos) in zip(groups, res):
        for vi, v in enumerate(vs):
            for wi, w in enumerate(ws):
                size = (abs(v).bit_length(), abs(v), w)
                # val_to_signed_integer
                impl, cls = call(val_to_signed_integer, v, w)
                ctx.case(('vts', v, w))
                ctx.count('vts:outcome', cls)
                rep = {'call': 'val_to_signed_integer(%d, %d)' % (v, w), 'got': impl}
                if impl != m_vts[vi][wi]:
                    F.model_fail('vts:model', size, 'val_to_signed_integer(%d, %d) = %r, model %r'
                                 % (v, w, impl, m_vts[vi][wi]), rep)
                if w >= 1 and 0 <= v < (1 << w):
                    want = spec_signed_value(v, w)
                    if impl != want:
                        F.spec_fail('val_to_signed_integer:value', size, 'val_to_signed_integer(%d, %d) = %r, '
                                    'signed reading is %d' % (v, w, impl, want), dict(rep, expected=want))
                if w >= 1 and representable(v, w, True):
                    back = call(val_to_signed_integer, v % (1 << w), w)[0]
                    if back != v:
                        F.spec_fail('val_to_signed_integer:inverts', size,
                                    'val_to_signed_integer(%d mod 2^%d, %d) = %r' % (v, w, w, back),
                                    {'call': 'val_to_signed_integer(%d, %d)' % (v % (1 << w), w), 'expected': v,
                                     'got': back})
                elif w < 1 and impl is not None:
                    F.spec_fail('val_to_signed_integer:bitwidth<1', size, 'accepted bitwidth %d' % w, rep)
                # libutils
                if w < 1:
                    t, tcls = call(libutils.twos_comp_repr, v, w)
                    ctx.case(('twos', v, w))
                    if t is not None:
                        F.spec_fail('twos_comp_repr:bitwidth<1', size, 'twos_comp_repr(%d, %d) = %r' % (v, w, t),
                                    {'call': 'twos_comp_repr(%d, %d)' % (v, w), 'got': t})
                    if t != m_twos[vi][wi][0]:
                        F.model_fail('twos:model', size, 'twos_comp_repr(%d,%d) = %r, model %r'
                                     % (v, w, t, m_twos[vi][wi][0]), {})
                    continue
                t, tcls = call(libutils.twos_comp_repr, v, w)
                r, rcls = call(libutils.rev_twos_comp_repr, v, w)
                ctx.case(('twos', v, w))
                ctx.case(('rev', v, w))
                ctx.count('twos:outcome', tcls)
                ctx.count('rev:outcome', rcls)
                mt, mr = m_twos[vi][wi]
                if t != mt:
                    F.model_fail('twos:model', size, 'twos_comp_repr(%d,%d) = %r, model %r' % (v, w, t, mt),
                                 {'call': 'twos_comp_repr(%d, %d)' % (v, w)})
                if r != mr:
                    F.model_fail('rev:model', size, 'rev_twos_comp_repr(%d,%d) = %r, model %r' % (v, w, r, mr),
                                 {'call': 'rev_twos_comp_repr(%d, %d)' % (v, w)})
                if t is not None:
                    ok = representable(v, w, True) and t == v % (1 << w)
                    back = call(libutils.rev_twos_comp_repr, t, w)[0]
                    if not ok or back != v:
                        F.spec_fail('twos_comp_repr:encoding-or-inverse', size,
                                    'twos_comp_repr(%d, %d) = %r, rev_twos_comp_repr of it = %r' % (v, w, t, back),
                                    {'call': 'rev_twos_comp_repr(twos_comp_repr(%d, %d), %d)' % (v, w, w),
                                     'expected': v, 'got': back, 'encoding': t})
                elif -(1 << (w - 1)) < v < (1 << (w - 1)):
                    F.spec_fail('twos_comp_repr:rejects-representable', size,
                                'twos_comp_repr(%d, %d) rejected' % (v, w), {'call': 'twos_comp_repr(%d, %d)' % (v, w)})
                if r is not None and v >= 0:
                    ok = (v < (1 << w)) and r == spec_signed_value(v, w)
                    back = call(libutils.twos_comp_repr, r, w)[0]
                    if not ok or back != v:
                        F.spec_fail('rev_twos_comp_repr:value-or-inverse', size,
                                    'rev_twos_comp_repr(%d, %d) = %r, twos_comp_repr of it = %r' % (v, w, r, back),
                                    {'call': 'twos_comp_repr(rev_twos_comp_repr(%d, %d), %d)' % (v, w, w),
                                     'expected': v, 'got': back, 'decoded': r})
                elif r is None and 0 <= v < (1 << w) and v != (1 << (w - 1)):
                    F.spec_fail('rev_twos_comp_repr:rejects-valid', size, 'rev_twos_comp_repr(%d, %d) rejected' % (v, w),
                                {'call': 'rev_twos_comp_repr(%d, %d)' % (v, w)})


class Ctl(enum.Enum):
    ADD = 5
    SUB = 12
    NOP = 0
    XORI = 255


ENUM_COQ = '[(%s, [' % sl('Ctl') + '; '.join('(%s, %d)' % (sl(m.name), m.value) for m in Ctl) + '])]'


def spec_to_str(v, ty, w):
    """canonical text of the unsigned w-bit value v"""
    if ty == 's':
        return str(spec_signed_value(v, w))
    if ty == 'u':
        return str(v)
    if ty == 'x':
        return to_base(v, 16)
    if ty == 'b':
        return to_base(v, 2)
    if ty == 'e':
        for m in Ctl:
            if m.value == v:
                return m.name
    return None


def check_formats(ctx, F):
    wmax = 8 if ctx.tier == 'quick' else 10
    groups = []   # (values, formats)
    for w in range(1, wmax + 1):
        fs = ['%s%d' % (t, w) for t in 'suxbq'] + ['e%d/Ctl' % w, 'e%d/Nope' % w]
        vs = list(range(0, 1 << w))
        for i in range(0, len(vs), 256):
            groups.append((w, vs[i:i + 256] + ([-1, -5, 1 << w, (1 << w) + 3] if i == 0 else []), fs))
    # malformed format strings: negative / missing / non-numeric width, empty format
    groups.append((1, [0, 1, 5], ['s-1', 'u-1', 'x-2', 'b-1', 'e-1/Ctl', 's', 'u/', 'x1x', '', 'e/Ctl', 'e3', 'e3/', 'u+2', 's03']))
    kmax = 130 if ctx.tier == 'quick' else 260
    for k in range(wmax + 1, kmax + 1, 1 if ctx.tier == 'thorough' else 3):
        fs = ['%s%d' % (t, k) for t in 'suxb']
        groups.append((k, sorted({0, 1, (1 << (k - 1)) - 1, 1 << (k - 1), (1 << (k - 1)) + 1, (1 << k) - 2, (1 << k) - 1}), fs))
    exprs = ['{to_str} %s %s (%s)' % (zl(vs), sll(fs), ENUM_COQ) for _, vs, fs in groups]
    res = eval_fmt(ctx, F, exprs, 'c16fmt', shard=10, jobs=12)
    back_cases = []      # (data, format, v or None)
    for (w, vs, fs), m in zip(groups, res):
        for vi, v in enumerate(vs):
            for fi, f in enumerate(fs):
                impl, cls = call(val_to_formatted_str, v, f, [Ctl])
                model = unstr(m[vi][fi])
                ctx.case(('to_str', v, f), sample={'helper': 'val_to_formatted_str', 'args': [v, f], 'result': impl}
                         if (v, f) in ((5, 's3'), (12, 'e4/Ctl')) else None)
                ctx.count('fmt:type', f[:1] or '(empty)')
                ctx.count('to_str:outcome', cls)
                rep = {'call': 'val_to_formatted_str(%d, %r, [Ctl])' % (v, f), 'got': impl}
                size = (w, abs(v), 0)
                if impl != model:
                    F.model_fail('to_str:model', size, 'val_to_formatted_str(%d, %r) = %r, model %r' % (v, f, impl, model), rep)
                if 0 <= v < (1 << w) and f[:1] in list('suxbe') and not f.endswith('Nope') \
                        and f[1:].split('/')[0] == str(w) and (f[:1] != 'e' or f.count('/') == 1):
                    want = spec_to_str(v, f[0], w)
                    if impl != want:
                        F.spec_fail('val_to_formatted_str:text:%s' % f[0], size,
                                    'val_to_formatted_str(%d, %r) = %r, canonical text is %r' % (v, f, impl, want),
                                    dict(rep, expected=want))
                    if impl is not None:
                        back_cases.append((impl, f, v, w))
                elif impl is not None:
                    back_cases.append((impl, f, None, w))
    # extra strings for formatted_str_to_val: canonical signed texts and rejected texts
    extra = []
    for w in (1, 2, 3, 8):
        for t in 'suxb':
            for d in ['', '-', 'zz', '12a', '-0', '+5', '007', '-1', '2', '10', 'ff', 'FF', 'a', 'ADD', '1.0']:
                extra.append((d, '%s%d' % (t, w), None, w))
        for d in ['ADD', 'SUB', 'NOP', 'XORI', 'add', '', 'value', '5']:
            extra.append((d, 'e%d/Ctl' % w, None, w))
            extra.append((d, 'e%d/Nope' % w, None, w))
        extra.append(('1', 'q%d' % w, None, w))
    for f in ['s-1', 'u-1', 'x-2', 'b-1', 'e-1/Ctl', 's', 'u/', 'x1x', '', 'e/Ctl', 'e3', 'e3/', 'u+2', 's03']:
        for d in ['1', 'ADD', '-1']:
            extra.append((d, f, None, 1))
    back_cases += extra
    exprs, chunks = [], []
    for i in range(0, len(back_cases), 300):
        ch = back_cases[i:i + 300]
        chunks.append(ch)
        exprs.append('let e := %s in [' % ENUM_COQ + '; '.join('{val} %s %s e' % (sl(d), sl(f))
                                                               for d, f, _, _ in ch) + ']')
    res = eval_fmt(ctx, F, exprs, 'c16fmtback', shard=4, jobs=12)
    for ch, m in zip(chunks, res):
        for (d, f, v, w), mv in zip(ch, m):
            impl, cls = call(formatted_str_to_val, d, f, [Ctl])
            ctx.case(('to_val', d, f))
            ctx.count('to_val:outcome', cls)
            rep = {'call': 'formatted_str_to_val(%r, %r, [Ctl])' % (d, f), 'got': impl}
            size = (w, len(d), 0)
            if impl != mv:
                F.model_fail('to_val:model', size, 'formatted_str_to_val(%r, %r) = %r, model %r' % (d, f, impl, mv), rep)
            if v is not None:
                if impl != v:
                    F.spec_fail('formatted:roundtrip:%s' % f[0], size,
                                'formatted_str_to_val(val_to_formatted_str(%d, %r), %r) = %r' % (v, f, f, impl),
                                dict(rep, expected=v))
                else:
                    again = call(val_to_formatted_str, impl, f, [Ctl])[0]
                    if again != d:
                        F.spec_fail('formatted:roundtrip-text:%s' % f[0], size,
                                    'val_to_formatted_str(formatted_str_to_val(%r, %r), %r) = %r' % (d, f, f, again),
                                    dict(rep, expected=d))
    # model of str()/bin()/hex() and int() directly, on boundaries
    vs = sorted({s * ((1 << k) + dd) for k in range(0, 140, 7) for s in (1, -1) for dd in (-1, 0, 1)} | set(range(-40, 41)))
    (m,) = model_eval(ctx, F, ['h_pystr %s' % zl(vs)], 'c16pystr', fallback=Rep((ANY, ANY, ANY)))
    for v, (a, b, c) in zip(vs, m):
        ctx.case(('pystr', v))
        got = (str(v), bin(v)[2:], hex(v)[2:])
        if got != (unstr(a), unstr(b), unstr(c)):
            F.model_fail('pystr:model', (0, abs(v), 0), 'str/bin/hex of %d: %r vs model %r' % (v, got, (unstr(a), unstr(b), unstr(c))), {})


# ---- the enum format over enum_sets with several, similarly named enums ----------------------
class AluCtl(enum.Enum):          # name ends with "Ctl"; shares member names with Ctl, other values
    ADD = 1
    XOR = 5
    SUB = 3
    NOP = 12


class CtlX(enum.IntEnum):         # name starts with "Ctl"
    ADD = 2
    MUL = 5
    NOP = 7


class tl(enum.Enum):              # name is a proper suffix of "Ctl" / "AluCtl"
    ADD = 9
    HLT = 0


class Decoder(object):
    class Op(enum.IntEnum):       # nested: __name__ 'Op', __qualname__ 'Decoder.Op'
        LD = 3
        ST = 4
        ADD = 12


ENUMS = [Ctl, AluCtl, CtlX, tl, Decoder.Op]


def enum_coq(e):
    return '(%s, [%s])' % (sl(e.__name__), '; '.join('(%s, %d)' % (sl(m.name), int(m.value)) for m in e))


def enum_orders(ctx):
    """orderings of enum_set: every enum before and after every other one (rotations and their reversals),
    sub-sets, single enums; thorough: all permutations"""
    n = len(ENUMS)
    if ctx.tier != 'quick':
        orders = [list(p) for p in itertools.permutations(range(n))]
    else:
        rot = [[(i + k) % n for i in range(n)] for k in range(n)]
        orders = rot + [list(reversed(r)) for r in rot]
    rng = ctx.sub_rng('enum-orders')
    for k in (1, 2, 3):
        for _ in range(4):
            orders.append(rng.sample(range(n), k))
    seen, out = set(), []
    for o in orders:
        if tuple(o) not in seen:
            seen.add(tuple(o))
            out.append(o)
    return out


def spec_enum(es, req):
    """the enum a format 'e<w>/<req>' denotes in enum_set es: the first one whose name is exactly req"""
    for e in es:
        if e.__name__ == req:
            return e
    return None


def check_enum_sets(ctx, F):
    orders = enum_orders(ctx)
    reqs = [e.__name__ for e in ENUMS] + ['Nope', 'Decoder.Op', 'Ct', 'l']
    fs = ['e8/%s' % r for r in reqs]
    vals = sorted({int(m.value) for e in ENUMS for m in e} | {6, 100})
    ds = sorted({m.name for e in ENUMS for m in e} | {'zz', 'Add'})
    lets = ' '.join('let e%d := %s in' % (i, enum_coq(e)) for i, e in enumerate(ENUMS))
    sets = '[' + '; '.join('[' + '; '.join('e%d' % i for i in o) + ']' for o in orders) + ']'
    expr = '%s map (fun es => ({to_str} %s %s es, {to_val} %s %s es)) %s' % (
        lets, zl(vals), sll(fs), sll(ds), sll(fs), sets)
    (res,) = eval_fmt(ctx, F, [expr], 'c16enum', fallback=Rep((ANY, ANY)))
    for o, (m_str, m_val) in zip(orders, res):
        es = [ENUMS[i] for i in o]
        esn = [e.__qualname__ for e in es]
        ctx.count('enum_set:size', len(es))
        for fi, (req, f) in enumerate(zip(reqs, fs)):
            E = spec_enum(es, req)
            for vi, v in enumerate(vals):
                impl, cls = call(val_to_formatted_str, v, f, list(es))
                ctx.case(('enum-to_str', tuple(o), f, v),
                         sample={'helper': 'val_to_formatted_str', 'args': [v, f, esn], 'result': impl}
                         if (v, req, tuple(o[:2])) == (5, 'Ctl', (1, 0)) else None)
                rep = {'call': 'val_to_formatted_str(%d, %r, enum_set=%s)' % (v, f, esn), 'got': impl,
                       'enums': {e.__qualname__: {m.name: int(m.value) for m in e} for e in es}}
                size = (len(es), o.index(ENUMS.index(E)) if E else 0, v)
                want = None
                if E is not None:
                    for m in E:
                        if int(m.value) == v:
                            want = m.name
                            break
                if impl != unstr(m_str[vi][fi]):
                    F.model_fail('enum-to_str:model', size, 'val_to_formatted_str(%d, %r, %s) = %r, model %r'
                                 % (v, f, esn, impl, unstr(m_str[vi][fi])), rep)
                if impl != want and '.' not in req:   # qualified names: only the round trips below are required
                    F.spec_fail('formatted:enum-lookup:to_str', size, 'val_to_formatted_str(%d, %r, enum_set=%s) = %r, '
                                'the enum named %r gives %r' % (v, f, esn, impl, req, want), dict(rep, expected=want))
                if impl is not None:
                    back = call(formatted_str_to_val, impl, f, list(es))[0]
                    ctx.case(('enum-roundtrip', tuple(o), f, v))
                    if back != v:
                        F.spec_fail('formatted:roundtrip:e', size,
                                    'formatted_str_to_val(val_to_formatted_str(%d, %r, %s) = %r, %r, %s) = %r'
                                    % (v, f, esn, impl, f, esn, back),
                                    {'call': 'formatted_str_to_val(%r, %r, enum_set=%s)' % (impl, f, esn),
                                     'expected': v, 'got': back, 'enums': rep['enums']})
            for di, d in enumerate(ds):
                impl, cls = call(formatted_str_to_val, d, f, list(es))
                impl = None if impl is None else int(impl)
                ctx.case(('enum-to_val', tuple(o), f, d))
                ctx.count('enum-to_val:outcome', cls)
                rep = {'call': 'formatted_str_to_val(%r, %r, enum_set=%s)' % (d, f, esn), 'got': impl,
                       'enums': {e.__qualname__: {m.name: int(m.value) for m in e} for e in es}}
                size = (len(es), o.index(ENUMS.index(E)) if E else 0, len(d))
                want = int(E[d].value) if (E is not None and d in E.__members__) else None
                if impl != m_val[di][fi]:
                    F.model_fail('enum-to_val:model', size, 'formatted_str_to_val(%r, %r, %s) = %r, model %r'
                                 % (d, f, esn, impl, m_val[di][fi]), rep)
                if impl != want and '.' not in req:
                    F.spec_fail('formatted:enum-lookup:to_val', size, 'formatted_str_to_val(%r, %r, enum_set=%s) = %r, '
                                'the enum named %r gives %r' % (d, f, esn, impl, req, want), dict(rep, expected=want))
                if impl is not None:
                    # whatever enum the format resolved to, the other direction must resolve to the same one:
                    # the value prints as a name that reads back as the same value (d itself unless d is an alias)
                    again = call(val_to_formatted_str, impl, f, list(es))[0]
                    back = None if again is None else call(formatted_str_to_val, again, f, list(es))[0]
                    canon = next(m.name for m in E if int(m.value) == want) if want is not None else again
                    if again is None or back != impl or again != canon:
                        F.spec_fail('formatted:roundtrip-text:e', size,
                                    'val_to_formatted_str(formatted_str_to_val(%r, %r, %s) = %r) = %r, which reads back as %r'
                                    % (d, f, esn, impl, again, back), dict(rep, expected=canon))


# ---- a rejected call must leave the design being built untouched ------------------------------
def block_snapshot(block):
    wires = sorted((w.name, type(w).__name__, w.bitwidth, getattr(w, 'val', None) if isinstance(w, pyrtl.Const) else None)
                   for w in block.wirevector_set)
    return (tuple(wires), tuple(sorted(block.wirevector_by_name)), tuple(sorted(str(n) for n in block.logic)))


def snapshot_diff(before, after):
    out = {}
    for k, b, a in zip(('wirevector_set', 'wirevector_by_name', 'logic'), before, after):
        if a != b:
            out[k] = {'added': [repr(x) for x in a if x not in b][:6], 'removed': [repr(x) for x in b if x not in a][:6]}
    return out


def begin_design():
    pyrtl.reset_working_block()
    a = pyrtl.Input(4, 'a')
    k = pyrtl.Const(3, bitwidth=4)
    b = pyrtl.WireVector(4, 'b')
    b <<= a & k
    return b


def finish_and_simulate(b):
    """complete the design in the working block and run it; returns None if it behaves, else what went wrong"""
    try:
        o = pyrtl.Output(4, 'o')
        o <<= b ^ pyrtl.Const(5, bitwidth=4)
        sim = pyrtl.Simulation()
        got = []
        for av in (6, 15, 0):
            sim.step({'a': av})
            got.append(sim.inspect('o'))
    except Exception as e:
        return '%s: %s' % (type(e).__name__, str(e)[:200])
    want = [(av & 3) ^ 5 for av in (6, 15, 0)]
    return None if got == want else 'simulated o = %r, expected %r' % (got, want)


def effect_calls(ctx):
    """(entry point, printable call, thunk, is_const) over every entry point of C16 that can reject"""
    rng = ctx.sub_rng('effects')
    calls = []
    vals = sorted(set(range(-9, 10)) | {s * ((1 << k) + d) for k in (4, 8, 31, 64) for s in (1, -1) for d in (-1, 0, 1)})
    for v in vals:
        for w in (None, 0, 1, 3, 4, 9):
            for signed in (False, True):
                calls.append(('Const', 'Const(%d, bitwidth=%r, signed=%r)' % (v, w, signed),
                              (lambda v=v, w=w, signed=signed: pyrtl.Const(v, bitwidth=w, signed=signed)), True))
                if rng.random() < 0.3:
                    calls.append(('infer_val_and_bitwidth', 'infer_val_and_bitwidth(%d, %r, %r)' % (v, w, signed),
                                  (lambda v=v, w=w, signed=signed: infer_val_and_bitwidth(v, w, signed)), False))
    for b in (False, True):
        for w in (None, 0, 1, 2):
            for signed in (False, True):
                calls.append(('Const', 'Const(%r, bitwidth=%r, signed=%r)' % (b, w, signed),
                              (lambda b=b, w=w, signed=signed: pyrtl.Const(b, bitwidth=w, signed=signed)), True))
    strs = MALFORMED + ODD_BUT_VALID + ["2'b111", "2'b11", "-2'b10", "-2'b01", "3'd8", "3'd7", "4'hf", "4'h1f", "8'o777"]
    for sv in strs:
        for w in (None, 2, 4):
            for signed in (False, True):
                calls.append(('Const', 'Const(%r, bitwidth=%r, signed=%r)' % (sv, w, signed),
                              (lambda sv=sv, w=w, signed=signed: pyrtl.Const(sv, bitwidth=w, signed=signed)), True))
        calls.append(('infer_val_and_bitwidth', 'infer_val_and_bitwidth(%r)' % sv,
                      (lambda sv=sv: infer_val_and_bitwidth(sv)), False))
    for other in (None, 1.5, [1], (2, 3)):
        calls.append(('Const', 'Const(%r)' % (other,), (lambda other=other: pyrtl.Const(other)), True))
    for v in (-9, -1, 0, 5, 8, 255):
        for w in (-1, 0, 1, 3, 4):
            calls.append(('val_to_signed_integer', 'val_to_signed_integer(%d, %d)' % (v, w),
                          (lambda v=v, w=w: val_to_signed_integer(v, w)), False))
            calls.append(('twos_comp_repr', 'twos_comp_repr(%d, %d)' % (v, w),
                          (lambda v=v, w=w: libutils.twos_comp_repr(v, w)), False))
            if w >= 1:
                calls.append(('rev_twos_comp_repr', 'rev_twos_comp_repr(%d, %d)' % (v, w),
                              (lambda v=v, w=w: libutils.rev_twos_comp_repr(v, w)), False))
    for d, f in [('zz', 's3'), ('-1', 'u3'), ('12', 'q3'), ('ADD', 'e3/Nope'), ('zz', 'e3/Ctl'), ('ADD', 'e3/Ctl'),
                 ('5', 's3'), ('g', 'x3'), ('2', 'b3'), ('', 'u3')]:
        calls.append(('formatted_str_to_val', 'formatted_str_to_val(%r, %r, [Ctl, AluCtl])' % (d, f),
                      (lambda d=d, f=f: formatted_str_to_val(d, f, [Ctl, AluCtl])), False))
    for v, f in [(6, 'e3/Ctl'), (5, 'e3/Ctl'), (5, 'e3/Nope'), (5, 'q3'), (5, 's0'), (5, 's3'), (-5, 'x3')]:
        calls.append(('val_to_formatted_str', 'val_to_formatted_str(%r, %r, [Ctl, AluCtl])' % (v, f),
                      (lambda v=v, f=f: val_to_formatted_str(v, f, [Ctl, AluCtl])), False))
    for p, fl in [('', []), ('a?', [1]), ('01a', []), ('01a', [2]), ('01a', [1]), ('ab', [1]), ('aab', [4, 0]), ('aab', [-1, 1])]:
        calls.append(('bitpattern_to_val', 'bitpattern_to_val(%r, %s)' % (p, ', '.join(map(str, fl))),
                      (lambda p=p, fl=fl: bitpattern_to_val(p, *fl)), False))
    return calls


def check_rejections_have_no_effect(ctx, F):
    calls = effect_calls(ctx)
    batch = 60
    for i0 in range(0, len(calls), batch):
        b = begin_design()
        block = pyrtl.working_block()
        rejected_here = []
        for entry, text, thunk, is_const in calls[i0:i0 + batch]:
            before = block_snapshot(block)
            res, cls = call(thunk)
            after = block_snapshot(block)
            ctx.case(('effect', text))
            ctx.count('effect:%s' % entry, cls)
            diff = snapshot_diff(before, after)
            rep = {'setup': 'reset_working_block(); a = Input(4,"a"); k = Const(3, bitwidth=4); b = WireVector(4,"b"); b <<= a & k',
                   'call': text, 'outcome': cls, 'working_block_change': diff,
                   'then': 'o = Output(4,"o"); o <<= b ^ Const(5, bitwidth=4); Simulation(); step a=6,15,0'}
            if cls != 'ok':
                rejected_here.append(text)
                if diff:
                    rep['simulation_afterwards'] = finish_and_simulate(b) or 'behaves'
                    # report an integer/bool/string argument in preference to an argument of an improper type
                    plain = 'bitwidth=' in text
                    F.spec_fail('rejected-call-has-effect:%s' % entry, (0 if (plain or not is_const) else 1, len(text), 0),
                                'the rejected call %s changed the working block (%s); building and simulating the design '
                                'afterwards: %s' % (text, ', '.join(sorted(diff)), rep['simulation_afterwards']), rep)
                    b = begin_design()
                    block = pyrtl.working_block()
            elif is_const:
                added = [x for x in after[0] if x not in before[0]]
                ok_delta = (len(added) == 1 and added[0][1] == 'Const' and added[0][3] is not None
                            and after[2] == before[2] and len(after[0]) == len(before[0]) + 1)
                if not ok_delta:
                    F.spec_fail('accepted-const:block-delta', (len(text), 0, 0),
                                'the accepted %s did not add exactly one valued Const wire and no net' % text, rep)
                    b = begin_design()
                    block = pyrtl.working_block()
            elif diff:
                F.spec_fail('pure-helper-touches-block:%s' % entry, (len(text), 0, 0),
                            'the value helper call %s changed the working block' % text, rep)
                b = begin_design()
                block = pyrtl.working_block()
        # the design under construction must still complete and simulate after all these calls
        bad = finish_and_simulate(b)
        ctx.case(('effect-batch', i0))
        if bad:
            F.spec_fail('rejected-call-has-effect:design-broken', (i0, 0, 0),
                        'after %d rejected calls (and the accepted ones) the design no longer builds/simulates: %s'
                        % (len(rejected_here), bad),
                        {'calls_rejected_in_this_block': rejected_here[:40], 'problem': bad, 'seed': ctx.seed})
    pyrtl.reset_working_block()


def pattern_fields(p):
    seen = []
    for c in p:
        if c not in '01' and c not in seen:
            seen.append(c)
    return seen


def spec_b2v(p, fields):
    """the packing definition: every letter's k-th occurrence from the right carries bit k of its field.
    Returns (status, value): 'reject' (empty pattern, '?', wrong arity, a non-negative field that does not
    fit in its number of occurrences), 'accept' (all fields non-negative and fitting) or 'either'
    (negative fields: the helper may accept a sign-extended value; if it does the packing must hold)."""
    if not p or '?' in p:
        return ('reject', None)
    names = pattern_fields(p)
    if len(names) != len(fields):
        return ('reject', None)
    val = dict(zip(names, fields))
    cnt = {c: 0 for c in names}
    out = 0
    for i, c in enumerate(reversed(p)):
        if c == '1':
            out |= 1 << i
        elif c != '0':
            out |= ((val[c] >> cnt[c]) & 1) << i
            cnt[c] += 1
    status = 'accept'
    for c in names:
        if val[c] >= (1 << cnt[c]):
            return ('reject', None)
        if val[c] < 0:
            status = 'either'
    return (status, out)


def spec_match(p, v):
    q = ''.join(p.replace('_', '').split())
    matched = all((c not in '01') or ((v >> i) & 1) == int(c) for i, c in enumerate(reversed(q)))
    names = [c for c in pattern_fields(q) if c != '?']
    fields = []
    for nme in names:
        k, f = 0, 0
        for i, c in enumerate(reversed(q)):
            if c == nme:
                f |= ((v >> i) & 1) << k
                k += 1
        fields.append(f)
    return (1 if matched else 0, fields)


def sim_match(p, values):
    pyrtl.reset_working_block()
    n = len(''.join(p.replace('_', '').split()))
    w = pyrtl.Input(n, 'w')
    m, fs = pyrtl.match_bitpattern(w, p)
    om = pyrtl.Output(1, 'om')
    om <<= m
    outs = []
    for i, x in enumerate(fs):
        o = pyrtl.Output(len(x), 'of%d' % i)
        o <<= x
        outs.append(o)
    sim = pyrtl.Simulation()
    res = []
    for v in values:
        sim.step({'w': v})
        res.append((sim.inspect('om'), [sim.inspect(o.name) for o in outs]))
    return res


def check_bitpatterns(ctx, F):
    rng = ctx.sub_rng('bitpattern')
    lmax = 5 if ctx.tier == 'quick' else 6
    pats = []
    for n in range(1, lmax + 1):
        pats += [''.join(t) for t in itertools.product('01ab?', repeat=n)]
    nlong = 400 if ctx.tier == 'quick' else 4000
    for _ in range(nlong):
        n = rng.randint(lmax + 1, 10)
        alpha = rng.choice(['01ab', '01ab', '01abc', '01ab?', 'ab', '01'])
        pats.append(''.join(rng.choice(alpha) for _ in range(n)))
    pats.append('')
    cases = []
    for p in pats:
        names = pattern_fields(p)
        cnt = {c: p.count(c) for c in names}
        fl = []
        for _ in range(2):
            fl.append([rng.randrange(1 << cnt[c]) for c in names])
        fl.append([(1 << cnt[c]) - 1 for c in names])
        if names:
            fl.append([rng.choice([1 << cnt[c], (1 << cnt[c]) + 1, -1, -(1 << cnt[c]), -(1 << cnt[c]) - 1, -2])
                       if rng.random() < 0.7 else 0 for c in names])
            fl.append([0] * (len(names) - 1))
            fl.append([0] * (len(names) + 1))
        else:
            fl.append([1])
        # dedupe
        seen, fl2 = set(), []
        for f in fl:
            if tuple(f) not in seen:
                seen.add(tuple(f))
                fl2.append(f)
        cases.append((p, fl2))
    exprs, chunks = [], []
    for i in range(0, len(cases), 200):
        ch = cases[i:i + 200]
        chunks.append(ch)
        exprs.append('h_b2v [' + '; '.join('(%s, [%s])' % (sl(p), '; '.join(zl(f) for f in fl)) for p, fl in ch) + ']')
    res = model_eval(ctx, F, exprs, 'c16b2v', shard=3, jobs=12)
    accepted = {}
    for ch, m in zip(chunks, res):
        for (p, fl), mp in zip(ch, m):
            for f, mv in zip(fl, mp):
                impl, cls = call(bitpattern_to_val, p, *f) if f else call(bitpattern_to_val, p)
                spec = spec_b2v(p, f)
                ctx.case(('b2v', p, tuple(f)), sample={'helper': 'bitpattern_to_val', 'args': [p] + f, 'result': impl}
                         if p in ('1a0ab', 'ab?') else None)
                ctx.count('b2v:outcome', cls)
                ctx.count('pattern:length', len(p))
                rep = {'call': 'bitpattern_to_val(%r, %s)' % (p, ', '.join(map(str, f))), 'got': impl, 'expected': list(spec)}
                size = (len(p), sum(abs(x) for x in f), 0)
                if impl != mv:
                    F.model_fail('b2v:model', size, 'bitpattern_to_val(%r, *%r) = %r, model %r' % (p, f, impl, mv), rep)
                bad = ((spec[0] == 'reject' and impl is not None) or (spec[0] == 'accept' and impl is None)
                       or (impl is not None and spec[0] != 'reject' and impl != spec[1]))
                if bad:
                    F.spec_fail('bitpattern_to_val:packing', size, 'bitpattern_to_val(%r, *%r) = %r, packing '
                                'definition gives %r' % (p, f, impl, spec), rep)
                if impl is not None:
                    accepted.setdefault(p, []).append((f, impl))
    # match_bitpattern circuits: all short patterns with fields + a sample, also with blanks/underscores
    mpats = [p for p in pats if p and (len(p) <= 4 or rng.random() < (0.12 if ctx.tier == 'quick' else 0.3))]
    mcases = []
    for p in mpats:
        n = len(p)
        vals = [v for _, v in accepted.get(p, [])]
        vals += [rng.randrange(1 << n) for _ in range(3)] if n > 3 else list(range(1 << n))
        q = p
        if n >= 2 and rng.random() < 0.25:
            k = rng.randrange(1, n)
            q = p[:k] + rng.choice(['_', ' ', ' _', '\t']) + p[k:]
        mcases.append((p, q, sorted(set(vals))))
    exprs, chunks = [], []
    for i in range(0, len(mcases), 150):
        ch = mcases[i:i + 150]
        chunks.append(ch)
        exprs.append('h_match [' + '; '.join('(%s, %s)' % (sl(q), zl(vals)) for _, q, vals in ch) + ']')
    res = model_eval(ctx, F, exprs, 'c16match', fallback=Rep(Rep((ANY, ANY))), shard=3, jobs=12)
    for ch, m in zip(chunks, res):
        for (p, q, vals), mp in zip(ch, m):
            try:
                sims = sim_match(q, vals)
            except Exception as e:   # any exception: one pattern must not abort the run
                F.spec_fail('match_bitpattern:rejects', (len(p), 0, 0), 'match_bitpattern(w, %r) raised %s: %s'
                            % (q, type(e).__name__, e),
                            {'call': 'match_bitpattern(Input(%d), %r)' % (len(p), q)})
                continue
            back = {v: f for f, v in accepted.get(p, [])}
            names = [c for c in pattern_fields(p) if c != '?']
            cnt = {c: p.count(c) for c in names}
            for v, (sm, sf), (mm, mf) in zip(vals, sims, mp):
                ctx.case(('match', q, v))
                ctx.count('match:matched', sm)
                rep = {'call': 'match_bitpattern(w=%d (len %d), %r)' % (v, len(p), q), 'got': [sm, sf]}
                size = (len(p), v, 0)
                if mm is not ANY and (sm, sf) != (1 if mm else 0, list(mf)):
                    F.model_fail('match:model', size, 'match_bitpattern(%d, %r) = %r, model %r' % (v, q, (sm, sf), (mm, mf)), rep)
                want = spec_match(q, v)
                if (sm, sf) != want:
                    F.spec_fail('match_bitpattern:value', size, 'match_bitpattern(%d, %r) = %r, definition %r'
                                % (v, q, (sm, sf), want), dict(rep, expected=list(want)))
                if v in back:
                    f = back[v]
                    wantf = [x % (1 << cnt[c]) for x, c in zip(f, names)]
                    if sm != 1 or sf != wantf:
                        F.spec_fail('bitpattern:roundtrip', size,
                                    'match_bitpattern(bitpattern_to_val(%r, *%r) = %d, %r) = %r' % (p, f, v, q, (sm, sf)),
                                    dict(rep, expected=[1, wantf]))


def run(ctx):
    import time
    F = Fails(ctx)
    for part in (check_int, check_bool, check_verilog, check_signed_and_twos, check_formats, check_enum_sets,
                 check_bitpatterns, check_rejections_have_no_effect):
        t0 = time.time()
        part(ctx, F)
        ctx.count('wall_s_by_part', part.__name__, round(time.time() - t0, 1))
    F.flush()


def replay(ctx, data):
    print(data)
    run(ctx)
