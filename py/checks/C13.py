"""C13: rtllib adders and multipliers are exact for all widths and values.

Per design (generator set x operand widths x parameters) the real PyRTL circuit is built
and simulated on a batch of operand vectors, then compared
  (a) TIE   : with the Gallina models of Lib/Adders.v, Lib/Mult.v, Lib/SeqMult.v evaluated
              by Coq on the same operands (result value, result bitwidth, raising or not;
              `done` and the accumulator on every cycle for the sequential multipliers), and
  (b) SEARCH: with Python integer arithmetic (the specification).
  (t) TRANSLATOR TIE: py/genfrag_C13.py regenerates coq/theories/Gen/C13Src.v from the current
      source: every modelled function of adders.py / multipliers.py / libutils.py must be
      AST-identical to its frozen template (py/c13_src_templates.py) outside 61 expression holes
      (gates, loop conditions, guards, indices, width formulas), which are translated to Gallina;
      Props/C13Src.v (Lib/C13SrcTie.v) proves each regenerated definition is what the model computes.
  (c) STRUCTURAL TIE (kogge_stone): the netlist is walked back from the final concat; the wire
      holding generate bit i after every prefix stage and the propagate wire every update reads
      are recovered, the wiring pattern (bit i of stage k reads bit i-2^k of stage k-1) is checked
      and the simulated values of those internal wires are compared, stage by stage, with the
      model's generate/propagate lists (ks_trace).
"""
import itertools
import multiprocessing
import pyrtl
from pyrtl.rtllib import adders, multipliers

IMPORTS = 'From PyRTL Require Import Lib.C13Harness.'
COQ_TARGETS = ['theories/Lib/C13Harness.vo']
PROPS_FILES = ['theories/Props/C13.v', 'theories/Props/C13Src.v']
RULE = ('translator tie first: every modelled rtllib function must match its frozen template outside 61 '
        'expression holes, which are regenerated to Gen/C13Src.v and proved equal to the model (Props/C13Src.v); '
        'then generator x operand widths x parameters x operand values: kogge_stone, ripple_add, '
        'cla_adder(la_unit_len 1..5) with carry-in; tree_multiplier x {wallace,dada} x '
        '{kogge_stone,ripple_add,cla_adder}; signed_tree_multiplier; carrysave_adder x 3 final adders; '
        'fast_group_adder (2..9 operands) and fused_multiply_adder/generalized_fma x 6 '
        'reducer/adder configurations; direct reducer calls on random column profiles; simple_mult and '
        'complex_mult(shifts) driven cycle by cycle over arbitrary start/operand histories; operand IDENTITY '
        'patterns for every adder/multiplier (the same wire object as several operands, slices / extensions / '
        'complements / concatenations of another operand, Const and Register operands); kogge_stone additionally per prefix stage on its internal '
        'generate/propagate wires (30-36 width pairs up to 64/65 bits).  All width pairs up to the exhaustive bound are '
        'swept over every operand value; mixed widths up to 16 and a few at 63..65 use boundary + seeded '
        'random values.  A case = (generator, parameters, widths, operand vector); it is non-trivial when '
        'at least one operand is non-zero.')
ASSUMPTIONS = [
    'the two float idioms of the source, int(math.ceil(math.log(k, 2))) and int(x * 3 / 2), are translated as the '
    'exact Z.log2_up k and (x * 3) / 2; this is EVALUATED on every run (float_premise) for every operand count '
    'k <= 4096 and every schedule value x <= 4096, far beyond the counts and column heights generated',
    'pyrtl.Simulation computes the documented semantics of the primitive gates (property C01); the exhaustive '
    'small-width sweeps are simulated with pyrtl.FastSimulation for speed (property C02), every other design '
    'with pyrtl.Simulation',
    'exhaustive bounds: operand pairs <= 5 bits (quick) / 6 (thorough), operand triples <= 3 / 4 bits, '
    'sequential multipliers <= 3 / 5 bits; above that boundary + seeded random operand values',
    'sequential multipliers: arbitrary start/operand histories are driven (restart while busy, back-to-back '
    'starts, start held high, operands changing mid-run); the specification is applied to every window in '
    'which, after a start cycle, start stays low and the operands stay those presented with the start -- '
    'whatever the unit was doing before; cycles outside such windows are compared with the model only',
    'direct calls of wallace_reducer/dada_reducer on arbitrary column profiles are compared with the '
    'model only (the property speaks about the adders/multipliers built on them)',
]
TRUSTED = ['py/genfrag_C13.py: template matcher + expression translator (^ & | on one-bit wires -> xorb andb orb; '
           'int comparisons/arithmetic -> Z) producing Gen/C13Src.v; the control skeleton of each modelled function '
           'is pinned to py/c13_src_templates.py (any edit outside an expression hole breaks the tie, fail closed)',
           'py/checks/C13.py: Python integer arithmetic a+b+cin, a*b, signed product mod 2^(wa+wb), '
           'sum a_i*b_i + sum c_j as the specification of the generators',
           'Lib/BitList.v bval/sval/zbits (meaning of a bit list) and Lib/C13Harness.v glue']

RA = [(0, 0), (0, 1), (0, 14), (1, 0), (1, 1), (1, 14)]
ADD_CODES = [0, 1, 14]
RNAME = {0: 'wallace_reducer', 1: 'dada_reducer'}
ANAME = {0: 'kogge_stone', 1: 'ripple_add', 14: 'cla_adder'}


def adder_fn(code):
    if code == 0:
        return adders.kogge_stone
    if code == 1:
        return adders.ripple_add
    la = code - 10
    return lambda a, b, cin=0: adders.cla_adder(a, b, cin, la_unit_len=la)


def red_fn(code):
    return adders.wallace_reducer if code == 0 else adders.dada_reducer


def to_signed(v, w):
    return v - (1 << w) if v >> (w - 1) else v


# --------------------------------------------------------------------------- generator tables
# each entry: (label, builder(list of input wires) -> wire, spec(vals, widths) -> int,
#              spec_raises(widths) -> bool  [documented refusal, not a defect])

def gens_add2():
    g = [('kogge_stone', lambda i: adders.kogge_stone(i[0], i[1], i[2])),
         ('ripple_add', lambda i: adders.ripple_add(i[0], i[1], i[2]))]
    for la in range(1, 6):
        g.append(('cla_adder[la_unit_len=%d]' % la,
                  lambda i, la=la: adders.cla_adder(i[0], i[1], i[2], la_unit_len=la)))
    return g


def gens_mul2():
    g = []
    for r, a in RA:
        g.append(('tree_multiplier[%s,%s]' % (RNAME[r], ANAME[a]),
                  lambda i, r=r, a=a: multipliers.tree_multiplier(i[0], i[1], red_fn(r), adder_fn(a))))
    g.append(('signed_tree_multiplier', lambda i: multipliers.signed_tree_multiplier(i[0], i[1])))
    return g


def gens_tri():
    g = []
    for a in ADD_CODES:
        g.append(('carrysave_adder[%s]' % ANAME[a],
                  lambda i, a=a: adders.carrysave_adder(i[0], i[1], i[2], adder_fn(a))))
    for r, a in RA:
        g.append(('fast_group_adder[%s,%s]' % (RNAME[r], ANAME[a]),
                  lambda i, r=r, a=a: adders.fast_group_adder([i[0], i[1], i[2]], red_fn(r), adder_fn(a))))
    for r, a in RA:
        g.append(('fused_multiply_adder[%s,%s]' % (RNAME[r], ANAME[a]),
                  lambda i, r=r, a=a: multipliers.fused_multiply_adder(i[0], i[1], i[2], False,
                                                                       red_fn(r), adder_fn(a))))
    return g


def spec_value(kind, gi, label, vals, widths, extra):
    """the specification: what the property says the generator returns (unbounded integer)"""
    if kind == 'add2':
        return vals[0] + vals[1] + vals[2]
    if kind == 'mul2':
        if label.startswith('signed'):
            w = widths[0] + widths[1]
            return (to_signed(vals[0], widths[0]) * to_signed(vals[1], widths[1])) % (1 << w)
        return vals[0] * vals[1]
    if kind == 'tri':
        if label.startswith('fused'):
            return vals[0] * vals[1] + vals[2]
        return vals[0] + vals[1] + vals[2]
    if kind == 'fga':
        return sum(vals)
    if kind == 'gfma':
        npairs = extra['npairs']
        s = 0
        for k in range(npairs):
            s += vals[2 * k] * vals[2 * k + 1]
        return s + sum(vals[2 * npairs:])
    raise ValueError(kind)


def spec_may_raise(kind, label, widths):
    # signed_tree_multiplier documents "sign bit required" for one-bit operands
    return kind == 'mul2' and label.startswith('signed') and (widths[0] == 1 or widths[1] == 1)


def clog2(n):
    return (n - 1).bit_length() if n >= 1 else 0


def formula_width(kind, label, widths, extra):
    """the documented result width: longest + ceil(log2(number of terms))"""
    if kind == 'fga':
        return max(widths) + clog2(len(widths))
    if kind == 'tri' and label.startswith('fast_group'):
        return max(widths) + clog2(3)
    if kind == 'tri' and label.startswith('fused'):
        return max(widths[2], widths[0] + widths[1] - 1) + clog2(2)
    if kind == 'gfma':
        n = extra['npairs']
        mult_max = max([widths[2 * i] + widths[2 * i + 1] - 1 for i in range(n)] or [0])
        add_max = max(widths[2 * n:] or [0])
        return max(mult_max, add_max) + clog2(len(widths) - n)
    return None


def signature(kind, label, widths, vals, exp, got, outlen, raised, extra=None):
    base = label.split('[')[0]
    if raised:
        if base == 'carrysave_adder':
            return 'carrysave:width-1-raises' if max(widths) == 1 else 'carrysave:raises'
        if base == 'generalized_fma' and len(widths) <= 2:
            return 'fma:single-term-raises'
        if base == 'fast_group_adder':
            if len(widths) == 1:
                return 'fast_group_adder:single-operand-raises'
            return 'fast_group_adder:raises[%s]' % label.split('[')[1].split(',')[0]
        return base + ':raises'
    if base == 'kogge_stone':
        return 'kogge_stone:cin-propagates' if vals[2] else 'kogge_stone:wrong-sum'
    if base == 'signed_tree_multiplier':
        if vals[0] == 1 << (widths[0] - 1) or vals[1] == 1 << (widths[1] - 1):
            return 'signed_tree_multiplier:most-negative-operand'
        return 'signed_tree_multiplier:wrong-product'
    fw = formula_width(kind, label, widths, extra or {})
    truncated = outlen is not None and exp >= (1 << outlen) and got == exp % (1 << outlen)
    if base in ('fused_multiply_adder', 'generalized_fma'):
        if truncated and fw is not None and outlen < fw:
            return 'fma:result-width-below-formula'      # narrower than longest + ceil(log2(#terms))
        if truncated:
            return 'fma:result-width-too-narrow'         # F11: the formula itself is one bit short
        return 'fma:wrong-result'
    if base == 'fast_group_adder' and truncated:
        return 'fast_group_adder:result-width-too-narrow'
    return base + ':wrong-result'


# --------------------------------------------------------------------------- operand identity patterns
# An operand of a generator need not be a fresh Input: it can be THE SAME wire object as another
# operand, a slice / extension / complement / concatenation of one, a Const or a Register.  A derived
# job lists how each operand is obtained from a few source Inputs; identical derivations yield the very
# same wire object.  The specification and the Coq model only see the operand VALUES.

def op_width(op, sw):
    t = op[0]
    if t in ('in', 'not', 'reg'):
        return sw[op[1]]
    if t == 'slice':
        return op[3] - op[2]
    if t == 'zext':
        return op[2]
    if t == 'const':
        return op[2]
    if t == 'cat':
        return sw[op[1]] + sw[op[2]]
    raise ValueError(op)


def op_value(op, sv, sw):
    t = op[0]
    if t in ('in', 'reg', 'zext'):
        return sv[op[1]]
    if t == 'not':
        return sv[op[1]] ^ ((1 << sw[op[1]]) - 1)
    if t == 'slice':
        return (sv[op[1]] >> op[2]) & ((1 << (op[3] - op[2])) - 1)
    if t == 'const':
        return op[1]
    if t == 'cat':
        return (sv[op[1]] << sw[op[2]]) | sv[op[2]]
    raise ValueError(op)


def op_text(op):
    t = op[0]
    if t == 'in':
        return 'x%d' % op[1]
    if t == 'not':
        return '~x%d' % op[1]
    if t == 'reg':
        return 'Register(next=x%d)' % op[1]
    if t == 'slice':
        return 'x%d[%d:%d]' % (op[1], op[2], op[3])
    if t == 'zext':
        return 'x%d.zero_extended(%d)' % (op[1], op[2])
    if t == 'const':
        return 'Const(%d, bitwidth=%d)' % (op[1], op[2])
    return 'concat(x%d, x%d)' % (op[1], op[2])


def op_wire(op, srcs, cache):
    op = tuple(op)
    if op in cache:
        return cache[op]
    t = op[0]
    if t == 'in':
        w = srcs[op[1]]
    elif t == 'not':
        w = ~srcs[op[1]]
    elif t == 'reg':
        w = pyrtl.Register(len(srcs[op[1]]))
        w.next <<= srcs[op[1]]
    elif t == 'slice':
        w = srcs[op[1]][op[2]:op[3]]
    elif t == 'zext':
        w = srcs[op[1]].zero_extended(op[2])
    elif t == 'const':
        w = pyrtl.Const(op[1], bitwidth=op[2])
    else:
        w = pyrtl.concat(srcs[op[1]], srcs[op[2]])
    cache[op] = w
    return w


def derived_job(kind, src_widths, ops, src_cases, **kw):
    ops = [tuple(o) for o in ops]
    widths = [op_width(o, src_widths) for o in ops]
    cases = [tuple(op_value(o, sv, src_widths) for o in ops) for sv in src_cases]
    return dict(kind=kind, widths=widths, cases=cases,
                derive={'src_widths': list(src_widths), 'ops': ops, 'src_cases': [tuple(c) for c in src_cases]}, **kw)


# --------------------------------------------------------------------------- running PyRTL

def build_and_sim(widths, gens, cases, fast=False, derive=None):
    """build every generator of `gens` on fresh Inputs of the given widths in one block and
    simulate all cases.  Returns (lens, errs, rows)."""
    errs = [None] * len(gens)
    for attempt in range(2):
        pyrtl.reset_working_block()
        if derive is None:
            ins = [pyrtl.Input(w, 'i%d' % k) for k, w in enumerate(widths)]
        else:
            srcs = [pyrtl.Input(w, 'i%d' % k) for k, w in enumerate(derive['src_widths'])]
            cache = {}
            ins = [op_wire(o, srcs, cache) for o in derive['ops']]
        outs = [None] * len(gens)
        lens = [-1] * len(gens)
        dirty = False
        for gi, (label, fn) in enumerate(gens):
            if fn is None or errs[gi] is not None:
                continue
            try:
                o = fn(ins)
                out = pyrtl.Output(len(o), 'o%d' % gi)
                out <<= o
                outs[gi] = out
                lens[gi] = len(o)
            except Exception as e:  # noqa: a generator that raises is an observation, not a crash
                errs[gi] = '%s: %s' % (type(e).__name__, str(e)[:120])
                dirty = True
        if not dirty:
            break
    block = pyrtl.working_block()
    live = [o for o in outs if o is not None]
    rows = []
    if live:
        tracer = pyrtl.SimulationTrace(wires_to_track=live, block=block)
        # exhaustive sweeps (thousands of vectors per design) use FastSimulation for speed;
        # everything else uses the reference-checked pyrtl.Simulation
        sim = (pyrtl.FastSimulation if fast else pyrtl.Simulation)(tracer=tracer, block=block)
        names = ['i%d' % k for k in range(len(widths if derive is None else derive['src_widths']))]
        twice = derive is not None and any(o[0] == 'reg' for o in derive['ops'])
        for vals in (cases if derive is None else derive['src_cases']):
            sim.step(dict(zip(names, vals)))
            if twice:       # a Register operand shows the source value one cycle later
                sim.step(dict(zip(names, vals)))
            rows.append([sim.inspect(o.name) if o is not None else -1 for o in outs])
    else:
        rows = [[-1] * len(gens) for _ in cases]
    pyrtl.reset_working_block()
    return lens, errs, rows


def job_cases(job):
    if job['cases'] == 'all':
        ws = job['widths']
        lo, hi = job.get('arange', (0, 1 << ws[0]))
        return list(itertools.product(range(lo, hi), *[range(1 << w) for w in ws[1:]]))
    return [tuple(c) for c in job['cases']]


def split_exhaustive(job, maxvec):
    """split an exhaustive sweep into ranges of the first operand (parallelism)"""
    ws = job['widths'] + ([1] if job['kind'] == 'add2' else [])
    per_a = 1
    for w in ws[1:]:
        per_a <<= w
    na = 1 << ws[0]
    step = max(1, maxvec // per_a)
    if step >= na:
        return [job]
    return [dict(job, arange=(lo, min(na, lo + step))) for lo in range(0, na, step)]


def job_gens(job):
    k = job['kind']
    if k == 'add2':
        g = gens_add2()
    elif k == 'mul2':
        g = gens_mul2()
    elif k == 'tri':
        g = gens_tri()
    elif k == 'fga':
        r, a = job['ra']
        g = [('fast_group_adder[%s,%s]' % (RNAME[r], ANAME[a]),
              lambda i: adders.fast_group_adder(list(i), red_fn(r), adder_fn(a)))]
    elif k == 'gfma':
        r, a = job['ra']
        npairs = job['npairs']

        def fn(i):
            pairs = [(i[2 * k], i[2 * k + 1]) for k in range(npairs)]
            return multipliers.generalized_fma(pairs, list(i[2 * npairs:]), False, red_fn(r), adder_fn(a))
        g = [('generalized_fma[%s,%s]' % (RNAME[r], ANAME[a]), fn)]
    elif k == 'reduce':
        r, a = job['ra']
        heights = job['heights']

        def fn(i):
            cols, p = [], 0
            for h in heights:
                cols.append(list(i[p:p + h]))
                p += h
            return red_fn(r)(cols, job['rw'], adder_fn(a))
        g = [('%s[%s]' % (RNAME[r], ANAME[a]), fn)]
    else:
        raise ValueError(k)
    sel = job.get('sel')
    if sel is not None:
        g = [(lab, fn if gi in sel else None) for gi, (lab, fn) in enumerate(g)]
    return g


def exec_comb(job):
    gens = job_gens(job)
    widths = list(job['widths'])
    if job['kind'] == 'add2':
        widths = widths[:2] + [1]
    lens, errs, rows = build_and_sim(widths, gens, job_cases(dict(job, widths=widths)),
                                     fast=bool(job.get('exh')), derive=job.get('derive'))
    return {'lens': lens, 'errs': errs, 'rows': rows}


def exec_seq(job):
    """simple_mult / complex_mult: drive (start, A, B) per cycle, return per cycle (result, done)"""
    wa, wb = job['widths']
    pyrtl.reset_working_block()
    A, B, start = pyrtl.Input(wa, 'A'), pyrtl.Input(wb, 'B'), pyrtl.Input(1, 'start')
    try:
        if job['kind'] == 'simple':
            acc, done = multipliers.simple_mult(A, B, start)
        else:
            acc, done = multipliers.complex_mult(A, B, job['shifts'], start)
    except Exception as e:  # noqa
        pyrtl.reset_working_block()
        return {'err': '%s: %s' % (type(e).__name__, str(e)[:120]), 'trace': [], 'rlen': -1}
    ro = pyrtl.Output(len(acc), 'res')
    ro <<= acc
    do = pyrtl.Output(1, 'done')
    do <<= done
    block = pyrtl.working_block()
    sim = pyrtl.Simulation(tracer=pyrtl.SimulationTrace(wires_to_track=[ro, do], block=block), block=block)
    trace = []
    for s, a, b in job['stim']:
        sim.step({'A': a, 'B': b, 'start': s})
        trace.append((sim.inspect('res'), sim.inspect('done')))
    pyrtl.reset_working_block()
    return {'err': None, 'trace': trace, 'rlen': len(acc)}


def exec_job(job):
    """never let one design abort the whole run: an unexpected exception is reported for that design"""
    try:
        if job['kind'] in ('simple', 'complex'):
            return exec_seq(job)
        return exec_comb(job)
    except Exception as e:  # noqa
        import traceback
        pyrtl.reset_working_block()
        return {'fatal': '%s: %s | %s' % (type(e).__name__, str(e)[:200], traceback.format_exc()[-400:])}


# --------------------------------------------------------------------------- Coq expressions

def zlist(xs):
    return '[' + '; '.join('(%d)' % x if x < 0 else str(x) for x in xs) + ']'


def triples(cs):
    return '[' + '; '.join('(%d, %d, %d)' % tuple(c) for c in cs) + ']'


def allc(job, wb, wc):
    lo, hi = job.get('arange', (0, 1 << job['widths'][0]))
    return '(all_cases3r %d %d %d %d)' % (lo, hi, wb, wc)


def coq_expr(job):
    k = job['kind']
    w = job['widths']
    if k == 'add2':
        cases = allc(job, w[1], 1) if job['cases'] == 'all' else triples(job['cases'])
        return 'h_add2 %d %d %s' % (w[0], w[1], cases)
    if k == 'mul2':
        cases = allc(job, w[1], 0) if job['cases'] == 'all' else \
            triples([(c[0], c[1], 0) for c in job['cases']])
        return 'h_mul2 %d %d %s' % (w[0], w[1], cases)
    if k == 'tri':
        cases = allc(job, w[1], w[2]) if job['cases'] == 'all' else triples(job['cases'])
        return 'h_tri %d %d %d %s' % (w[0], w[1], w[2], cases)
    if k == 'fga':
        return 'h_fga %d %d %s [%s]' % (job['ra'][0], job['ra'][1], zlist(w),
                                        '; '.join(zlist(c) for c in job['cases']))
    if k == 'gfma':
        n = job['npairs']
        pw = '[' + '; '.join('(%d, %d)' % (w[2 * i], w[2 * i + 1]) for i in range(n)) + ']'
        cs = []
        for c in job['cases']:
            cs.append('([%s], %s)' % ('; '.join('(%d, %d)' % (c[2 * i], c[2 * i + 1]) for i in range(n)),
                                      zlist(c[2 * n:])))
        return 'h_gfma %d %d %s %s [%s]' % (job['ra'][0], job['ra'][1], pw, zlist(w[2 * n:]), '; '.join(cs))
    if k == 'reduce':
        cs = []
        for c in job['cases']:
            cols, p = [], 0
            for h in job['heights']:
                cols.append(zlist(c[p:p + h]))
                p += h
            cs.append('[' + '; '.join(cols) + ']')
        return 'h_reduce %d %d %d [%s]' % (job['ra'][0], job['ra'][1], job['rw'], '; '.join(cs))
    if k == 'simple':
        if w[0] == 1 or w[1] == 1:
            return 'h_trivial %d %d %s' % (w[0], w[1], triples([(a, b, 0) for s, a, b in job['stim']]))
        return 'h_simple %d %d %s' % (w[0], w[1], triples(job['stim']))
    if k == 'complex':
        return 'h_complex %d %d %d %s' % (w[0], w[1], job['shifts'], triples(job['stim']))
    raise ValueError(k)


# --------------------------------------------------------------------------- case generation

def boundary(w):
    s = {0, 1, (1 << w) - 1, 1 << (w - 1), (1 << (w - 1)) - 1, ((1 << w) - 1) // 3,
         (((1 << w) - 1) // 3) << 1 & ((1 << w) - 1), (1 << w) - 2}
    return sorted(v for v in s if 0 <= v < (1 << w))


def sample_vectors(rng, widths, n, force_pairs=True):
    """boundary x boundary on the first two operands (capped) + seeded random vectors"""
    vecs = []
    bs = [boundary(w) for w in widths]
    if force_pairs:
        for _ in range(n // 2):
            vecs.append(tuple(rng.choice(b) for b in bs))
        # the all-ones / most-negative corners always
        vecs.append(tuple((1 << w) - 1 for w in widths))
        vecs.append(tuple(1 << (w - 1) for w in widths))
        vecs.append(tuple(0 for w in widths))
    while len(vecs) < n:
        vecs.append(tuple(rng.getrandbits(w) for w in widths))
    seen, out = set(), []
    for v in vecs:
        if v not in seen:
            seen.add(v)
            out.append(v)
    return out


def protocol_stim(rng, wa, wb, ops, latency):
    """start pulse with the operands, then hold them with start low for latency+slack cycles"""
    stim, marks = [], []
    for (a, b) in ops:
        marks.append((len(stim), a, b))
        stim.append((1, a, b))
        for _ in range(latency + rng.randint(1, 3)):
            stim.append((0, a, b))
    return stim, marks


def history_stim(rng, wa, wb, latency, nseg):
    """an arbitrary start/operand HISTORY: start pulses (sometimes held high for several cycles,
    with the operands of the last high cycle counting), followed by a stable stretch whose length is
    drawn from {long enough to finish, shorter than the latency (the next start arrives while the
    unit is busy), zero (back-to-back starts)}, sometimes followed by operands changing with start low"""
    stim = []
    for _ in range(nseg):
        a = rng.choice([(1 << wa) - 1, (1 << (wa - 1)) | rng.getrandbits(wa), rng.getrandbits(wa),
                        rng.getrandbits(wa), 1, 0])
        b = rng.choice([(1 << wb) - 1, rng.getrandbits(wb), rng.getrandbits(wb), 1])
        hold = 1 if rng.random() < 0.75 else rng.randint(2, 3)
        for k in range(hold - 1):
            stim.append((1, rng.getrandbits(wa), rng.getrandbits(wb)) if rng.random() < 0.5 else (1, a, b))
        stim.append((1, a, b))
        g = rng.choice([latency + rng.randint(0, 2), latency + rng.randint(0, 2),
                        rng.randint(0, max(0, latency - 1)), rng.randint(1, max(1, latency // 2)), 0])
        stim.extend([(0, a, b)] * g)
        if rng.random() < 0.2:
            stim.extend((0, rng.getrandbits(wa), rng.getrandbits(wb)) for _ in range(rng.randint(1, 2)))
    return stim


def protocol_windows(stim):
    """every start cycle t0 together with the last cycle t_end up to which start stays low and the
    operands stay what they were at t0 (the protocol of the property: operands held stable)"""
    out = []
    for t0, (s, a, b) in enumerate(stim):
        if not s:
            continue
        t = t0
        while t + 1 < len(stim) and stim[t + 1] == (0, a, b):
            t += 1
        out.append((t0, t, a, b))
    return out


def make_jobs(ctx):
    quick = ctx.tier == 'quick'
    jobs = []
    ex2 = 5 if quick else 6          # exhaustive bound for operand pairs
    ex3 = 3 if quick else 4          # exhaustive bound for operand triples
    exs = 3 if quick else 5          # exhaustive bound for the sequential multipliers
    # exhaustive sweeps, smallest widths first (so the first failing case is the smallest)
    for wa in range(1, ex2 + 1):
        for wb in range(1, ex2 + 1):
            jobs += split_exhaustive({'kind': 'add2', 'widths': [wa, wb], 'cases': 'all', 'exh': True}, 512)
            jobs += split_exhaustive({'kind': 'mul2', 'widths': [wa, wb], 'cases': 'all', 'exh': True}, 128)
    for wa in range(1, ex3 + 1):
        for wb in range(1, ex3 + 1):
            for wc in range(1, ex3 + 1):
                jobs += split_exhaustive({'kind': 'tri', 'widths': [wa, wb, wc], 'cases': 'all', 'exh': True}, 128)
    # mixed widths up to 16: boundary + random values
    rng = ctx.sub_rng('mixed')
    npairs = 20 if quick else 200
    nvec = 16 if quick else 60
    pairs = set()
    while len(pairs) < npairs:
        wa, wb = rng.randint(1, 16), rng.randint(1, 16)
        if max(wa, wb) > ex2:
            pairs.add((wa, wb))
    for (wa, wb) in sorted(pairs):
        r = ctx.sub_rng('add2', wa, wb)
        cs = [(a, b, r.randint(0, 1)) for (a, b) in sample_vectors(r, [wa, wb], nvec)]
        cs += [((1 << wa) - 1, (1 << wb) - 1, 1), ((1 << wa) - 1, 0, 1), (0, (1 << wb) - 1, 1)]
        jobs.append({'kind': 'add2', 'widths': [wa, wb], 'cases': cs})
        r = ctx.sub_rng('mul2', wa, wb)
        k = len(jobs)
        jobs.append({'kind': 'mul2', 'widths': [wa, wb], 'cases': sample_vectors(r, [wa, wb], nvec),
                     'sel': None if not quick else [k % 6, (k + 3) % 6 if k % 2 else 6, 6]})
    ntri = 8 if quick else 120
    tris = set()
    while len(tris) < ntri:
        t = (rng.randint(1, 12), rng.randint(1, 12), rng.randint(1, 16))
        if max(t) > ex3:
            tris.add(t)
    # the addend as wide as / wider than the product (F11 shape) is always present
    tris.update([(2, 2, 3), (3, 3, 5), (4, 4, 8), (4, 4, 7), (5, 3, 9)])
    for t in sorted(tris):
        r = ctx.sub_rng('tri', *t)
        k = len(jobs)
        jobs.append({'kind': 'tri', 'widths': list(t), 'cases': sample_vectors(r, list(t), nvec),
                     'sel': None if not quick else [k % 3, 3 + k % 6, 3 + (k + 3) % 6, 9 + k % 6, 9 + (k + 4) % 6]})
    # a few wide ones
    wide = [(64, 64), (63, 65)] if quick else [(63, 63), (64, 64), (65, 65), (63, 65), (65, 64), (64, 1), (1, 65)]
    for (wa, wb) in wide:
        r = ctx.sub_rng('wide', wa, wb)
        cs = [(a, b, r.randint(0, 1)) for (a, b) in sample_vectors(r, [wa, wb], 16 if quick else 40)]
        cs += [((1 << wa) - 1, (1 << wb) - 1, 1), ((1 << wa) - 1, 1, 0), ((1 << wa) - 1, 0, 1)]
        jobs.append({'kind': 'add2', 'widths': [wa, wb], 'cases': cs})
    widem = [((64, 64), [0, 6]), ((63, 65), [4])] if quick else \
        [((63, 63), [0, 6]), ((64, 64), [1, 3]), ((65, 65), [2, 4]), ((63, 65), [5, 6]), ((65, 64), [0, 6])]
    for (wa, wb), sel in widem:
        r = ctx.sub_rng('widemul', wa, wb)
        jobs.append({'kind': 'mul2', 'widths': [wa, wb], 'sel': sel,
                     'cases': sample_vectors(r, [wa, wb], 8 if quick else 20)})
    widet = [((64, 64, 64), [0, 3, 12]), ((21, 22, 43), [9, 13])] if quick else \
        [((64, 64, 64), [0, 1, 2, 3, 7]), ((63, 65, 64), [4, 8]), ((32, 32, 64), [9, 13]),
         ((33, 31, 65), [10, 14]), ((21, 22, 43), [11, 12])]
    for t, sel in widet:
        r = ctx.sub_rng('widetri', *t)
        jobs.append({'kind': 'tri', 'widths': list(t), 'sel': sel,
                     'cases': sample_vectors(r, list(t), 8 if quick else 20)})
    # fast_group_adder with 1..9 operands; generalized_fma with several pairs/addends
    nf = 40 if quick else 300
    for i in range(nf):
        r = ctx.sub_rng('fga', i)
        k = r.choice([1, 2, 3, 3, 4, 5, 6, 7, 8, 9])
        ws = [r.choice([1, 1, 2, 3, 4, 5, 8, 11]) for _ in range(k)]
        jobs.append({'kind': 'fga', 'widths': ws, 'ra': r.choice(RA),
                     'cases': sample_vectors(r, ws, 12)})
    for i in range(nf):
        r = ctx.sub_rng('gfma', i)
        npairs = r.choice([1, 1, 2, 2, 3, 4])
        nadd = r.choice([0, 1, 1, 2, 3])
        ws = [r.choice([1, 2, 2, 3, 4, 5, 7]) for _ in range(2 * npairs)]
        ws += [r.choice([1, 2, 3, 5, 8, 10, 14]) for _ in range(nadd)]
        jobs.append({'kind': 'gfma', 'widths': ws, 'npairs': npairs, 'ra': r.choice(RA),
                     'cases': sample_vectors(r, ws, 12)})
    # many equal-width operands at / near full scale: a result one bit too narrow (wrong
    # log2 rounding of the operand count) must show up as a concrete failing input
    def full_scale(r, ws):
        top = [(1 << w) - 1 for w in ws]
        cs = [tuple(top), tuple(max(0, v - 1) for v in top)]
        for k in (0, len(ws) // 2, len(ws) - 1):
            cs.append(tuple(v - 1 if j == k else v for j, v in enumerate(top)))
            cs.append(tuple(0 if j == k else v for j, v in enumerate(top)))
        cs += [tuple(r.choice([v, v, v - 1, r.getrandbits(w)]) for v, w in zip(top, ws)) for _ in range(4)]
        cs += [tuple(r.getrandbits(w) for w in ws) for _ in range(3)]
        return list(dict.fromkeys(cs))
    k = 0
    for n in (3, 4, 5, 6, 7, 8, 9, 10, 11, 16, 17):
        for w in (2, 3, 4):
            for red in (0, 1):
                r = ctx.sub_rng('fga-full', n, w, red)
                ws = [w] * n
                jobs.append({'kind': 'fga', 'widths': ws, 'ra': (red, ADD_CODES[k % 3]), 'cases': full_scale(r, ws)})
                k += 1
        for w in (2, 3):
            for npairs in (0, 1, 2):
                if n - npairs < 0:
                    continue
                r = ctx.sub_rng('gfma-full', n, w, npairs)
                ws = [w] * (2 * npairs) + [w if npairs == 0 else 2 * w] * (n - npairs)
                jobs.append({'kind': 'gfma', 'widths': ws, 'npairs': npairs, 'ra': (k % 2, ADD_CODES[k % 3]),
                             'cases': full_scale(r, ws)})
                k += 1
    # the _trivial_mult path (a one-bit operand, in particular equal to 1) beyond the exhaustive widths
    for (wa, wb) in [(1, 8), (12, 1), (1, 16), (1, 33), (64, 1)]:
        r = ctx.sub_rng('trivial', wa, wb)
        big = wb if wa == 1 else wa
        vs = [(1 << big) - 1, 1 << (big - 1), 1, 0, r.getrandbits(big), r.getrandbits(big)]
        cs = [(one, v) if wa == 1 else (v, one) for v in vs for one in (1, 0)]
        jobs.append({'kind': 'mul2', 'widths': [wa, wb], 'cases': cs})
    # operand identity patterns: the same wire object as several operands, slices / extensions /
    # complements / concatenations of another operand, Const and Register operands
    def src_cases(r, sw, n=20):
        if sum(sw) <= 8:
            return list(itertools.product(*[range(1 << w) for w in sw]))
        return sample_vectors(r, sw, n)
    I0, I1 = ('in', 0), ('in', 1)
    for w in ((2, 3, 4, 8) if quick else (2, 3, 4, 5, 6, 8, 13, 16)):
        r = ctx.sub_rng('identity', w)
        full = (1 << w) - 1
        pats2 = [[I0, I0], [I0, ('slice', 0, 0, max(1, w - 1))], [('slice', 0, 1, w), I0], [I0, ('zext', 0, w + 2)],
                 [I0, ('not', 0)], [I0, ('const', full, w)], [('const', 5, 3), I0], [('reg', 0), I0],
                 [('reg', 0), ('reg', 0)], [('cat', 0, 0), I0], [('slice', 0, 0, w // 2 + 1), ('slice', 0, 0, w // 2 + 1)]]
        for pi, ops in enumerate(pats2):
            sel = None if w <= 4 else [pi % 6, (pi + 3) % 6, 6]
            jobs.append(derived_job('mul2', [w], ops, src_cases(r, [w]), sel=sel))
        pats_add = [[I0, I0, I1], [I0, I0, ('slice', 0, 0, 1)], [I0, ('slice', 0, 1, w), I1], [I0, ('const', full, w), I1],
                    [('reg', 0), I0, I1], [I0, ('not', 0), I1], [I0, I0, ('const', 1, 1)],
                    [('zext', 0, w + 3), I0, ('slice', 0, w - 1, w)], [('cat', 0, 0), I0, I1]]
        for ops in pats_add:
            jobs.append(derived_job('add2', [w, 1], ops, src_cases(r, [w, 1])))
        w1 = max(1, w - 1)
        pats3 = [[I0, I0, I0], [I0, I0, I1], [I0, I1, I0], [I1, I0, I0], [I0, I1, ('slice', 0, 0, w1)],
                 [I0, ('const', full, w), I0], [('reg', 0), I0, I1], [I0, ('not', 0), I0], [('cat', 0, 1), I0, I1],
                 [I1, I1, ('zext', 1, w1 + 2)]]
        for pi, ops in enumerate(pats3):
            sel = None if w <= 3 else [pi % 3, 3 + pi % 6, 3 + (pi + 3) % 6, 9 + pi % 6, 9 + (pi + 4) % 6]
            jobs.append(derived_job('tri', [w, w1], ops, src_cases(r, [w, w1]), sel=sel))
        pats_f = [[I0, I0, I1, I0], [I0] * 5, [I0, ('slice', 0, 0, w1), I1, ('const', full, w), I0, ('reg', 0)],
                  [I0, I0], [I0, I0, I0], [I1, ('not', 1), I1, I0, I0, I0, I0]]
        for pi, ops in enumerate(pats_f):
            for red in (0, 1):
                jobs.append(derived_job('fga', [w, w1], ops, src_cases(r, [w, w1]),
                                        ra=(red, ADD_CODES[(pi + red) % 3])))
        pats_g = [(1, [I0, I0, I0]), (2, [I0, I0, I0, I1, I1, I0]), (2, [I0, I1, I1, I0]),
                  (1, [I0, ('slice', 0, 0, w1), ('const', 3, 2)]), (2, [I0, I0, I0, I0, I0, I0, I0]),
                  (1, [('reg', 0), ('reg', 0), I0, ('not', 0)])]
        for pi, (npairs, ops) in enumerate(pats_g):
            jobs.append(derived_job('gfma', [w, w1], ops, src_cases(r, [w, w1]), npairs=npairs,
                                    ra=(pi % 2, ADD_CODES[pi % 3])))
    # direct reducer calls on random column profiles (tie only)
    nr = 40 if quick else 300
    for i in range(nr):
        r = ctx.sub_rng('reduce', i)
        ncol = r.randint(1, 7)
        style = r.random()
        if style < 0.5:      # multiplier-like: up then down
            peak = r.randint(1, 7)
            heights = [max(1, min(peak, c + 1, ncol - c + r.randint(0, 1))) for c in range(ncol)]
        else:
            heights = [r.randint(0 if c else 1, 8) for c in range(ncol)]
        rw = ncol + r.randint(0, 3)
        nb = sum(heights)
        cases = [tuple(r.randint(0, 1) for _ in range(nb)) for _ in range(6)] + [tuple([1] * nb)]
        jobs.append({'kind': 'reduce', 'widths': [1] * nb, 'heights': heights, 'rw': rw,
                     'ra': r.choice(RA), 'cases': cases})
    # sequential multipliers
    for wa in range(1, exs + 1):
        for wb in range(1, exs + 1):
            ops = list(itertools.product(range(1 << wa), range(1 << wb)))
            r = ctx.sub_rng('seq', wa, wb)
            stim, marks = protocol_stim(r, wa, wb, ops, wa + 1)
            jobs.append({'kind': 'simple', 'widths': [wa, wb], 'stim': stim, 'marks': marks, 'exh': True})
            for sh in range(1, min(wa, wb) + 1):
                stim, marks = protocol_stim(r, wa, wb, ops, -(-wa // sh) + 1)
                jobs.append({'kind': 'complex', 'widths': [wa, wb], 'shifts': sh, 'stim': stim,
                             'marks': marks, 'exh': True})
                jobs.append({'kind': 'complex', 'widths': [wa, wb], 'shifts': sh,
                             'stim': history_stim(r, wa, wb, -(-wa // sh) + 1, 40)})
            jobs.append({'kind': 'simple', 'widths': [wa, wb], 'stim': history_stim(r, wa, wb, wa + 1, 60)})
    nseq = 24 if quick else 150
    for i in range(nseq):
        r = ctx.sub_rng('seqmixed', i)
        wa, wb = r.choice([(r.randint(1, 16), r.randint(1, 16)), (r.randint(4, 16), r.randint(4, 16)),
                           (r.choice([31, 32, 33]), r.choice([31, 32, 33]))] if i % 8 else [(64, 63), (65, 64)])
        ops = sample_vectors(r, [wa, wb], 8)
        kind = 'simple' if i % 3 == 0 else 'complex'
        sh = r.randint(1, min(wa, wb))
        lat = wa + 1 if kind == 'simple' else -(-wa // sh) + 1
        stim, marks = protocol_stim(r, wa, wb, ops, lat)
        jobs.append({'kind': kind, 'widths': [wa, wb], 'shifts': sh, 'stim': stim, 'marks': marks})
        # arbitrary histories: restart while busy, back-to-back starts, start held high, operands
        # changing mid-run; every stable window after a start is checked against the protocol
        jobs.append({'kind': kind, 'widths': [wa, wb], 'shifts': sh,
                     'stim': history_stim(r, wa, wb, lat, 10 if wa > 40 else 24)})
        # free-running stimulus: random start pulses, operands changing every cycle
        stim2 = [(1 if r.random() < 0.25 else 0, r.getrandbits(wa), r.getrandbits(wb)) for _ in range(40)]
        jobs.append({'kind': kind, 'widths': [wa, wb], 'shifts': sh, 'stim': stim2})
    return jobs


# --------------------------------------------------------------------------- comparison

class Collector(object):
    def __init__(self):
        self.spec = {}      # signature -> (size, what, replay)
        self.tie = {}       # key -> (size, what, replay)

    def add_spec(self, sig, size, what, replay):
        if sig not in self.spec or size < self.spec[sig][0]:
            self.spec[sig] = (size, what, replay)

    def add_tie(self, key, size, what, replay):
        if key not in self.tie or size < self.tie[key][0]:
            self.tie[key] = (size, what, replay)


# model columns: index of the model of record and of the alternative (pre-fix) variant per generator
def model_columns(kind, ngens):
    """gi -> (column of the model as the code is today, column of the pre-fix variant or None)"""
    m = {gi: (gi, None) for gi in range(ngens)}
    if kind == 'add2':
        m[0] = (0, 7)            # kogge_stone: pre-fix = cin not in the prefix tree
    elif kind == 'mul2':
        m[6] = (6, 7)            # signed_tree_multiplier: pre-fix = magnitude without its top bit
    elif kind == 'tri':
        for a in range(3):
            m[a] = (a, 15 + a)   # carrysave_adder: pre-fix = slice structure, raises on width 1
    return m


def api_call(kind, label, widths, job):
    if job.get('derive'):
        d = job['derive']
        return '%s(%s) with x_k = Input(bitwidth=%s)' % (
            label, ', '.join(op_text(o) for o in d['ops']), d['src_widths'])
    if kind == 'reduce':
        return '%s(columns of heights %s, result_bitwidth=%d)' % (label, job['heights'], job['rw'])
    if kind == 'gfma':
        n = job['npairs']
        return '%s(mult_pairs widths %s, add_wires widths %s)' % (
            label, [(widths[2 * i], widths[2 * i + 1]) for i in range(n)], widths[2 * n:])
    return '%s on Inputs of bitwidths %s' % (label, widths)


def compare_comb(ctx, col, job, res, model, variants):
    kind = job['kind']
    widths = job['widths']
    gens = job_gens(job)
    cases = job_cases(dict(job, widths=(widths[:2] + [1]) if kind == 'add2' else widths))
    if kind in ('add2', 'mul2', 'tri'):
        mlens, same, mrows = model
        if same != 1:
            ctx.model_mismatch('model result bitwidth depends on the operand values', {'job': str(job)[:300]})
    else:
        mlens = [model[0][0]] if model else []
        mrows = [[m[1]] for m in model]
        for m in model:
            if m[0] != mlens[0]:
                ctx.model_mismatch('model result bitwidth depends on the operand values', {'job': str(job)[:300]})
    cols = model_columns(kind, len(gens))
    size = sum(widths)
    extra = {'npairs': job.get('npairs')}
    for gi, (label, fn) in enumerate(gens):
        if fn is None:
            continue
        base = label.split('[')[0]
        ctx.count('generators', base)
        raised = res['errs'][gi] is not None
        ilen = res['lens'][gi]
        asis, alt = cols[gi]
        call = api_call(kind, label, widths, job)
        # ---- search: implementation vs Python integers
        nbad = 0
        for ci, vals in enumerate(cases):
            got = res['rows'][ci][gi]
            if kind != 'reduce':
                key = (kind, label, tuple(widths), vals)
                ctx.case(key, nontrivial=any(vals),
                         sample={'generator': label, 'widths': widths, 'operands': list(vals), 'result': got}
                         if (ci == len(cases) // 2 and gi % 3 == 0 and size > 6) else None)
            if kind == 'reduce':
                ctx.case((kind, label, tuple(job['heights']), job['rw'], vals), nontrivial=any(vals))
                continue
            if raised:
                if spec_may_raise(kind, label, widths):
                    continue
                if nbad == 0:
                    sig = signature(kind, label, widths, vals, None, None, None, True)
                    col.add_spec(sig, (size, ()), '%s raises %s' % (call, res['errs'][gi]),
                                 {'api': call, 'widths': widths, 'raised': res['errs'][gi],
                                  'expected': 'a wire holding the exact result'})
                nbad += 1
                continue
            exp = spec_value(kind, gi, label, vals, widths, extra)
            if got != exp:
                sig = signature(kind, label, widths, vals, exp, got, ilen, False, extra)
                if (sig.endswith(('wrong-result', 'wrong-product', 'wrong-sum')) and job.get('derive')
                        and len(set(job['derive']['ops'])) < len(job['derive']['ops'])):
                    sig += ':same-wire-operands'
                col.add_spec(sig, (size, vals), '%s: operands %s -> %d, exact result %d (result bitwidth %d)' % (
                    call, list(vals), got, exp, ilen),
                    {'api': call, 'widths': widths, 'operands': list(vals),
                     'source_inputs(x0,x1,..)': list(job['derive']['src_cases'][ci]) if job.get('derive') else None,
                     'expected': exp, 'got': got,
                     'result_bitwidth': ilen})
                ctx.count('spec_failures', sig)
                nbad += 1
        # ---- tie: implementation vs Coq model (the model of record, else the pre-fix variant)
        def agrees(c, with_len):
            if mlens[c] == -1:
                return raised
            if raised:
                return False
            if with_len and mlens[c] != ilen:
                return False
            return all(res['rows'][ci][gi] == mrows[ci][c] for ci in range(len(cases)))
        if agrees(asis, True):
            if alt is not None:
                variants.setdefault(base, set()).add('current' if not agrees(alt, True) else 'both')
        elif alt is not None and agrees(alt, True):
            variants.setdefault(base, set()).add('pre-fix')
        else:
            first = None
            for ci in range(len(cases)):
                if mlens[asis] != -1 and not raised and res['rows'][ci][gi] != mrows[ci][asis]:
                    first = (list(cases[ci]), res['rows'][ci][gi], mrows[ci][asis])
                    break
            col.add_tie((kind, base), size,
                        'PyRTL and the Coq model disagree on %s' % call,
                        {'api': call, 'widths': widths, 'impl_bitwidth': ilen, 'model_bitwidth': mlens[asis],
                         'impl_raised': res['errs'][gi], 'first_difference(operands, impl, model)': first})


def compare_seq(ctx, col, job, res, model):
    kind = job['kind']
    wa, wb = job['widths']
    sh = job.get('shifts', 1)
    label = 'simple_mult' if kind == 'simple' else 'complex_mult[shifts=%d]' % sh
    ctx.count('generators', label.split('[')[0])
    call = '%s with len(A)=%d len(B)=%d' % (label, wa, wb)
    stim = job['stim']
    size = wa + wb
    if res['err'] is not None:
        col.add_spec(label.split('[')[0] + ':raises', (size, 0, 0), '%s raises %s' % (call, res['err']),
                     {'api': call, 'raised': res['err']})
        return
    trace = res['trace']
    trivial = kind == 'simple' and (wa == 1 or wb == 1)
    # tie
    if trivial:
        mtrace = [(m[1], 1) for m in model]
        if any(m[0] != res['rlen'] for m in model):
            col.add_tie((kind, 'len'), size, 'result bitwidth differs on ' + call, {'api': call})
    else:
        mtrace = [tuple(m) for m in model]
        if res['rlen'] != wa + wb:
            col.add_tie((kind, 'len'), size, 'result register bitwidth differs on ' + call,
                        {'api': call, 'impl': res['rlen'], 'model': wa + wb})
    for t, (it, mt) in enumerate(zip(trace, mtrace)):
        if tuple(it) != tuple(mt):
            col.add_tie((kind, 'trace'), size, 'PyRTL and the Coq register machine disagree on ' + call,
                        {'api': call, 'cycle': t, 'stimulus(start,A,B)': stim[:t + 1][-12:],
                         'impl(result,done)': list(it), 'model(result,done)': list(mt)})
            break
    # search: the protocol of the property, on EVERY stimulus: each start cycle t0 opens a window that
    # lasts while start stays low and the operands stay those presented with the start; whatever the
    # unit was doing before t0 (idle, busy, just started), done must rise within `bound` cycles of t0
    # and from then on stay high with result == A*B until the window ends
    base = label.split('[')[0]
    if trivial:
        for t, ((s_, a, b), (res_, dn)) in enumerate(zip(stim, trace)):
            ctx.case((kind, wa, wb, a, b, 'comb'), nontrivial=bool(a or b))
            if res_ != a * b or dn != 1:
                col.add_spec(base + ':wrong-product', (size, a, b),
                             '%s: A=%d B=%d: result %d done %d (one-bit operand path)' % (call, a, b, res_, dn),
                             {'api': call, 'A': a, 'B': b, 'got': [res_, dn], 'expected_product': a * b})
        return
    bound = (wa + 1) if kind == 'simple' else (-(-wa // sh) + 1)
    nwin = 0
    for (t0, t_end, a, b) in protocol_windows(stim):
        last = min(t_end + 1, len(trace) - 1)      # the cycle after the window still shows its state
        if last <= t0:
            continue
        nwin += 1
        busy_at_start = trace[t0][1] == 0
        ctx.count('start_issued_while', 'busy' if busy_at_start else 'idle')
        ctx.case((kind, sh, wa, wb, a, b, busy_at_start, trace[t0][0]), nontrivial=bool(a or b),
                 sample={'generator': label, 'widths': [wa, wb], 'A': a, 'B': b,
                         'start_issued_while_busy': busy_at_start,
                         'trace(result,done)': [list(x) for x in trace[t0:last + 1]]}
                 if (nwin == 3 and wa > 2 and wb > 2) else None)
        first_done = None
        for t in range(t0 + 1, last + 1):
            if trace[t][1] == 1:
                first_done = t
                break
        bad = None
        if first_done is None:
            if last - t0 >= bound:
                bad = ('late-done', 'done not raised within %d cycles of start' % bound)
        elif first_done - t0 > bound:
            bad = ('late-done', 'done raised %d cycles after start, bound %d' % (first_done - t0, bound))
        else:
            for t in range(first_done, last + 1):
                if trace[t][1] != 1:
                    bad = ('done-drops', 'done falls at cycle %d after being raised' % (t - t0))
                    break
                if trace[t][0] != a * b:
                    bad = ('wrong-product', 'result %d at cycle %d after start, exact product %d' % (
                        trace[t][0], t - t0, a * b))
                    break
        if first_done is not None:
            ctx.count('done_latency', first_done - t0)
        if bad:
            lo = 0
            sig = '%s:%s%s' % (base, bad[0], ':start-while-busy' if busy_at_start else '')
            col.add_spec(sig, (size, last, a, b),
                         '%s: start with A=%d B=%d issued while the unit was %s: %s' % (
                             call, a, b, 'busy (done=0)' if busy_at_start else 'idle', bad[1]),
                         {'api': call, 'A': a, 'B': b, 'start_cycle_in_history': t0 - lo,
                          'history(start,A,B)': [list(x) for x in stim[lo:last + 1]],
                          'observed(result,done)': [list(x) for x in trace[lo:last + 1]],
                          'history_starts_from': 'reset state (fresh Simulation), one entry per cycle',
                          'expected_product': a * b, 'done_bound_cycles': bound})
    if nwin == 0:
        ctx.case((kind, sh, wa, wb, tuple(stim)), nontrivial=True)

# --------------------------------------------------------------------------- structural tie: kogge_stone

def ks_structure(wa, wb, cases):
    """Build kogge_stone(a, b, cin), recover from the NETLIST the wire that holds generate bit i
    after every prefix stage (walking back from the final concat through the `|` nets) and the
    propagate wire each update reads; check the wiring pattern of the prefix network and return the
    simulated values of those internal wires per stage."""
    pyrtl.reset_working_block()
    a, b, c = pyrtl.Input(wa, 'a'), pyrtl.Input(wb, 'b'), pyrtl.Input(1, 'c')
    r = adders.kogge_stone(a, b, c)
    o = pyrtl.Output(len(r), 'o')
    o <<= r
    blk = pyrtl.working_block()
    prod = {}
    for net in blk.logic:
        for d in net.dests:
            prod[d] = net
    n = max(wa, wb)
    top = prod.get(r)
    if top is None or top.op != '^':
        return {'error': 'result is not driven by an xor net'}
    genc = None
    for w in top.args:
        nn = prod.get(w)
        if nn is not None and nn.op == 'c' and len(nn.args) == n + 1 and nn.args[-1] is c:
            genc = nn
    if genc is None:
        return {'error': 'no concat of (generate bits, cin) feeds the final xor'}
    finals = list(reversed(genc.args[:-1]))
    chains, updates = [], []
    for i in range(n):
        w, ups = finals[i], []
        while True:
            net = prod.get(w)
            if net is None or net.op != '|':
                break
            # `old | (prop & src)`: the operands of `|` and of `&` may come in either order
            old, andw = net.args[0], net.args[1]
            if not (prod.get(andw) is not None and prod[andw].op == '&') and \
                    prod.get(old) is not None and prod[old].op == '&':
                old, andw = andw, old
            andn = prod.get(andw)
            if andn is None or andn.op != '&':
                return {'error': 'generate bit %d: an or-net none of whose operands is an and-net' % i}
            ups.append((old, andn.args[0], andn.args[1], net))   # (old g, prop_old, g source) up to order
            w = old
        if prod.get(w) is None or prod[w].op != 's':
            return {'error': 'generate bit %d does not start from a bit of a & b' % i}
        ups.reverse()
        chain = [w]
        back = []
        for (old_, _p, _g, net_) in reversed(ups):
            back.append(net_.dests[0])
        chain += list(reversed(back))
        chains.append(chain)
        updates.append(ups)
    variant = len(updates[0])            # 1: cin folded into generate bit 0 (current), 0: pre-fix
    if variant not in (0, 1) or (variant == 1 and not any(x is c for x in updates[0][0][1:3])):
        return {'error': 'generate bit 0 is not a & b [| prop & cin]'}
    nstage = (n - 1).bit_length()

    def state(i, s):          # wire holding generate bit i at the head of stage s
        if i == 0:
            return chains[0][-1]
        return chains[i][min(s, len(chains[i]) - 1)]
    for i in range(1, n):
        if len(updates[i]) != i.bit_length():
            return {'error': 'generate bit %d is updated in %d stages, the prefix network needs %d' % (
                i, len(updates[i]), i.bit_length())}
        for j, (old, pold, gsrc, net_) in enumerate(updates[i]):
            if old is not chains[i][j]:
                return {'error': 'generate bit %d stage %d: chain broken' % (i, j)}
            if pold is state(i - (1 << j), j) and gsrc is not pold:
                pold, gsrc = gsrc, pold
                updates[i][j] = (old, pold, gsrc, net_)
            if gsrc is not state(i - (1 << j), j):
                return {'error': 'generate bit %d stage %d does not read generate bit %d of the previous stage' % (
                    i, j, i - (1 << j))}
    track = {id(w): w for ch in chains for w in ch}
    for ups in updates:
        for (old, pold, gsrc, net_) in ups:
            track[id(pold)] = pold
    tracer = pyrtl.SimulationTrace(wires_to_track=list(track.values()), block=blk)
    sim = pyrtl.Simulation(tracer=tracer, block=blk)
    obs = []
    for (va, vb, vc) in cases:
        sim.step({'a': va, 'b': vb, 'c': vc})
        g = [[sim.inspect(state(i, s).name) for i in range(n)] for s in range(nstage + 1)]
        p = [[(i, j, sim.inspect(updates[i][j][1].name)) for j in range(len(updates[i]))] for i in range(1, n)]
        obs.append((g, p, sim.inspect('o')))
    pyrtl.reset_working_block()
    return {'error': None, 'variant': variant, 'nstage': nstage, 'obs': obs}


def structural_kogge(ctx):
    quick = ctx.tier == 'quick'
    pairs = [(wa, wb) for wa in range(1, 10) for wb in sorted({1, (wa + 1) // 2, wa})]
    pairs += [(3, 7), (16, 16), (17, 9), (12, 16)] + ([(33, 31), (64, 64)] if quick else
                                                      [(31, 32), (33, 33), (64, 64), (65, 63), (24, 7), (13, 15)])
    todo = []
    for (wa, wb) in pairs:
        r = ctx.sub_rng('ks-struct', wa, wb)
        cases = [(x, y, r.randint(0, 1)) for (x, y) in sample_vectors(r, [wa, wb], 10 if quick else 24)]
        cases += [((1 << wa) - 1, (1 << wb) - 1, 1), ((1 << wa) - 1, 1, 0), ((1 << wa) - 1, 0, 1)]
        res = ks_structure(wa, wb, cases)
        if res['error']:
            ctx.model_mismatch('kogge_stone netlist no longer has the structure of the modelled prefix network: '
                               + res['error'], {'api': 'kogge_stone', 'widths': [wa, wb]})
            continue
        todo.append((wa, wb, cases, res))
    if not todo:
        return
    exprs = ['h_ks_stages_many %d %d %d %s' % (res['variant'], wa, wb, triples(cases))
             for (wa, wb, cases, res) in todo]
    models = ctx.coq_eval(exprs, IMPORTS, tag='c13ks', shard=6, jobs=8)
    for (wa, wb, cases, res), model in zip(todo, models):
        ctx.count('kogge_structural', 'n=%d' % max(wa, wb) if max(wa, wb) <= 9 else 'n>9')
        bad = None
        for ci, (vals, (g, p, outv), stages) in enumerate(zip(cases, res['obs'], model)):
            ctx.case(('ks-struct', wa, wb, vals), nontrivial=any(vals))
            if len(stages) != res['nstage'] + 1:
                bad = (vals, 'number of stages: netlist %d, model %d' % (res['nstage'] + 1, len(stages)))
                break
            for s in range(res['nstage'] + 1):
                if list(stages[s][0]) != g[s]:
                    bad = (vals, 'generate bits at the head of stage %d: netlist %s, model %s' % (s, g[s], stages[s][0]))
                    break
            if bad:
                break
            for row in p:
                for (i, j, v) in row:
                    if stages[j][1][i] != v:
                        bad = (vals, 'propagate bit %d read in stage %d: netlist %d, model %d' % (i, j, v, stages[j][1][i]))
                        break
                if bad:
                    break
            if bad:
                break
        if bad:
            ctx.model_mismatch('kogge_stone: internal prefix-network wires disagree with the Coq model per stage: ' + bad[1],
                               {'api': 'kogge_stone', 'widths': [wa, wb], 'operands(a,b,cin)': list(bad[0]),
                                'model_variant': 'current' if res['variant'] else 'pre-fix'})


def float_premise(ctx):
    """the translator maps int(math.ceil(math.log(k, 2))) to Z.log2_up k and int(x * 3 / 2) to (x * 3) / 2;
    evaluate the real Python expressions against the exact integer functions"""
    import math
    bad = []
    for k in range(1, 4097):
        if int(math.ceil(math.log(k, 2))) != (k - 1).bit_length():
            bad.append(('ceil(log2)', k))
        if int(k * 3 / 2) != (k * 3) // 2:
            bad.append(('x*3/2', k))
    ctx.count('float_premise', 'checked 1..4096', 1)
    if bad:
        ctx.model_mismatch('float idiom differs from the exact integer function the translator emits', {'cases': bad[:10]})


def run(ctx):
    import time
    t0 = time.time()
    jobs = make_jobs(ctx)
    # 1. PyRTL side (parallel over designs; each worker owns its working block)
    mp = multiprocessing.get_context('fork')
    with mp.Pool(processes=14) as pool:
        results = pool.map(exec_job, jobs, chunksize=1)
    t1 = time.time()
    # 2. Coq side
    exprs = [coq_expr(j) for j in jobs]
    try:
        models = ctx.coq_eval(exprs, IMPORTS, tag='c13', shard=6, jobs=14)
    except Exception as e:
        ctx.model_mismatch('Lib/C13Harness.v could not be evaluated: %s' % str(e)[-800:], {})
        models = None
    t2 = time.time()
    col = Collector()
    variants = {}
    for ji, (job, res) in enumerate(zip(jobs, results)):
        ctx.count('kinds', job['kind'] + ('/exhaustive' if job.get('exh') else ''))
        for w in job['widths'][:3] if job['kind'] != 'reduce' else []:
            ctx.count('operand_widths', w if w <= 16 else ('17-62' if w < 63 else '63-65'))
        model = models[ji] if models is not None else None
        if 'fatal' in res:
            ctx.model_mismatch('the harness could not build/simulate a design: ' + res['fatal'],
                               {'kind': job['kind'], 'widths': job['widths'], 'derive': str(job.get('derive'))[:300]})
            continue
        if model is None:
            continue
        try:
            if job['kind'] in ('simple', 'complex'):
                compare_seq(ctx, col, job, res, model)
            else:
                compare_comb(ctx, col, job, res, model, variants)
        except Exception as e:  # noqa: a malformed model answer for one design must not hide the others
            ctx.model_mismatch('comparison failed on one design: %s: %s' % (type(e).__name__, str(e)[:300]),
                               {'kind': job['kind'], 'widths': job['widths']})
    float_premise(ctx)
    try:
        structural_kogge(ctx)
    except Exception as e:  # the structural tie must never hide the behavioural result
        ctx.model_mismatch('structural tie of kogge_stone could not be evaluated: %s' % str(e)[-600:], {})
    for base, vs in sorted(variants.items()):
        ctx.count('model_variant_matched', '%s:%s' % (base, '+'.join(sorted(vs))))
        if 'pre-fix' in vs and 'current' in vs:
            ctx.model_mismatch('%s matches the current model on some widths and the pre-fix model on others' % base, {})
        if 'pre-fix' in vs:
            ctx.notes.append('%s in /repo behaves like the PRE-FIX model variant (see the SWITCH POINT comments in '
                             'coq/theories/Lib/Adders.v / Mult.v); the exactness theorem of the model of record '
                             'does not describe it' % base)
    ctx.notes.append('timing: %d designs; PyRTL build+simulate %.1fs, Coq model evaluation %.1fs, compare %.1fs' % (
        len(jobs), t1 - t0, t2 - t1, time.time() - t2))
    for sig, (size, what, replay) in sorted(col.spec.items()):
        ctx.spec_violation(sig, what, dict(replay, seed=ctx.seed, tier=ctx.tier))
    for key, (size, what, replay) in sorted(col.tie.items(), key=lambda kv: str(kv[0])):
        ctx.model_mismatch(what, dict(replay, seed=ctx.seed, tier=ctx.tier))


def replay(ctx, data):
    print(data)
    run(ctx)
