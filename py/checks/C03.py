"""C03: synthesize() preserves behaviour and the simulation interface.

(a) generators: for every operand width pair, the real word-level ops
    + - * < > = x c s (and the bitwise ops) are built at FULL result width, lowered
    by the REAL pyrtl.synthesize, simulated exhaustively in the operand values and
    compared with (tie) the Coq bit-list model of the _basic_* generators
    (Pass/BasicGates.v over Gen/SynthGates.v) and (search) integer arithmetic;
(b) designs: random API-built designs (registers with non-zero reset values,
    memories with initial contents, ROMs) x merge_io_vectors x update_working_block:
    the SAME testbench is run on the original and on the synthesized block
    (inputs by name -- by bit name through io_map when I/O is not merged --,
    memory_value_map keyed by the ORIGINAL MemBlock, register_value_map translated
    through reg_map, other registers from their reset values); Output traces must
    agree on every cycle with each other, with the reference semantics (spec_case
    on the original dump) and with the Coq model of synthesize (Pass/Synth.v);
    the synthesized block must satisfy the shape predicate (Coq `shapeb`, evaluated
    on the dump of the real block) and its io_map/reg_map/mem_map must be keyed by
    the original objects (identity)."""
import itertools
import pyrtl
from pyrtl import passes as ppasses
from pyrtl import corecircuits as pcc
import gen_designs
import nlx

RULE = ("(a) one design per operand width pair (wa, wb) <= 4 (quick) / 6 (thorough) carrying every word-level "
        "op (+ - * < > = x c s & | ^ n ~) at full result width AND its operand-order twin over the same wires (b-a, b<a, "
        "b>a, select(s,b,a), concat(b,a), ...), lowered by the real synthesize (merge_io_vectors "
        "alternating) and stepped through EVERY (x, y, s): a case = (wa, wb, x, y, s); (a') hand-built nets whose "
        "destination is narrower than the natural result, every legal destination width, arguments <= 3 (quick) / 4 "
        "bits, exhaustive values; (b) seeded random API-built designs (max width 8; every fifth up to 33 bits "
        "without *; registers with non-zero reset values, memories with initial contents, ROMs) x initial state x "
        "input sequence x merge_io_vectors x update_working_block: a case = (design, config), non-trivial when at "
        "least half of the Outputs toggled or the design has state; plus 18 directed designs in both tiers: 2-3 "
        "memories and a ROM (pairwise different contents via memory_value_map) read through ONE address wire object "
        "(Input / intermediate wire / Register) that is also address and data of write ports; registers with reset "
        "None / explicit 0 / non-zero side by side; ROMs with pad_with_zeros and partial list / sparse-dict romdata "
        "read at every address (a third of the random designs also draw such ROMs); write ports with every kind of "
        "enable (Const 0, Const 1, plain, constants reaching the port through logic, dynamic) read back over a "
        "colliding address history; several memories and a ROM that share one NAME with different initial contents; "
        "write-only memories (log buffers); declared but unused Inputs / Consts (io_map must cover every original "
        "I/O wire); on the synthesized block the testbench written against the original is run "
        "under Simulation, FastSimulation and CompiledSimulation (memory_value_map and inspect_mem by ORIGINAL MemBlock, "
        "mid-run and final memory contents per original memory, Sem's final memory as oracle); "
        "each design is additionally "
        "run with default_value in {1, all-ones of the smallest register}; "
        "every cycle compares Outputs of original / "
        "synthesized / Sem / Coq model and, wire by wire, value(w) = sum_i bit(w_i) 2^i on the real block")
IMPORTS_GATES = 'From PyRTL Require Import Pass.BasicGates.'
IMPORTS_SPEC = 'From PyRTL Require Import Netlist.Sem Netlist.WFDefs Netlist.SpecHarness.'
IMPORTS_SYNTH = 'From PyRTL Require Import Netlist.Sem Netlist.WFDefs Pass.Synth Pass.SynthHarness.'
IMPORTS_PREM = ('From PyRTL Require Import Netlist.Sem Netlist.Sanity Gen.SanityNet Pass.Synth Pass.Flatten '
                'Pass.SynthSanityDefs.')
COQ_TARGETS = ['theories/Pass/BasicGates.vo', 'theories/Netlist/SpecHarness.vo',
               'theories/Pass/SynthHarness.vo', 'theories/Pass/SynthSanityDefs.vo']
TRUSTED = ['Pass/BasicGates.v control skeletons (ripple / lt accumulation / Wallace passes / tree_reduce): '
           'guarded by the textual-identity gate of py/genfrag_C03.py and tied behaviourally on every run; all '
           'gate EXPRESSIONS are regenerated from the source (Gen/SynthGates.v, Gen/SynthFrags.v)',
           'STRUCTURAL tie at small widths (operands <= 2 quick / <= 3 thorough, every op incl. truncated '
           'destinations): the gate tree of every Output bit of the real synthesized block, unfolded through the '
           'w/s/c plumbing, equals node for node the tree the Coq model emits (SynthHarness.struct_case)',
           'Pass/Synth.v (hand model of synthesize + _decompose as per-net gate-expression groups with the '
           'small-step semantics gstep/grun of 1-bit wires, 1-bit registers and word-level memories), tied '
           'behaviourally: every wire of every cycle of every design of part (b)',
           'Pass/SynthHarness.v shapeb (the C03 shape predicate) and its Python mirror py_shape_ok; '
           'Pass/Flatten.v (gate groups -> Syntax.netlist) is a definition used only inside theorems/examples',
           'integer arithmetic in py/checks/C03.py expected() as the specification of each word-level op in '
           'part (a); Netlist/Sem.v elsewhere']
ASSUMPTIONS = ['bitwidths are >= 1 (WireVector.__init__ enforces it; boolean premise widths_posb, evaluated on every '
               'dumped design).  The former assumption "arguments of two-operand nets have equal bitwidth, mux '
               'branches equal, select indices in range, ..." (synth_okb) is now a THEOREM: '
               'C03_sanity_check_establishes_premises derives net_synth_ok and arity_ok from the `if ...: raise` list '
               'of Block.sanity_check_net regenerated from core.py (Gen/SanityNet.v), which synthesize() runs first; '
               'the `_sanity_checked` theorems take that regenerated check as their premise, and it is evaluated '
               '(together with ids_okb) on every dumped design',
               'default_value = 0 (the property speaks of reset/initial values and memory contents only)',
               'ROM contents are tabulated at dump time',
               'the synthesized block is modelled as per-net gate-expression TREES (the carries the real block '
               'shares are duplicated); Pass/Flatten.v turns them into a Syntax.netlist with fresh 1-bit wires and '
               'C03_simulation_netlist relates Sem.run of that netlist to Sem.run of the original; the real block and '
               'the model are tied behaviourally (every wire bit, every cycle), not net-for-net',
               'original wire ids are positive and strictly increasing in the dump (ids_okb; py/nlx.py numbers them '
               '1..n) -- premise of C03_simulation_netlist only',
               'designs of part (b) are limited to widths <= 33 (Wallace trees of wider multipliers make '
               'Simulation of the gate netlist too slow for the budget); the theorems are for all widths',
               'Coq shapeb is evaluated on real blocks of <= %d nets (it is quadratic; in the quick tier on all directed and '
               'every other random design); the other blocks are checked '
               'by its Python mirror, and the two are compared wherever both run']

SHAPE_MAX_NETS = 1000   # Coq shapeb is quadratic; larger blocks are checked by its Python mirror only
ASSUMPTIONS[-1] = ASSUMPTIONS[-1] % SHAPE_MAX_NETS
OPS = ['add', 'sub', 'mul', 'lt', 'gt', 'eq']
OPCODE = {o: i for i, o in enumerate(OPS)}


def fixed_basic_sub(a, b):
    """_basic_sub with the borrow (complemented carry) as the top bit: used ONLY to classify a
    disagreement (signature predicate: 'vanishes when the top bit of _basic_sub is complemented')"""
    sumbits, carry_out = pcc._add_helper(a, ~b, 1)
    return pcc.concat(~carry_out, sumbits)


def mask(w):
    return (1 << w) - 1


# ----------------------------------------------------------------------------- (a)

def build_ops_design(wa, wb):
    pyrtl.reset_working_block()
    a = pyrtl.Input(wa, 'a')
    b = pyrtl.Input(wb, 'b')
    s = pyrtl.Input(1, 's')
    n = max(wa, wb)
    outs = {}

    def out(name, w):
        o = pyrtl.Output(len(w), name)
        o <<= w
        outs[name] = len(w)

    out('add', a + b)
    out('sub', a - b)
    out('mul', a * b)
    out('lt', a < b)
    out('gt', a > b)
    out('eq', a == b)
    out('sel', pyrtl.select(s, a, b))
    out('cat', pyrtl.concat(a, b))
    out('rev', a[::-1])
    out('hi', b[wb - 1:])
    out('and', a & b)
    out('or', a | b)
    out('xor', a ^ b)
    out('nand', a.nand(b))
    out('not', ~a)
    # operand-order twins: the same primitive over the SAME wires in swapped order, in one design
    # (absolute difference a-b / b-a, a<b / b<a, conditional swap select(s,a,b) / select(s,b,a), ...)
    out('sub_r', b - a)
    out('lt_r', b < a)
    out('gt_r', b > a)
    out('eq_r', b == a)
    out('sel_r', pyrtl.select(s, b, a))
    out('cat_r', pyrtl.concat(b, a))
    out('nand_r', b.nand(a))
    return pyrtl.working_block(), outs, n


def expected(name, wa, wb, n, x, y, s):
    if name.endswith('_r'):     # the twin with swapped operands
        return expected(name[:-2], wb, wa, n, y, x, s)
    if name == 'add':
        return x + y
    if name == 'sub':
        return (x - y) % (1 << (n + 1))
    if name == 'mul':
        return x * y
    if name == 'lt':
        return int(x < y)
    if name == 'gt':
        return int(x > y)
    if name == 'eq':
        return int(x == y)
    if name == 'sel':
        return x if s else y
    if name == 'cat':
        return (x << wb) | y
    if name == 'rev':
        return sum(((x >> i) & 1) << (wa - 1 - i) for i in range(wa))
    if name == 'hi':
        return y >> (wb - 1)
    if name == 'and':
        return x & y
    if name == 'or':
        return x | y
    if name == 'xor':
        return x ^ y
    if name == 'nand':
        return mask(n) & ~(x & y)
    if name == 'not':
        return mask(wa) & ~x
    raise KeyError(name)


def step_inputs(post, orig_inputs, values, merge):
    """provided_inputs for the synthesized block: by name; for unmerged I/O by bit name as io_map says"""
    if merge:
        return {w.name: values[w.name] for w in orig_inputs}
    d = {}
    for w in orig_inputs:
        for i, bw in enumerate(post.io_map[w]):
            d[bw.name] = (values[w.name] >> i) & 1
    return d


def read_output(sim, post, orig_out, merge):
    if merge:
        return sim.inspect(orig_out.name)
    return sum(sim.inspect(bw.name) << i for i, bw in enumerate(post.io_map[orig_out]))


def census(ctx, post, table):
    for net in post.logic:
        widths = [len(w) for w in net.args + net.dests]
        ctx.count(table, '%s/%s' % (net.op, '1' if all(x == 1 for x in widths) else 'wide'))


GATE_CODE = {'~': 2, '&': 3, '|': 4, '^': 5, 'n': 6}


class NotAGateTree(Exception):
    pass


def real_gate_trees(post, block, dump, merge, outputs):
    """prefix code (see SynthHarness.gser) of the gate TREE of every bit of the given original
    Outputs in the REAL synthesized block, unfolded through the w/s plumbing down to input bits,
    constants and register bits -- the structural counterpart of Coq struct_case"""
    import sys
    sys.setrecursionlimit(max(sys.getrecursionlimit(), 20000))
    src = {n.dests[0]: n for n in post.logic if n.dests}
    leaf = {}
    for w in block.wirevector_set:
        if isinstance(w, pyrtl.Register):
            for i, rb in enumerate(post.reg_map[w]):
                leaf[rb] = (dump.wid[w], i)
        if isinstance(w, pyrtl.Input) and not merge:
            for i, bw in enumerate(post.io_map[w]):
                leaf[bw] = (dump.wid[w], i)
    memo = {}

    def ser(w):
        if w in memo:
            return memo[w]
        if isinstance(w, pyrtl.Const):
            r = [1, w.val]
        elif w in leaf:
            r = [0, leaf[w][0], leaf[w][1]]
        else:
            n = src.get(w)
            if n is None:
                raise NotAGateTree('undriven wire %s' % w)
            if n.op == 'w':
                r = ser(n.args[0])
            elif n.op == 's' and isinstance(n.args[0], pyrtl.Input) and len(n.op_param) == 1:
                r = [0, dump.wid[block.wirevector_by_name[n.args[0].name]], n.op_param[0]]
            elif n.op == '~':
                r = [2] + ser(n.args[0])
            elif n.op in GATE_CODE:
                r = [GATE_CODE[n.op]] + ser(n.args[0]) + ser(n.args[1])
            else:
                raise NotAGateTree('net %s' % str(n))
        memo[w] = r
        return r

    return [[ser(synth_bit_wire(post, o, i, merge)) for i in range(len(o))] for o in outputs]


def structural_tie(ctx, tag, items):
    """items: (label, dump, outs (original Output wires), real trees).  The Coq model's unfolded gate
    trees (Synth.lower through SynthHarness.struct_case) must EQUAL the real block's, node for node."""
    if not items:
        return
    exprs = ['struct_case %s %s' % (dump.coq(), nlx.zlist([dump.wid[o] for o in outs])) for _, dump, outs, _ in items]
    try:
        res = ctx.coq_eval(exprs, IMPORTS_SYNTH, tag=tag, shard=2, jobs=12)
    except Exception as e:
        ctx.model_mismatch('struct_case could not be evaluated: %s' % str(e)[-600:], {})
        return
    for (label, dump, outs, real), model in zip(items, res):
        for o, rt, mt in zip(outs, real, model):
            for i, (rb, mb) in enumerate(zip(rt, mt)):
                ctx.count('structural_tie_bits', 'equal' if rb == mb else 'DIFFERENT')
                ctx.count('structural_tie_gate_nodes', 'total', sum(1 for x in rb if x in (2, 3, 4, 5, 6)))
                if rb != mb:
                    ctx.model_mismatch('gate structure of bit %d of %s differs between the real synthesized block and '
                                       'the Coq model (%s): real %s... model %s...' % (i, o.name, label, rb[:24], mb[:24]),
                                       {'design': label, 'output': o.name, 'bit': i})
                    return
            if len(rt) != len(mt):
                ctx.model_mismatch('bit count of %s differs (%s)' % (o.name, label), {'design': label})
                return


def check_premises(ctx, tag, items):
    """the boolean premises of the `_sanity_checked` theorems on every dumped design: bitwidths >= 1, no raise of
    the REGENERATED Block.sanity_check_net (Gen/SanityNet.v) fires on any net, wire ids increasing (ids_okb)"""
    if not items:
        return
    exprs = ['(fun nl => sanity_prem_case nl ++ [b2z (ids_okb nl)]) %s' % dump.coq() for _, dump, _ in items]
    try:
        res = ctx.coq_eval(exprs, IMPORTS_PREM, tag=tag, shard=8, jobs=12)
    except Exception as e:
        ctx.model_mismatch('the premises (Gen/SanityNet.v check / widths_posb / ids_okb) could not be evaluated: %s'
                           % str(e)[-500:], {})
        return
    for (label, dump, rep), r in zip(items, res):
        ctx.count('theorem_premises', 'widths_posb,sanity_nets_okb,ids_okb=%s' % r)
        if list(r) != [1, 1, 1]:
            ctx.model_mismatch('premises of the C03 theorems [widths_posb, sanity_nets_okb, ids_okb] = %r on a design that the '
                               'real sanity_check accepted (%s)' % (r, label), rep)


def part_a(ctx, only=None):
    N = 4 if ctx.tier == 'quick' else 6
    if only:
        N = max(N, max(only))
    exprs = ['gate_table %d %d' % (OPCODE[o], n) for n in range(1, N + 1) for o in OPS]
    exprs += ['select_table %d' % n for n in range(1, N + 1)]
    try:
        res = ctx.coq_eval(exprs, IMPORTS_GATES, tag='c03gates', shard=4, jobs=12)
    except Exception as e:
        res = None
        ctx.model_mismatch('Pass/BasicGates.v could not be evaluated: %s' % str(e)[-600:], {})
    model = {}
    if res is not None:
        k = 0
        for n in range(1, N + 1):
            for o in OPS:
                model[(o, n)] = res[k]
                k += 1
        for n in range(1, N + 1):
            model[('sel', n)] = res[k]
            k += 1
    struct_items = []
    for wa, wb in itertools.product(range(1, N + 1), repeat=2):
        if only and (wa, wb) != tuple(only):
            continue
        merge = (wa + wb) % 2 == 0
        orig, outs, n = build_ops_design(wa, wb)
        orig_inputs = sorted(orig.wirevector_subset(pyrtl.Input), key=lambda w: w.name)
        orig_outputs = {w.name: w for w in orig.wirevector_subset(pyrtl.Output)}
        try:
            post = pyrtl.synthesize(update_working_block=False, merge_io_vectors=merge, block=orig)
            sim = pyrtl.Simulation(tracer=pyrtl.SimulationTrace(block=post), block=post)
        except Exception as e:
            ctx.spec_violation('synthesize:raises', 'synthesize/Simulation raised on the op design %dx%d: %s' % (wa, wb, e),
                               {'wa': wa, 'wb': wb, 'merge_io_vectors': merge})
            continue
        census(ctx, post, 'gate_design_nets')
        ctx.count('width_pairs', '%dx%d' % (wa, wb))
        if max(wa, wb) <= (2 if ctx.tier == 'quick' else 3):
            sdump = nlx.Dump(orig)
            souts = [orig_outputs[nm] for nm in sorted(orig_outputs)]
            try:
                struct_items.append(('ops %dx%d merge=%s' % (wa, wb, merge), sdump, souts,
                                     real_gate_trees(post, orig, sdump, merge, souts)))
            except NotAGateTree as e:
                ctx.spec_violation('synthesize:shape', 'a bit of the synthesized op design %dx%d is not driven by a tree of '
                                   '1-bit gates: %s' % (wa, wb, e), {'part': 'a', 'wa': wa, 'wb': wb})
        reported = set()
        try:     # a Python error while stepping the synthesized block is a finding, not a harness crash
            for x in range(1 << wa):
                for y in range(1 << wb):
                    for s in (0, 1):
                        vals = {'a': x, 'b': y, 's': s}
                        sim.step(step_inputs(post, orig_inputs, vals, merge))
                        sample = None
                        if (wa, wb, x, y, s) in ((2, 2, 1, 3, 0), (3, 2, 5, 2, 1)):
                            sample = {'part': 'a', 'wa': wa, 'wb': wb, 'x': x, 'y': y, 's': s,
                                      'synthesized_outputs': {nm: read_output(sim, post, orig_outputs[nm], merge)
                                                              for nm in outs}}
                        ctx.case(('a', wa, wb, x, y, s), nontrivial=True, sample=sample)
                        for nm in outs:
                            got = read_output(sim, post, orig_outputs[nm], merge)
                            exp = expected(nm, wa, wb, n, x, y, s)
                            rep = {'part': 'a', 'op': nm, 'wa': wa, 'wb': wb, 'x': x, 'y': y, 's': s,
                                   'merge_io_vectors': merge, 'expected': exp, 'got': got,
                                   'repro': "a=Input(%d,'a'); b=Input(%d,'b'); o=Output(name='o'); o<<=<a %s b>; "
                                            "synthesize(); Simulation().step({'a':%d,'b':%d})" % (wa, wb, nm, x, y)}
                            if got != exp and (nm, 'spec') not in reported:
                                reported.add((nm, 'spec'))
                                if nm in ('sub', 'sub_r') and (got ^ exp) == (1 << n):
                                    sig = 'synthesize:sub-top-bit'
                                    what = ('synthesized a-b at full result width has its top bit inverted '
                                            '(%d-bit %d - %d: expected %d, got %d)' % (n, x, y, exp, got))
                                else:
                                    sig = 'synthesize:op=%s' % nm
                                    what = 'synthesized %s wrong at widths %dx%d: %d,%d -> %d, expected %d' % (
                                        nm, wa, wb, x, y, got, exp)
                                ctx.spec_violation(sig, what, rep)
                            if res is not None and nm in OPS:
                                mv = model[(nm, n)][x][y]
                                if mv != got and (nm, 'model') not in reported:
                                    reported.add((nm, 'model'))
                                    ctx.model_mismatch('Coq basic_%s and the real synthesized %s disagree at width %d: '
                                                       'x=%d y=%d model=%d real=%d' % (nm, nm, n, x, y, mv, got), rep)
                            if res is not None and nm.endswith('_r') and nm[:-2] in OPS:
                                mv = model[(nm[:-2], n)][y][x]
                                if mv != got and (nm, 'model') not in reported:
                                    reported.add((nm, 'model'))
                                    ctx.model_mismatch('Coq basic_%s (operands swapped) and the real synthesized %s disagree at '
                                                       'width %d: x=%d y=%d model=%d real=%d' % (nm[:-2], nm, n, x, y, mv, got), rep)
                            if res is not None and nm in ('sel', 'sel_r'):
                                # _basic_select(s, falsecase, truecase): select(s, a, b) has truecase a
                                mv = model[('sel', n)][s][y][x] if nm == 'sel' else model[('sel', n)][s][x][y]
                                if mv != got and (nm, 'model') not in reported:
                                    reported.add((nm, 'model'))
                                    ctx.model_mismatch('Coq basic_select and the real synthesized select disagree at '
                                                       'width %d: s=%d x=%d y=%d model=%d real=%d' % (n, s, x, y, mv, got), rep)
        except Exception as e_run:
            ctx.spec_violation('synthesize:testbench-raises', 'stepping the synthesized op design %dx%d raised %s: %s' % (
                wa, wb, type(e_run).__name__, str(e_run)[:200]), {'part': 'a', 'wa': wa, 'wb': wb, 'merge_io_vectors': merge})
    structural_tie(ctx, 'c03struct', struct_items)


# ----------------------------------------------------------------------------- (a-wide)

def part_a_wide(ctx, only=None):
    """the lowered arithmetic at operand widths beyond the exhaustive tables (5..15 quick, 5..20 thorough, equal and
    mixed): the column heights of the Wallace tree in _basic_mult, the carry chain of _basic_add/_basic_sub and the
    MSB-peeling comparators depend on the width, so a flaw can exist at a few widths only.  Directed values: every pair
    of single bits (each partial product alone), all-ones, alternating patterns, one below/above a power of two, and
    random values; oracle: Python integers."""
    quick = ctx.tier == 'quick'
    top = 15 if quick else 20
    pairs = [(w, w) for w in range(5, top + 1)]
    rng0 = ctx.sub_rng('a-wide', 'pairs')
    pairs += [(rng0.randint(5, top), rng0.randint(1, top)) for _ in range(4 if quick else 10)]
    pairs += [(b, a) for a, b in pairs[-2:]]
    if only:
        pairs = [tuple(only)]
    for wa, wb in pairs:
        rng = ctx.sub_rng('a-wide', wa, wb)
        merge = (wa + wb) % 2 == 1
        pyrtl.reset_working_block()
        a = pyrtl.Input(wa, 'a')
        b = pyrtl.Input(wb, 'b')
        exps = {'mul': lambda x, y: x * y, 'add': lambda x, y: x + y,
                'sub': lambda x, y: (x - y) % (1 << (max(wa, wb) + 1)),
                'lt': lambda x, y: int(x < y), 'gt': lambda x, y: int(x > y), 'eq': lambda x, y: int(x == y)}
        wires = {'mul': a * b, 'add': a + b, 'sub': a - b, 'lt': a < b, 'gt': a > b, 'eq': a == b}
        outs = {}
        for nm, wv in wires.items():
            o = pyrtl.Output(len(wv), nm)
            o <<= wv
            outs[nm] = o
        orig = pyrtl.working_block()
        orig_inputs = [a, b]
        try:
            post = pyrtl.synthesize(update_working_block=False, merge_io_vectors=merge, block=orig)
            sim = pyrtl.Simulation(tracer=None, block=post)
        except Exception as e:
            ctx.spec_violation('synthesize:raises', 'synthesize/Simulation raised on the wide op design %dx%d: %s' % (wa, wb, e),
                               {'part': 'a-wide', 'wa': wa, 'wb': wb, 'merge_io_vectors': merge})
            continue
        ma, mb = (1 << wa) - 1, (1 << wb) - 1
        vals = [(1 << i, 1 << j) for i in range(wa) for j in range(wb)]
        specials_a = [0, ma, ma >> 1, 1 << (wa - 1), (1 << (wa - 1)) + 1, 0x5555555555 & ma, 0xAAAAAAAAAA & ma, ma - 1]
        specials_b = [0, mb, mb >> 1, 1 << (wb - 1), (1 << (wb - 1)) + 1, 0x5555555555 & mb, 0xAAAAAAAAAA & mb, max(mb - 1, 0)]
        specials_a = sorted({x & ma for x in specials_a})     # (1 << (w - 1)) + 1 does not fit when w == 1
        specials_b = sorted({y & mb for y in specials_b})
        vals += [(x, y) for x in specials_a for y in specials_b]
        vals += [(x, x & mb) for x in specials_a] + [(y & ma, y) for y in specials_b]
        vals += [(rng.getrandbits(wa), rng.getrandbits(wb)) for _ in range(40 if quick else 100)]
        if only:
            vals = vals + [(x, y) for x in range(min(1 << wa, 64)) for y in range(min(1 << wb, 64))]
        ctx.count('wide_width_pairs', '%dx%d' % (wa, wb))
        reported = set()
        try:
            for x, y in vals:
                sim.step(step_inputs(post, orig_inputs, {'a': x, 'b': y}, merge))
                ctx.case(('a-wide', wa, wb, x, y), nontrivial=True,
                         sample={'part': 'a-wide', 'wa': wa, 'wb': wb, 'x': x, 'y': y} if (wa, wb, x, y) == (5, 5, 16, 2) else None)
                for nm, o in outs.items():
                    got = read_output(sim, post, o, merge)
                    exp = exps[nm](x, y)
                    if got != exp and nm not in reported:
                        reported.add(nm)
                        ctx.spec_violation('synthesize:op=%s' % nm,
                                           'synthesized %s wrong at widths %dx%d: %d,%d -> %d, expected %d'
                                           % (nm, wa, wb, x, y, got, exp),
                                           {'part': 'a-wide', 'op': nm, 'wa': wa, 'wb': wb, 'x': x, 'y': y,
                                            'merge_io_vectors': merge, 'expected': exp, 'got': got,
                                            'repro': "a=Input(%d,'a'); b=Input(%d,'b'); o=Output(name='o'); o<<=<a %s b>; "
                                                     "synthesize(); Simulation().step({'a':%d,'b':%d})" % (wa, wb, nm, x, y)})
        except Exception as e_run:
            ctx.spec_violation('synthesize:testbench-raises', 'stepping the synthesized wide op design %dx%d raised %s: %s' % (
                wa, wb, type(e_run).__name__, str(e_run)[:200]), {'part': 'a-wide', 'wa': wa, 'wb': wb, 'merge_io_vectors': merge})


# ----------------------------------------------------------------------------- (a-shared-select)

def part_shared_select(ctx):
    """several muxes of DIFFERENT data widths steered by the SAME select wire (select(s, a[:w], b[:w]) for many w, and one
    conditional_assignment block assigning wires and registers of several widths), in both operand orders: whatever the
    lowering shares between muxes with one select must not depend on which of them is lowered first.  Oracle: Python."""
    quick = ctx.tier == 'quick'
    for k in range(4 if quick else 16):
        rng = ctx.sub_rng('shared-select', k)
        merge = k % 2 == 0
        pyrtl.reset_working_block()
        W = rng.choice([9, 13, 16])
        a = pyrtl.Input(W, 'a')
        b = pyrtl.Input(W, 'b')
        sels = [pyrtl.Input(1, 's%d' % j) for j in range(2)]
        widths = sorted(set([1, 2, W] + [rng.randint(2, W) for _ in range(5)]))
        rng.shuffle(widths)
        exp = {}
        for j, sw in enumerate(sels):
            for w in widths:
                o = pyrtl.Output(w, 'o%d_%d' % (j, w))
                o <<= pyrtl.select(sw, a[:w], b[:w])
                exp[o.name] = (lambda v, j=j, w=w: (v['a'] if v['s%d' % j] else v['b']) & ((1 << w) - 1))
                o2 = pyrtl.Output(w, 'p%d_%d' % (j, w))
                o2 <<= pyrtl.select(sw, b[W - w:], a[W - w:])
                exp[o2.name] = (lambda v, j=j, w=w: ((v['b'] if v['s%d' % j] else v['a']) >> (W - w)) & ((1 << w) - 1))
        cw = [pyrtl.WireVector(w, 'cw%d' % w) for w in widths[:4]]
        with pyrtl.conditional_assignment:
            with sels[0]:
                for wv in cw:
                    wv |= a[:len(wv)]
            with pyrtl.otherwise:
                for wv in cw:
                    wv |= b[:len(wv)]
        for wv in cw:
            o = pyrtl.Output(len(wv), 'c_%d' % len(wv))
            o <<= wv
            exp[o.name] = (lambda v, w=len(wv): (v['a'] if v['s0'] else v['b']) & ((1 << w) - 1))
        orig = pyrtl.working_block()
        orig_inputs = [a, b] + sels
        outs = {w.name: w for w in orig.wirevector_subset(pyrtl.Output)}
        try:
            post = pyrtl.synthesize(update_working_block=False, merge_io_vectors=merge, block=orig)
            sim = pyrtl.Simulation(tracer=None, block=post)
        except Exception as e:
            ctx.spec_violation('synthesize:raises', 'synthesize/Simulation raised on the shared-select design %d: %s' % (k, e),
                               {'part': 'shared-select', 'design': k, 'merge_io_vectors': merge})
            continue
        top = (1 << W) - 1
        vecs = [(top, 0), (0, top), (top, top), (1 << (W - 1), 1), (0x5555 & top, 0xAAAA & top)]
        vecs += [(rng.getrandbits(W), rng.getrandbits(W)) for _ in range(6)]
        reported = False
        for (x, y) in vecs:
            for sv in range(4):
                v = {'a': x, 'b': y, 's0': sv & 1, 's1': sv >> 1}
                try:
                    sim.step(step_inputs(post, orig_inputs, v, merge))
                except Exception as e_run:
                    ctx.spec_violation('synthesize:testbench-raises', 'stepping the synthesized shared-select design %d raised %s: %s'
                                       % (k, type(e_run).__name__, str(e_run)[:200]), {'part': 'shared-select', 'design': k})
                    reported = True
                    break
                ctx.case(('shared-select', k, x, y, sv), nontrivial=True,
                         sample={'part': 'shared-select', 'design': k, 'data_widths': widths, 'inputs': v} if (k, sv) == (0, 1) and x == top else None)
                for nm in sorted(outs):
                    got = read_output(sim, post, outs[nm], merge)
                    e_ = exp[nm](v)
                    if got != e_ and not reported:
                        reported = True
                        ctx.spec_violation('synthesize:shared-select', 'synthesized mux %s (one of %d muxes of data widths %s on one select wire) '
                                           'gives %d, expected %d for %s' % (nm, len(outs), sorted(widths), got, e_, v),
                                           {'part': 'shared-select', 'design': k, 'output': nm, 'inputs': v, 'expected': e_, 'got': got,
                                            'merge_io_vectors': merge, 'data_widths': sorted(widths)})
            if reported:
                break
        ctx.count('shared_select_designs', 'muxes=%d' % len(outs))


# ----------------------------------------------------------------------------- (a')

def part_a_truncated(ctx):
    """hand-built nets whose destination is NARROWER than the natural result (legal for
    sanity_check_net, never produced by the operator API): exercises `dest <<= _basic_xxx(...)`
    truncation in _replace_op and the per-bit loops of _decompose bounded by len(dest)."""
    N = 3 if ctx.tier == 'quick' else 4
    exprs, cases = [], []
    struct_items = []
    for n in range(1, N + 1):
        pyrtl.reset_working_block()
        block = pyrtl.working_block()
        a = pyrtl.Input(n, 'a')
        b = pyrtl.Input(n, 'b')
        s = pyrtl.Input(1, 's')
        outs = []

        def raw(op, args, wd, tag, param=None):
            t = pyrtl.WireVector(wd, 't_%s_%d' % (tag, wd))
            block.add_net(pyrtl.LogicNet(op, param, tuple(args), (t,)))
            o = pyrtl.Output(wd, 'o_%s_%d' % (tag, wd))
            o <<= t
            outs.append((o, tag, wd))

        for wd in range(1, n + 2):
            raw('+', (a, b), wd, 'add')
            raw('-', (a, b), wd, 'sub')
        for wd in range(1, 2 * n + 1):
            raw('*', (a, b), wd, 'mul')
        for wd in range(1, n + 1):
            raw('&', (a, b), wd, 'and')
            raw('|', (a, b), wd, 'or')
            raw('^', (a, b), wd, 'xor')
            raw('n', (a, b), wd, 'nand')
            raw('~', (a,), wd, 'not')
            raw('w', (a,), wd, 'buf')
            raw('x', (s, a, b), wd, 'mux')
            raw('s', (a,), wd, 'selrev', tuple(reversed(range(n))))
        for wd in range(1, 2 * n + 1):
            raw('c', (a, b), wd, 'cat')
        merge = n % 2 == 1
        try:
            post = pyrtl.synthesize(update_working_block=False, merge_io_vectors=merge, block=block)
            sim = pyrtl.Simulation(tracer=pyrtl.SimulationTrace(block=post), block=post)
        except Exception as e:
            ctx.spec_violation('synthesize:raises', 'synthesize raised on hand-built truncated nets (n=%d): %s' % (n, e),
                               {'part': 'a-truncated', 'n': n})
            continue
        orig_inputs = [a, b, s]
        inputs, got_rows = [], []
        for x in range(1 << n):
            for y in range(1 << n):
                for sv in (0, 1):
                    vals = {'a': x, 'b': y, 's': sv}
                    inputs.append(vals)
                    sim.step(step_inputs(post, orig_inputs, vals, merge))
                    got_rows.append([read_output(sim, post, o, merge) for o, _, _ in outs])
        dump = nlx.Dump(block)
        outids = nlx.zlist([dump.wid[o] for o, _, _ in outs])
        base = '%s 0 [] [] %s' % (dump.coq(), dump.inputs(inputs))
        exprs.append('spec_case %s []' % base)
        exprs.append('synth_case %s %s' % (base, outids))
        # the flattened model netlist under Sem.run (gate trees: only the small widths are executable)
        exprs.append('flat_case %s %s %s' % (dump.coq(), dump.inputs(inputs), outids) if n <= 2 else '[[1; 1; 1]]')
        cases.append(dict(n=n, outs=outs, inputs=inputs, got=got_rows, names=dump.names(), merge=merge, dump=dump))
        if n <= (2 if ctx.tier == 'quick' else 3):
            souts = [o for o, _, _ in outs]
            try:
                struct_items.append(('truncated n=%d merge=%s' % (n, merge), dump, souts,
                                     real_gate_trees(post, block, dump, merge, souts)))
            except NotAGateTree as e:
                ctx.spec_violation('synthesize:shape', 'a bit of the synthesized truncated design n=%d is not driven by a '
                                   'tree of 1-bit gates: %s' % (n, e), {'part': 'a-truncated', 'n': n})
    try:
        res = ctx.coq_eval(exprs, IMPORTS_SPEC + '\n' + IMPORTS_SYNTH, tag='c03trunc', shard=1, jobs=8)
    except Exception as e:
        ctx.model_mismatch('truncated-destination cases could not be evaluated in Coq: %s' % str(e)[-600:], {})
        return
    for k, c in enumerate(cases):
        spec, model, flat = res[3 * k], res[3 * k + 1], res[3 * k + 2]
        if flat[0] != [1, 1, 1]:
            ctx.model_mismatch('flatten of the model: ids_okb / shapeb merged / shapeb unmerged = %r on the hand-built '
                               'design n=%d' % (flat[0], c['n']), {})
        if len(flat) > 1:
            ctx.count('flatten_sem_run_cycles', 'n=%d' % c['n'], len(flat) - 1)
            if flat[1:] != c['got']:
                ctx.model_mismatch('Sem.run of the flattened model netlist and the real synthesized block disagree on '
                                   'the hand-built design n=%d' % c['n'], {})
        cols = [c['names'].index(o.name) for o, _, _ in c['outs']]
        if spec[0][0] != 1 or model[0][0] != 1:
            ctx.model_mismatch('wfb/synth_okb false on the hand-built truncated design n=%d' % c['n'], {})
        seen = set()
        for t, vals in enumerate(c['inputs']):
            ctx.case(('a-trunc', c['n'], vals['a'], vals['b'], vals['s']), nontrivial=True)
            for j, (o, tag, wd) in enumerate(c['outs']):
                got, exp, mod = c['got'][t][j], spec[2 + t][cols[j]], model[1 + t][j]
                rep = {'part': 'a-truncated', 'op': tag, 'n': c['n'], 'dest_width': wd, 'inputs': vals,
                       'expected': exp, 'got': got, 'merge_io_vectors': c['merge']}
                if got != exp and (tag, wd, 's') not in seen:
                    seen.add((tag, wd, 's'))
                    sig = 'synthesize:truncated-dest:op=%s' % tag
                    if tag == 'sub' and wd == c['n'] + 1 and (got ^ exp) == 1 << c['n']:
                        sig = 'synthesize:sub-top-bit'
                    ctx.spec_violation(sig,
                                       'synthesized %s net with %d-bit destination (args %d bits): %s -> %d, Sem says %d' % (
                                           tag, wd, c['n'], vals, got, exp), rep)
                if got != mod and (tag, wd, 'm') not in seen:
                    seen.add((tag, wd, 'm'))
                    ctx.model_mismatch('Coq model of synthesize and the real block disagree on a %s net with %d-bit '
                                       'destination (args %d bits): %s model=%d real=%d' % (tag, wd, c['n'], vals, mod, got), rep)
        ctx.count('truncated_dest_outputs', 'n=%d' % c['n'], len(c['outs']))
    structural_tie(ctx, 'c03structt', struct_items)
    check_premises(ctx, 'c03premt', [('truncated n=%d' % c['n'], c['dump'], {}) for c in cases])


# ----------------------------------------------------------------------------- (b)

CONFIGS = [(True, True), (True, False), (False, True), (False, False)]   # (merge_io_vectors, update_working_block)


def orig_memories(block):
    seen = {}
    for net in block.logic_subset('m@'):
        seen[id(net.op_param[1])] = net.op_param[1]
    return list(seen.values())


def mem_table(view, m, default_value=0):
    """contents of memory m as seen through an inspect_mem view (dict or DllMemInspector), every address"""
    if isinstance(view, dict):
        return [view.get(a, default_value) for a in range(1 << m.addrwidth)]
    return [view[a] for a in range(1 << m.addrwidth)]


def observe_mems(sim, d, key=lambda m: m, default_value=0):
    """inspect_mem(<the ORIGINAL MemBlock>) for every memory of the design"""
    return [mem_table(sim.inspect_mem(key(m)), m, default_value) for m in d.mems]


def run_original(d, regmap, memmap, inputs, default_value=0, record_mems=False):
    block = d.block
    sim = pyrtl.Simulation(tracer=pyrtl.SimulationTrace(block=block), register_value_map=dict(regmap),
                           memory_value_map={m: dict(c) for m, c in memmap.items()}, block=block,
                           default_value=default_value)
    trace = []
    allw = sorted(block.wirevector_set, key=lambda w: w.name)
    full = []
    obs = {}
    for c, stp in enumerate(inputs):
        sim.step(dict(stp))
        trace.append([sim.inspect(o.name) for o in d.outputs])
        full.append({w.name: sim.value[w] for w in allw})
        if c == len(inputs) // 2:
            obs['mid'] = observe_mems(sim, d, default_value=default_value)
    obs['final'] = observe_mems(sim, d, default_value=default_value)
    if record_mems:
        d._mem_obs = obs
    return trace, full


def synth_bit_wire(post, w, i, merge):
    """the 1-bit wire of the synthesized block that carries bit i of original wire w"""
    if isinstance(w, (pyrtl.Input, pyrtl.Output)):
        if merge:
            name = 'tmp_%s_synth_%d' % (w.name, i)
        else:
            name = w.name if len(w) == 1 else '%s[%d]' % (w.name, i)
    else:
        name = '%s_synth_%d' % (w.name, i)
    return post.wirevector_by_name.get(name)


def run_post(d, post, merge, regmap, memmap, inputs, mem_by_id_workaround=False, bits_of=None, default_value=0):
    """the same testbench on the synthesized block"""
    rmap = {}
    for r, v in regmap.items():
        for i, rb in enumerate(post.reg_map[r]):
            rmap[rb] = (v >> i) & 1
    if mem_by_id_workaround:
        mmap = {}
        for m, c in memmap.items():
            keys = [k for k in post.mem_map if k.id == m.id]
            mmap[post.mem_map[keys[0]]] = dict(c)
        # give the post-synthesis memory itself: bypass PostSynthBlock.mem_map
        saved = post.mem_map
        post.mem_map = {v: v for v in mmap}
        try:
            sim = pyrtl.Simulation(tracer=pyrtl.SimulationTrace(block=post), register_value_map=rmap,
                                   memory_value_map=mmap, block=post, default_value=default_value)
        finally:
            post.mem_map = saved
    else:
        mmap = {m: dict(c) for m, c in memmap.items()}     # keyed by the ORIGINAL MemBlock
        sim = pyrtl.Simulation(tracer=pyrtl.SimulationTrace(block=post), register_value_map=rmap,
                               memory_value_map=mmap, block=post, default_value=default_value)
    trace = []
    for stp in inputs:
        sim.step(step_inputs(post, d.inputs, stp, merge))
        trace.append([read_output(sim, post, o, merge) for o in d.outputs])
        if bits_of is not None:
            bits_of.append({w.name: [sim.value[b] if b is not None else None for b in bws]
                            for w, bws in bits_of_wires(post, d.block, merge)})
    return trace


def bits_of_wires(post, block, merge):
    cache = getattr(post, '_verif_bits', None)
    if cache is None:
        cache = [(w, [synth_bit_wire(post, w, i, merge) for i in range(len(w))])
                 for w in sorted(block.wirevector_set, key=lambda w: w.name)]
        post._verif_bits = cache
    return cache


def full_regmap(d, regmap):
    """register_value_map that states every reset value explicitly"""
    out = dict(regmap)
    for r in d.regs:
        if r not in out:
            out[r] = r.reset_value if r.reset_value is not None else 0
    return out


def first_diff(t1, t2, names):
    for c, (r1, r2) in enumerate(zip(t1, t2)):
        for nm, v1, v2 in zip(names, r1, r2):
            if v1 != v2:
                return {'cycle': c, 'output': nm, 'expected': v1, 'got': v2}
    return None


def check_maps(ctx, d, post, merge, rep):
    block = d.block
    ok = True

    def bad(sig, what):
        ctx.spec_violation(sig, what, rep)

    ios = list(block.wirevector_subset((pyrtl.Input, pyrtl.Output)))
    if {id(k) for k in post.io_map} != {id(w) for w in ios}:
        bad('synthesize:io_map-keys', 'io_map is not keyed exactly by the original I/O wires')
        ok = False
    else:
        for w in ios:
            vs = post.io_map[w]
            if merge:
                good = (len(vs) == 1 and vs[0].name == w.name and len(vs[0]) == len(w)
                        and type(vs[0]) is type(w) and vs[0] in post.wirevector_set)
            else:
                names = [w.name] if len(w) == 1 else ['%s[%d]' % (w.name, i) for i in range(len(w))]
                good = (len(vs) == len(w) and [v.name for v in vs] == names
                        and all(len(v) == 1 and type(v) is type(w) and v in post.wirevector_set for v in vs))
            if not good:
                bad('synthesize:io_map-values', 'io_map[%s] is not the expected list of post-synthesis I/O wires' % w.name)
                ok = False
    regs = list(block.wirevector_subset(pyrtl.Register))
    if {id(k) for k in post.reg_map} != {id(r) for r in regs}:
        bad('synthesize:reg_map-keys', 'reg_map is not keyed exactly by the original registers')
        ok = False
    else:
        for r in regs:
            vs = post.reg_map[r]
            if not (len(vs) == len(r) and all(isinstance(v, pyrtl.Register) and len(v) == 1
                                              and v in post.wirevector_set for v in vs)):
                bad('synthesize:reg_map-values', 'reg_map[%s] is not a list of %d one-bit registers' % (r.name, len(r)))
                ok = False
    # per-bit reset values: bit i of reset_value, None stays None (an explicit reset_value=0 is NOT None)
    if ok:
        for r in regs:
            want = [None if r.reset_value is None else (r.reset_value >> i) & 1 for i in range(len(r))]
            got = [v.reset_value for v in post.reg_map[r]]
            if got != want:
                bad('synthesize:reset-value-bits',
                    'reg_map[%s] (reset_value=%r) has per-bit reset values %r, expected %r' % (r.name, r.reset_value, got, want))
                ok = False
    mems = orig_memories(block)
    # a ROM of the synthesized block must read like the original at EVERY address (incl. pad_with_zeros)
    for m in mems:
        pm = post.mem_map.get(m)
        if isinstance(m, pyrtl.RomBlock) and pm is not None:
            def table(rom):
                out = []
                for a in range(1 << rom.addrwidth):
                    try:
                        out.append(rom._get_read_data(a))
                    except Exception as e:
                        out.append('raises %s' % type(e).__name__)
                return out
            if not isinstance(pm, pyrtl.RomBlock) or table(pm) != table(m) or \
                    getattr(pm, 'pad_with_zeros', None) != getattr(m, 'pad_with_zeros', None):
                bad('synthesize:rom-copy', 'ROM %s of the synthesized block does not read like the original '
                    '(pad_with_zeros %r -> %r; contents %r -> %r)' % (
                        m.name, getattr(m, 'pad_with_zeros', None), getattr(pm, 'pad_with_zeros', None),
                        table(m), table(pm) if isinstance(pm, pyrtl.RomBlock) else type(pm).__name__))
                ok = False
    if {id(k) for k in post.mem_map} != {id(m) for m in mems}:
        names_ok = sorted(k.name for k in post.mem_map) == sorted(m.name for m in mems)
        bad('synthesize:mem_map-not-keyed-by-original',
            'PostSynthBlock.mem_map is not keyed by the original MemBlock objects (%s by name)'
            % ('same memories' if names_ok else 'different memories'))
        ok = False
    # a synthesized memory keeps the id of the memory it stands for (what inspect_mem / FastSimulation key on),
    # and the nets of the synthesized block carry that id
    for m in mems:
        pm = post.mem_map.get(m)
        if pm is not None and pm.id != m.id:
            bad('synthesize:mem_map-id', 'mem_map[%s] has id %r, the original memory has id %r' % (m.name, pm.id, m.id))
            ok = False
    for n in post.logic_subset('m@'):
        if n.op_param[0] != n.op_param[1].id:
            bad('synthesize:mem_map-id', 'a memory net of the synthesized block carries memid %r for memory id %r' % (
                n.op_param[0], n.op_param[1].id))
            ok = False
            break
    post_mems = {id(n.op_param[1]) for n in post.logic_subset('m@')}
    if {id(v) for v in post.mem_map.values()} != post_mems:
        bad('synthesize:mem_map-values', 'mem_map values are not the memories of the synthesized block')
        ok = False
    return ok


def py_shape_ok(post, merge):
    """Python mirror of Coq shapeb (used for the census; the Coq predicate is the checked one)"""
    src = {}
    for n in post.logic:
        for w in n.dests:
            src[w] = n
    users = {}
    for n in post.logic:
        for w in n.args:
            users.setdefault(w, []).append(n)
    for n in post.logic:
        ws = n.args + n.dests
        if n.op in '~&|^nrw' and all(len(w) == 1 for w in ws):
            continue
        if n.op in 'm@':
            continue
        if n.op == 's' and len(n.dests[0]) == 1:
            a = n.args[0]
            if isinstance(a, pyrtl.Input) and merge:
                continue
            if a in src and src[a].op == 'm':
                continue
        if n.op == 'c' and all(len(w) == 1 for w in n.args):
            if merge and isinstance(n.dests[0], pyrtl.Output):
                continue
            us = users.get(n.dests[0], [])
            if us and all(u.op in 'm@' or (merge and u.op == 'w' and isinstance(u.dests[0], pyrtl.Output))
                          for u in us):
                continue
        if n.op == 'w' and merge and isinstance(n.dests[0], pyrtl.Output) and n.args[0] in src \
                and src[n.args[0]].op == 'c':
            continue
        return False, str(n)
    return True, None


N_DIRECTED = 18      # 0-5 shared address wire; 6-7 reset None / 0 / non-zero; 8-9 partial ROMs with pad_with_zeros;
                     # 10-11 write ports with constant enables; 12-13 memories sharing one name;
                     # 14-15 write-only memories (log buffers observed through inspect_mem only);
                     # 16-17 declared but unused (reserved / debug) Inputs and Consts


DIRECTED_KIND = ['directed-shared-address'] * 3 + ['directed-reset-values', 'directed-partial-roms',
                                                  'directed-constant-write-enables', 'directed-same-name-memories',
                                                  'directed-write-only-memories', 'directed-unused-ports']


def build_directed_enables(ctx, k):
    """every kind of write-enable the API can produce, one memory each: the constant 0 (a port switched off at
    build time), the constant 1 given explicitly, the plain `mem[a] <<= d` port, a constant that reaches the
    port through logic, and a dynamic enable; a separate read address and a history with many address
    collisions, so a write in one cycle is read in later cycles"""
    rng = ctx.sub_rng('directed-enables', k)
    pyrtl.reset_working_block()
    d = gen_designs.Design(pyrtl.working_block())
    aw = 2
    wa = pyrtl.Input(aw, 'wa')
    ra = pyrtl.Input(aw, 'ra')
    din = pyrtl.Input(4, 'din')
    en = pyrtl.Input(1, 'en')
    d.inputs = [wa, ra, din, en]
    kinds = ['const0', 'const1', 'plain', 'derived0', 'derived1', 'dynamic']
    if k % 2:
        kinds.reverse()
    for j, kind in enumerate(kinds):
        m = pyrtl.MemBlock(bitwidth=4, addrwidth=aw, name='em_' + kind, max_read_ports=None,
                           max_write_ports=None, asynchronous=True)
        d.mems.append(m)
        if kind == 'const0':
            m[wa] <<= pyrtl.MemBlock.EnabledWrite(din, pyrtl.Const(0, bitwidth=1))
        elif kind == 'const1':
            m[wa] <<= pyrtl.MemBlock.EnabledWrite(din, pyrtl.Const(1, bitwidth=1))
        elif kind == 'plain':
            m[wa] <<= din
        elif kind == 'derived0':
            m[wa] <<= pyrtl.MemBlock.EnabledWrite(din, en & pyrtl.Const(0, bitwidth=1))
        elif kind == 'derived1':
            m[wa] <<= pyrtl.MemBlock.EnabledWrite(din, en | pyrtl.Const(1, bitwidth=1))
        else:
            m[wa] <<= pyrtl.MemBlock.EnabledWrite(din, en)
        o = pyrtl.Output(4, 'o_' + kind)
        o <<= m[ra]
        d.outputs.append(o)
    d.ops = ['memwr'] * len(kinds) + ['memrd'] * len(kinds)
    memmap = {m: {x: (3 * x + j + 9) % 16 for x in range(1 << aw)} for j, m in enumerate(d.mems) if (j + k) % 3}
    n = 10 if ctx.tier == 'quick' else 20
    inputs = [{'wa': rng.randrange(4), 'ra': rng.randrange(4), 'din': rng.randrange(1, 16), 'en': rng.randrange(2)}
              for _ in range(n)]
    return d, {}, memmap, inputs


def build_directed_write_only(ctx, k):
    """memories that the design only WRITES (log / trace buffers): observable solely through the final and
    mid-run memory contents (inspect_mem by the original MemBlock); multi-bit and 1-bit addresses and data"""
    rng = ctx.sub_rng('directed-write-only', k)
    pyrtl.reset_working_block()
    d = gen_designs.Design(pyrtl.working_block())
    a = pyrtl.Input(3, 'a')
    b = pyrtl.Input(2, 'b')
    en = pyrtl.Input(1, 'en')
    d.inputs = [a, b, en]
    wptr = pyrtl.Register(3, 'wptr', reset_value=5 if k % 2 else None)
    wptr.next <<= (wptr + 1)[:3]
    d.regs.append(wptr)
    log = pyrtl.MemBlock(bitwidth=5, addrwidth=3, name='log', max_read_ports=None, max_write_ports=None,
                         asynchronous=True)
    log[wptr] <<= pyrtl.MemBlock.EnabledWrite(pyrtl.concat(a, b), en)
    flags = pyrtl.MemBlock(bitwidth=1, addrwidth=2, name='flags', max_read_ports=None, max_write_ports=None,
                           asynchronous=True)
    flags[b] <<= a[0]
    wide = pyrtl.MemBlock(bitwidth=4, addrwidth=1, name='wide1', max_read_ports=None, max_write_ports=None,
                          asynchronous=True)
    wide[en] <<= pyrtl.MemBlock.EnabledWrite((a + b)[:4], a[2])
    d.mems = [log, flags, wide]
    if k % 2:
        rw = pyrtl.MemBlock(bitwidth=3, addrwidth=2, name='rw', max_read_ports=None, max_write_ports=None,
                            asynchronous=True)
        rw[b] <<= pyrtl.MemBlock.EnabledWrite(a, en)
        o2 = pyrtl.Output(3, 'o_rw')
        o2 <<= rw[wptr[:2]]
        d.mems.append(rw)
        d.outputs.append(o2)
    o = pyrtl.Output(3, 'o_ptr')
    o <<= wptr ^ a
    d.outputs.append(o)
    d.ops = ['memwr'] * len(d.mems) + ['+', 'concat', '^']
    memmap = {log: {1: 9, 6: 30}} if k % 2 else {flags: {0: 1, 3: 1}, wide: {1: 7}}
    n = 10 if ctx.tier == 'quick' else 20
    inputs = [{'a': rng.randrange(8), 'b': rng.randrange(4), 'en': rng.randrange(2)} for _ in range(n)]
    return d, {}, memmap, inputs


def build_directed_unused_ports(ctx, k):
    """ports the design declares but no net uses (reserved / debug Inputs, a Const nobody reads): the original
    Simulation insists on a value for every Input each cycle, so the testbench supplies them -- and must keep
    running unchanged on the synthesized block; io_map must cover EVERY original Input and Output"""
    rng = ctx.sub_rng('directed-unused', k)
    pyrtl.reset_working_block()
    d = gen_designs.Design(pyrtl.working_block())
    a = pyrtl.Input(3, 'a')
    dbg = pyrtl.Input(4, 'dbg')        # never used
    b = pyrtl.Input(2, 'b')
    rsv = pyrtl.Input(1, 'rsv')        # never used, 1 bit
    d.inputs = [a, dbg, b, rsv]
    if k % 2:
        pyrtl.Const(5, bitwidth=3)     # a constant nobody reads
    acc = pyrtl.Register(4, 'acc', reset_value=3)
    acc.next <<= (acc + a)[:4]
    d.regs.append(acc)
    o = pyrtl.Output(4, 'o_acc')
    o <<= acc ^ b.zero_extended(4)
    o2 = pyrtl.Output(1, 'o_lt')
    o2 <<= a[:2] < b
    d.outputs = [o, o2]
    d.ops = ['+', '^', '<', 'zext']
    n = 6 if ctx.tier == 'quick' else 12
    inputs = [{'a': rng.randrange(8), 'dbg': rng.randrange(16), 'b': rng.randrange(4), 'rsv': rng.randrange(2)}
              for _ in range(n)]
    return d, {}, {}, inputs


def build_directed_same_name(ctx, k):
    """a helper that creates `MemBlock(name='table')` internally, instantiated several times: distinct memories
    (and a ROM) that share one NAME, initialised differently through memory_value_map keyed by the original
    objects, written and read independently"""
    rng = ctx.sub_rng('directed-same-name', k)
    pyrtl.reset_working_block()
    d = gen_designs.Design(pyrtl.working_block())
    a = pyrtl.Input(2, 'a')
    b = pyrtl.Input(2, 'b')
    din = pyrtl.Input(4, 'din')
    en = pyrtl.Input(1, 'en')
    d.inputs = [a, b, din, en]

    def table_unit(j, addr, waddr, wen):
        m = pyrtl.MemBlock(bitwidth=4, addrwidth=2, name='table', max_read_ports=None, max_write_ports=None,
                           asynchronous=True)
        m[waddr] <<= pyrtl.MemBlock.EnabledWrite(din, wen)
        o = pyrtl.Output(4, 'o_table%d' % j)
        o <<= m[addr]
        d.mems.append(m)
        d.outputs.append(o)

    n_units = 2 + k % 2
    for j in range(n_units):
        table_unit(j, a if j % 2 == 0 else b, b if j % 2 == 0 else a, en if j != 1 else ~en)
    rom = pyrtl.RomBlock(bitwidth=4, addrwidth=2, romdata=[7, 1, 12, 5], name='table' if k % 2 else 'lut',
                         max_read_ports=None, asynchronous=True)
    d.roms.append(rom)
    o = pyrtl.Output(4, 'o_rom')
    o <<= rom[a]
    d.outputs.append(o)
    d.ops = ['memwr', 'memrd'] * n_units + ['romrd']
    # different contents per unit; the LAST unit is left out of the map in odd designs (starts from default)
    memmap = {m: {x: (5 * j + 2 * x + 1) % 16 for x in range(4)} for j, m in enumerate(d.mems)
              if not (k % 2 and j == n_units - 1)}
    n = 8 if ctx.tier == 'quick' else 16
    inputs = [{'a': rng.randrange(4), 'b': rng.randrange(4), 'din': rng.randrange(16), 'en': rng.randrange(2)}
              for _ in range(n)]
    return d, {}, memmap, inputs


def build_directed_regs(ctx, k):
    """registers with reset_value None, explicit 0 and non-zero side by side (widths 1..5)"""
    rng = ctx.sub_rng('directed-regs', k)
    pyrtl.reset_working_block()
    d = gen_designs.Design(pyrtl.working_block())
    a = pyrtl.Input(3, 'a')
    d.inputs = [a]
    specs = [(1, None), (1, 0), (3, 0), (3, None), (4, 0b1010), (5, 0), (2, 3)]
    if k % 2:
        rng.shuffle(specs)
    prev = a
    for j, (bw, rv) in enumerate(specs):
        r = pyrtl.Register(bw, 'q%d' % j, reset_value=rv)
        r.next <<= (prev + a)[:bw] if len(prev) >= bw else (prev.zero_extended(bw) ^ a.zero_extended(max(bw, 3))[:bw])
        d.regs.append(r)
        o = pyrtl.Output(bw, 'oq%d' % j)
        o <<= r
        d.outputs.append(o)
        prev = r
    d.ops = ['+', 'trunc', '^']
    inputs = [{'a': rng.randrange(8)} for _ in range(6 if ctx.tier == 'quick' else 12)]
    regmap = {d.regs[-1]: 1} if k % 2 else {}
    return d, regmap, {}, inputs


def build_directed_roms(ctx, k):
    """ROMs with pad_with_zeros=True and PARTIAL romdata (short list, sparse dict) next to a fully populated
    one; the stimulus walks every address, covered or not"""
    rng = ctx.sub_rng('directed-roms', k)
    pyrtl.reset_working_block()
    d = gen_designs.Design(pyrtl.working_block())
    a = pyrtl.Input(3, 'a')
    d.inputs = [a]
    r_list = pyrtl.RomBlock(bitwidth=4, addrwidth=3, romdata=[9, 3, 14][:2 + k % 2], name='prom_list',
                            max_read_ports=None, asynchronous=True, pad_with_zeros=True)
    r_dict = pyrtl.RomBlock(bitwidth=5, addrwidth=3, romdata={1: 17, 6: 5} if k % 2 else {0: 30, 7: 1, 4: 11},
                            name='prom_dict', max_read_ports=None, asynchronous=True, pad_with_zeros=True)
    r_full = pyrtl.RomBlock(bitwidth=3, addrwidth=3, romdata=[(x * 5 + 2) % 8 for x in range(8)], name='prom_full',
                            max_read_ports=None, asynchronous=True)
    d.roms = [r_list, r_dict, r_full]
    acc = pyrtl.Register(5, 'acc', reset_value=0)
    d.regs.append(acc)
    vals = [pyrtl.as_wires(m[a]) for m in d.roms]
    acc.next <<= (acc + vals[1])[:5]
    for j, v in enumerate(vals + [acc]):
        o = pyrtl.Output(len(v), 'orom%d' % j)
        o <<= v
        d.outputs.append(o)
    d.ops = ['romrd'] * 3 + ['+']
    order = list(range(8))
    rng.shuffle(order)
    inputs = [{'a': x} for x in order]      # every address, covered or not
    return d, {}, {}, inputs




def build_directed(ctx, k):
    """Directed designs for wire-IDENTITY mistakes in the lowering: 2-3 memories (MemBlock / RomBlock
    mixes with pairwise different contents) read through the VERY SAME address WireVector object --
    an Input directly (k even) or an intermediate wire / a Register (k odd) --, that same wire also
    the address of one write port and the DATA of another, every memory initialised through
    memory_value_map keyed by the original MemBlock."""
    if k in (6, 7):
        return build_directed_regs(ctx, k)
    if k in (8, 9):
        return build_directed_roms(ctx, k)
    if k in (10, 11):
        return build_directed_enables(ctx, k)
    if k in (12, 13):
        return build_directed_same_name(ctx, k)
    if k in (14, 15):
        return build_directed_write_only(ctx, k)
    if k in (16, 17):
        return build_directed_unused_ports(ctx, k)
    rng = ctx.sub_rng('directed', k)
    pyrtl.reset_working_block()
    d = gen_designs.Design(pyrtl.working_block())
    aw = 2 + k % 2
    a = pyrtl.Input(aw, 'a')
    b = pyrtl.Input(aw, 'b')
    din = pyrtl.Input(4, 'din')
    en = pyrtl.Input(1, 'en')
    d.inputs = [a, b, din, en]
    variant = k % 3
    if variant == 0:
        addr = a                                   # the Input itself
    elif variant == 1:
        addr = pyrtl.WireVector(aw, 'addr_w')      # one intermediate wire object
        addr <<= a ^ b
    else:
        addr = pyrtl.Register(aw, 'addr_r', reset_value=rng.randrange(1, 1 << aw))
        addr.next <<= a
        d.regs.append(addr)
    widths = [4, aw, 5][:2 + k % 2]
    mems = []
    for j, bw in enumerate(widths):
        m = pyrtl.MemBlock(bitwidth=bw, addrwidth=aw, name='dm%d' % j, max_read_ports=None,
                           max_write_ports=None, asynchronous=True)
        mems.append(m)
        d.mems.append(m)
    romvals = [rng.randrange(1 << 3) ^ (x * 3 + 1) & 7 for x in range(1 << aw)]
    rom = pyrtl.RomBlock(bitwidth=3, addrwidth=aw, romdata=list(romvals), name='drom', max_read_ports=None,
                         asynchronous=True)
    rom._verif_table = list(romvals)
    d.roms.append(rom)
    outs = []
    # every memory and the ROM read through the SAME address wire object, in an order that varies
    order = list(mems) + [rom]
    rng.shuffle(order)
    for m in order:
        outs.append(('rd_' + m.name, pyrtl.as_wires(m[addr])))
    # a second read of the first memory through another wire (must not alias the first port)
    outs.append(('rd2_' + mems[0].name, pyrtl.as_wires(mems[0][b])))
    # the same wire as ADDRESS of a write port and as DATA of another write port
    mems[0][addr] <<= pyrtl.MemBlock.EnabledWrite(din[:mems[0].bitwidth], en)
    mems[1][b] <<= pyrtl.MemBlock.EnabledWrite(addr, ~en)     # mems[1].bitwidth == aw: the wire itself is the data
    if len(mems) > 2:
        mems[2][addr] <<= pyrtl.concat(din, en)
    for nm, w in outs:
        o = pyrtl.Output(len(w), 'o_' + nm)
        o <<= w
        d.outputs.append(o)
    d.ops = ['memrd'] * (len(mems) + 1) + ['romrd'] + ['memwr'] * len(mems)
    ncycles = 8 if ctx.tier == 'quick' else 16
    regmap = {}
    if d.regs and k % 2:
        regmap[d.regs[0]] = rng.randrange(1 << aw)
    # pairwise different contents at every address
    memmap = {m: {x: (x * (2 * j + 3) + 5 * j + 1) % (1 << m.bitwidth) for x in range(1 << aw)}
              for j, m in enumerate(mems)}
    inputs = [{'a': rng.randrange(1 << aw), 'b': rng.randrange(1 << aw), 'din': rng.randrange(16),
               'en': rng.randrange(2)} for _ in range(ncycles)]
    return d, regmap, memmap, inputs


def build_case(ctx, i):
    if i < 0:
        return build_directed(ctx, -i - 1)
    rng = ctx.sub_rng('design', i)
    if i % 5 == 4:
        d = gen_designs.make_design(rng, wide_prob=0.25, max_width=33,
                                    ops_subset=['&', '|', '^', '~', 'nand', '+', '-', '<', '>', '==', '!=', '<=',
                                                '>=', 'mux', 'concat', 'slice', 'index', 'const', 'trunc', 'zext',
                                                'sext', 'memrd', 'romrd', 'select'])
    elif i % 3 == 1:
        d = gen_designs.make_design(rng, wide_prob=0.0, max_width=8, sparse_rom_prob=0.8)
    else:
        d = gen_designs.make_design(rng, wide_prob=0.0, max_width=8)
    ncycles = rng.randint(3, 8 if ctx.tier == 'quick' else 14)
    regmap, memmap, inputs = gen_designs.make_stimulus(rng, d, ncycles)
    return d, regmap, memmap, inputs


def part_b(ctx, only=None):
    n = 30 if ctx.tier == 'quick' else 400
    spec_exprs, spec_cases = [], []
    shape_exprs, shape_cases = [], []
    model_exprs, model_cases = [], []
    prem_items = []
    for i in (only if only is not None else [-(k + 1) for k in range(N_DIRECTED)] + list(range(n))):
        d, regmap, memmap, inputs = build_case(ctx, i)
        ctx.count('design_kind', 'random' if i >= 0 else DIRECTED_KIND[min((-i - 1) // 2, 8)])
        block = d.block
        outnames = [o.name for o in d.outputs]
        base_rep = {'part': 'b', 'seed': ctx.seed, 'design': i, 'tier': ctx.tier,
                    'nets': [str(x) for x in block.logic][:200], 'inputs': inputs,
                    'regmap': {r.name: v for r, v in regmap.items()},
                    'resets': {r.name: r.reset_value for r in d.regs},
                    'memmap': {m.name: c for m, c in memmap.items()}}
        try:
            t_orig, full_orig = run_original(d, regmap, memmap, inputs, record_mems=True)
        except pyrtl.PyrtlError as e:
            ctx.spec_violation('api-built-design-rejected', 'Simulation rejected an API-built design: %s' % e, base_rep)
            continue
        dump = nlx.Dump(block)
        names = dump.names()
        out_cols = [names.index(nm) for nm in outnames]
        orig_expr = '%s 0 %s %s %s' % (dump.coq(), dump.regmap(regmap), dump.memmap(memmap), dump.inputs(inputs))
        probes = [(m.id, a_) for m in d.mems for a_ in range(1 << m.addrwidth)]
        spec_exprs.append('spec_case %s %s' % (orig_expr, nlx.pairs(probes)))
        prem_items.append(('design %d' % i, dump, base_rep))
        spec_cases.append(dict(i=i, out_cols=out_cols, t_orig=t_orig, outnames=outnames, rep=base_rep,
                               mem_final=[v for tab in d._mem_obs['final'] for v in tab]))
        # the model is asked for EVERY wire of the original design (re-assembled from the model's bits)
        model_exprs.append('synth_case %s %s' % (orig_expr, nlx.zlist([dump.wid[w] for w in dump.wires])))
        model_cases.append(dict(i=i, t_orig=t_orig, outnames=names, rep=base_rep, t_post=None))
        for o in d.ops:
            ctx.count('design_ops', o)
        ctx.count('design_registers', len(d.regs))
        ctx.count('design_reset_nonzero', sum(1 for r in d.regs if r.reset_value))
        ctx.count('design_memories', len(d.mems))
        ctx.count('design_roms', len(d.roms))
        ctx.count('design_meminit', sum(1 for c in memmap.values() if c))
        toggled = sum(1 for k in range(len(outnames)) if len({row[k] for row in t_orig}) > 1)
        nontrivial = (2 * toggled >= len(outnames)) or bool(d.regs) or bool(d.mems)
        for merge, uwb in CONFIGS:
            try:     # an unexpected exception in one configuration must not abort the whole run
                rep = dict(base_rep, merge_io_vectors=merge, update_working_block=uwb)
                pyrtl.set_working_block(block, no_sanity_check=True)
                try:
                    post = pyrtl.synthesize(update_working_block=uwb, merge_io_vectors=merge, block=block)
                except Exception as e:   # PyRTL errors and plain Python errors (IndexError, KeyError...) alike
                    has_mem = bool(orig_memories(block))
                    sig = ('synthesize:unmerged-io-memory-raises' if (not merge and has_mem and 'acceptable set' in str(e))
                           else 'synthesize:raises')
                    ctx.spec_violation(sig, 'synthesize(merge_io_vectors=%s) raised %s on a well-formed design%s: %s' % (
                        merge, type(e).__name__, ' with a memory' if has_mem else '', str(e)[:200]), rep)
                    ctx.case(('b', i, merge, uwb, 'raised'), nontrivial=nontrivial)
                    pyrtl.set_working_block(block, no_sanity_check=True)
                    continue
                wb_now = pyrtl.working_block()
                if (uwb and wb_now is not post) or (not uwb and wb_now is not block):
                    ctx.spec_violation('synthesize:update_working_block',
                                       'working block after synthesize(update_working_block=%s) is wrong' % uwb, rep)
                pyrtl.set_working_block(block, no_sanity_check=True)
                if not isinstance(post, pyrtl.core.PostSynthBlock):
                    ctx.spec_violation('synthesize:result-type', 'synthesize did not return a PostSynthBlock', rep)
                census(ctx, post, 'post_nets_merged' if merge else 'post_nets_unmerged')
                okshape, badnet = py_shape_ok(post, merge)
                ctx.count('py_shape_ok', okshape)
                if uwb and len(post.logic) > SHAPE_MAX_NETS:
                    ctx.count('coq_shapeb', 'skipped: > %d nets (Python mirror only)' % SHAPE_MAX_NETS)
                elif uwb and (i < 0 or i % 2 == 0 or ctx.tier != 'quick'):   # quick: every other random design
                    pd = nlx.Dump(post)
                    shape_exprs.append('shape_case %s %s' % ('true' if merge else 'false', pd.coq()))
                    shape_cases.append(dict(i=i, merge=merge, rep=rep, py=okshape, badnet=badnet))
                maps_ok = check_maps(ctx, d, post, merge, rep)
                # ---- the same testbench on the synthesized block
                t_post = None
                bits = []
                try:
                    t_post = run_post(d, post, merge, regmap, memmap, inputs, bits_of=bits)
                except KeyError as e:
                    if memmap:
                        ctx.spec_violation('synthesize:mem_map-not-keyed-by-original',
                                           'Simulation(block=synthesized, memory_value_map={original MemBlock: ...}) raised '
                                           'KeyError: PostSynthBlock.mem_map is keyed by the internal copy', rep)
                        try:
                            t_post = run_post(d, post, merge, regmap, memmap, inputs, mem_by_id_workaround=True)
                        except Exception as e2:
                            ctx.spec_violation('synthesize:testbench-raises', 'testbench raised on the synthesized block: %r' % e2, rep)
                    else:
                        ctx.spec_violation('synthesize:testbench-raises', 'testbench raised KeyError %r on the synthesized block' % e, rep)
                except Exception as e:
                    ctx.spec_violation('synthesize:testbench-raises', 'testbench raised %s on the synthesized block: %s' % (
                        type(e).__name__, e), rep)
                workaround = bool(memmap) and not maps_ok
                sample = None
                if i < 2 and merge and uwb:
                    sample = {'part': 'b', 'design': i, 'nets': base_rep['nets'][:6], 'inputs': inputs[:2],
                              'original_outputs': dict(zip(outnames, t_orig[0])),
                              'synthesized_outputs': dict(zip(outnames, t_post[0])) if t_post else None,
                              'post_net_count': len(post.logic)}
                ctx.case(('b', i, merge, uwb, tuple(map(tuple, t_orig))), nontrivial=nontrivial, sample=sample)
                if t_post is None:
                    continue
                if merge and uwb and len(bits) == len(inputs) and all(
                        b is not None for bm in bits for bl in bm.values() for b in bl):
                    # every wire of the real synthesized block, re-assembled from its 1-bit wires
                    model_cases[-1]['t_post'] = [[sum(b << k for k, b in enumerate(bm[nm])) for nm in names]
                                                 for bm in bits]
                if t_post == t_orig:
                    channels(ctx, d, post, merge, uwb, regmap, memmap, inputs, t_orig, outnames, rep, directed=(i < 0))
                if t_post != t_orig:
                    classify_mismatch(ctx, d, block, merge, regmap, memmap, inputs, t_orig, t_post, outnames, rep)
                elif merge != uwb:
                    default_value_runs(ctx, d, post, merge, regmap, memmap, inputs, outnames, rep)
                elif len(bits) == len(full_orig):
                    # the invariant value(w) = sum_i bit(w_i) 2^i on EVERY wire of the original design, every cycle
                    bad = None
                    for c, (vals, bmap) in enumerate(zip(full_orig, bits)):
                        for nm, bl in bmap.items():
                            if any(b is None for b in bl):
                                bad = (c, nm, 'no synthesized bit wire found', None)
                                break
                            got = sum(b << k for k, b in enumerate(bl))
                            if got != vals[nm]:
                                bad = (c, nm, vals[nm], got)
                                break
                        if bad:
                            break
                    ctx.count('bit_invariant_wires_checked', 'wires', len(full_orig[0]) if full_orig else 0)
                    if bad:
                        sig = 'synthesize:bit-invariant'
                        wbad = block.wirevector_by_name.get(bad[1])
                        drv = [x for x in block.logic if x.dests and x.dests[0] is wbad]
                        if (drv and drv[0].op == '-' and isinstance(bad[3], int)
                                and len(wbad) == len(drv[0].args[0]) + 1 and (bad[2] ^ bad[3]) == 1 << (len(wbad) - 1)):
                            sig = 'synthesize:sub-top-bit'
                        elif (isinstance(wbad, pyrtl.Register) and bad[0] == 0 and wbad not in regmap
                              and wbad.reset_value is not None and bad[3] == 0):
                            sig = 'synthesize:reset-value-dropped'
                        ctx.spec_violation(sig,
                                           'wire %s of the original design is not spelled by its synthesized bits at cycle %d: '
                                           'expected %s, bits give %s' % (bad[1], bad[0], bad[2], bad[3]), rep)
            except Exception as e_cfg:   # noqa: E722 (reported, never swallowed)
                import traceback
                ctx.spec_violation('synthesize:unexpected-exception',
                                   'unexpected %s while synthesizing / running the testbench on design %d '
                                   '(merge_io_vectors=%s, update_working_block=%s): %s' % (
                                       type(e_cfg).__name__, i, merge, uwb, traceback.format_exc()[-600:]),
                                   dict(base_rep, merge_io_vectors=merge, update_working_block=uwb))
                pyrtl.set_working_block(block, no_sanity_check=True)

    check_premises(ctx, 'c03prem', prem_items)
    # ---- reference semantics on the original dump (the oracle)
    spec_results = ctx.coq_eval(spec_exprs, IMPORTS_SPEC, tag='c03spec', shard=6, jobs=12)
    for c, res in zip(spec_cases, spec_results):
        if res[0][0] != 1:
            ctx.model_mismatch('wfb is false on an API-built design', c['rep'])
        if res[1] != c['mem_final']:
            ctx.spec_violation('sim-vs-spec:memory', 'final memory contents of the ORIGINAL design under Simulation disagree '
                               'with Sem on design %d: %s vs %s' % (c['i'], c['mem_final'], res[1]), c['rep'])
        t_spec = [[row[k] for k in c['out_cols']] for row in res[2:]]
        if t_spec != c['t_orig']:
            ctx.spec_violation('sim-vs-spec', 'Simulation of the ORIGINAL design disagrees with Sem on design %d: %s' % (
                c['i'], first_diff(t_spec, c['t_orig'], c['outnames'])), c['rep'])
    # ---- Coq model of synthesize, executed on the same testbench
    try:
        model_results = ctx.coq_eval(model_exprs, IMPORTS_SYNTH, tag='c03model', shard=6, jobs=12)
    except Exception as e:
        model_results = None
        ctx.model_mismatch('Pass/Synth.v could not be evaluated: %s' % str(e)[-600:], {})
    if model_results is not None:
        for c, res in zip(model_cases, model_results):
            okb, t_model = res[0][0], res[1:]
            ctx.count('synth_okb', okb)
            if okb != 1:
                ctx.model_mismatch('synth_okb is false on an API-built design (design %d)' % c['i'], c['rep'])
            if c['t_post'] is not None and t_model != c['t_post']:
                ctx.model_mismatch('Coq model of synthesize (grun (synth nl)) and the real synthesized block disagree '
                                   'on design %d: %s' % (c['i'], first_diff(t_model, c['t_post'], c['outnames'])), c['rep'])
    # ---- shape predicate (Coq) on every real synthesized block
    try:
        shape_results = ctx.coq_eval(shape_exprs, IMPORTS_SYNTH, tag='c03shape', shard=3, jobs=14)
    except Exception as e:
        shape_results = None
        ctx.model_mismatch('Pass/SynthHarness.v shape_case could not be evaluated: %s' % str(e)[-600:], {})
    if shape_results is not None:
        for c, res in zip(shape_cases, shape_results):
            ok = bool(res[0]) if isinstance(res, (list, tuple)) else bool(res)
            ctx.count('coq_shapeb', ok)
            if not ok:
                ctx.spec_violation('synthesize:shape', 'synthesized block of design %d (merge_io_vectors=%s) contains a net '
                                   'that is not a 1-bit gate / register / memory port / port re-assembly: %s' % (
                                       c['i'], c['merge'], c['badnet']), c['rep'])
            if ok != c['py']:
                ctx.model_mismatch('Coq shapeb and its Python mirror disagree on design %d' % c['i'], c['rep'])


COMPILED_MAX_NETS = 800     # gcc time grows with the synthesized block; larger blocks use Simulation + FastSimulation


def testbench_on(simclass, d, post, merge, regmap, memmap, inputs, memkey=lambda m: m):
    """the ORIGINAL testbench on the synthesized block under any simulator: inputs by (bit) name,
    memory_value_map keyed by memkey(original MemBlock) -- the original object itself unless stated --,
    register_value_map through reg_map, Outputs by name, inspect_mem(memkey(original)) mid-run and at the end"""
    rmap = {}
    for r, v in regmap.items():
        for i, rb in enumerate(post.reg_map[r]):
            rmap[rb] = (v >> i) & 1
    sim = simclass(register_value_map=rmap, memory_value_map={memkey(m): dict(c) for m, c in memmap.items()},
                   block=post, tracer=pyrtl.SimulationTrace(block=post))
    trace, obs = [], {}
    for c, stp in enumerate(inputs):
        sim.step(step_inputs(post, d.inputs, stp, merge))
        trace.append([read_output(sim, post, o, merge) for o in d.outputs])
        if c == len(inputs) // 2:
            obs['mid'] = observe_mems(sim, d, memkey)
    obs['final'] = observe_mems(sim, d, memkey)
    return trace, obs


_COMPILED_OK = None


def compiled_available(ctx):
    """CompiledSimulation needs a C compiler: probe once on a trivial ORIGINAL design, so that a missing toolchain
    is a note in the evidence and never a VIOLATION"""
    global _COMPILED_OK
    if _COMPILED_OK is None:
        saved = pyrtl.working_block()
        try:
            pyrtl.reset_working_block()
            a = pyrtl.Input(2, 'a')
            o = pyrtl.Output(2, 'o')
            o <<= ~a
            sim = pyrtl.CompiledSimulation()
            sim.step({'a': 1})
            _COMPILED_OK = sim.inspect('o') == 2
        except Exception as e:
            _COMPILED_OK = False
            ctx.notes.append('CompiledSimulation unavailable in this environment (%s: %s); channel skipped' % (
                type(e).__name__, str(e)[:120]))
        finally:
            pyrtl.set_working_block(saved, no_sanity_check=True)
        ctx.count('compiled_simulation_available', _COMPILED_OK)
    return _COMPILED_OK


def channels(ctx, d, post, merge, uwb, regmap, memmap, inputs, t_orig, outnames, rep, directed):
    """every simulator and observation channel a testbench written against the original could use"""
    want = d._mem_obs
    sims = [('Simulation', pyrtl.Simulation)] if d.mems else []     # (Outputs under Simulation were compared already)
    if directed or (uwb and not merge):
        sims.append(('FastSimulation', pyrtl.FastSimulation))
    if len(post.logic) <= COMPILED_MAX_NETS and (merge and not uwb or (directed and not merge and uwb)) \
            and compiled_available(ctx):
        sims.append(('CompiledSimulation', pyrtl.CompiledSimulation))
    for nm, cls in sims:
        ctx.count('simulators_on_synthesized', nm)
        rep2 = dict(rep, simulator=nm)
        memkey = (lambda m: m)
        try:
            t, obs = testbench_on(cls, d, post, merge, regmap, memmap, inputs)
        except Exception as e:
            if cls is pyrtl.CompiledSimulation and d.mems and isinstance(e, (pyrtl.PyrtlError, KeyError)):
                ctx.spec_violation('synthesize:compiledsim-original-memblock-rejected',
                                   'CompiledSimulation on the synthesized block rejects the testbench written against the '
                                   'original (memory_value_map / inspect_mem by original MemBlock): %s: %s' % (
                                       type(e).__name__, str(e)[:160]), rep2)
                memkey = (lambda m: post.mem_map[m])      # keep the channel alive through the translated key
                try:
                    t, obs = testbench_on(cls, d, post, merge, regmap, memmap, inputs, memkey)
                except Exception as e2:
                    ctx.spec_violation('synthesize:testbench-raises:%s' % nm, '%s testbench raised %s on the synthesized '
                                       'block even with translated memory keys: %s' % (nm, type(e2).__name__, str(e2)[:200]), rep2)
                    continue
            else:
                sig = 'synthesize:inspect_mem-by-original' if isinstance(e, KeyError) and d.mems else \
                    'synthesize:testbench-raises:%s' % nm
                ctx.spec_violation(sig, 'the testbench written against the original (memory_value_map and inspect_mem by '
                                   'original MemBlock) raised %s under %s on the synthesized block: %s' % (
                                       type(e).__name__, nm, str(e)[:200]), rep2)
                continue
        if t != t_orig:
            ctx.spec_violation('synthesize:trace-mismatch:%s' % nm,
                               'Output trace under %s on the synthesized block differs from the original design (%s)' % (
                                   nm, first_diff(t_orig, t, outnames)), rep2)
            continue
        for when in ('mid', 'final'):
            if obs.get(when) != want.get(when):
                j = next(k for k, (x, y) in enumerate(zip(want[when], obs[when])) if x != y)
                ctx.spec_violation('synthesize:memory-contents:%s' % nm,
                                   'inspect_mem(%s) %s under %s on the synthesized block: %s, on the original design: %s' % (
                                       d.mems[j].name, 'mid-run' if when == 'mid' else 'after the run', nm,
                                       obs[when][j], want[when][j]), rep2)
                break


def default_value_runs(ctx, d, post, merge, regmap, memmap, inputs, outnames, rep):
    """Simulation(default_value=dv) for dv in {1, all-ones of the smallest register}: registers WITHOUT a reset
    value get an explicit initial value on both sides (default_value is not a reset value), so what is left is
    exactly: a register with an explicit reset_value (0 included) must not fall back to default_value after
    synthesis, and memories read the same default word."""
    dvs = [1]
    if d.regs:
        dvs.append(mask(min(len(r) for r in d.regs)))
    if d.mems:
        lim = mask(min(m.bitwidth for m in d.mems))
        dvs = [x for x in dvs if x <= lim]
    for dv in sorted(set(dvs)):
        rm = dict(regmap)
        for r in d.regs:
            if r not in rm and r.reset_value is None:
                rm[r] = dv & mask(len(r))
        try:
            t_o, _ = run_original(d, rm, memmap, inputs, default_value=dv)
        except Exception:
            ctx.count('default_value_runs', 'original rejects default_value=%d' % dv)
            continue
        ctx.count('default_value_runs', 'dv=%d' % dv if dv == 1 else 'dv=all-ones-of-smallest-register')
        rep2 = dict(rep, default_value=dv, regmap={r.name: v for r, v in rm.items()})
        try:
            try:
                t_p = run_post(d, post, merge, rm, memmap, inputs, default_value=dv)
            except KeyError:
                t_p = run_post(d, post, merge, rm, memmap, inputs, mem_by_id_workaround=True, default_value=dv)
        except Exception as e:
            ctx.spec_violation('synthesize:testbench-raises', 'testbench with default_value=%d raised %s on the '
                               'synthesized block but not on the original: %s' % (dv, type(e).__name__, e), rep2)
            continue
        if t_p != t_o:
            diff = first_diff(t_o, t_p, outnames)
            zero_regs = [r.name for r in d.regs if r.reset_value == 0 and r not in rm]
            ctx.spec_violation('synthesize:explicit-reset-falls-back-to-default' if zero_regs else
                               'synthesize:default-value-trace-mismatch',
                               'with Simulation(default_value=%d) the synthesized block differs from the original (%s); '
                               'registers with an explicit reset_value of 0: %s' % (dv, diff, zero_regs), rep2)


def classify_mismatch(ctx, d, block, merge, regmap, memmap, inputs, t_orig, t_post, outnames, rep):
    """which behaviour fails: differential re-runs (explicit reset values / _basic_sub top bit complemented)"""
    diff = first_diff(t_orig, t_post, outnames)
    rep = dict(rep, first_difference=diff)
    wa = True   # memory maps by id: the mem_map defect is reported separately

    def attempt(fix_sub, explicit_resets):
        saved = ppasses._basic_sub
        if fix_sub:
            ppasses._basic_sub = fixed_basic_sub
        try:
            pyrtl.set_working_block(block, no_sanity_check=True)
            post2 = pyrtl.synthesize(update_working_block=False, merge_io_vectors=merge, block=block)
        finally:
            ppasses._basic_sub = saved
            pyrtl.set_working_block(block, no_sanity_check=True)
        rm = full_regmap(d, regmap) if explicit_resets else regmap
        try:
            return run_post(d, post2, merge, rm, memmap, inputs) == t_orig
        except KeyError:
            return run_post(d, post2, merge, rm, memmap, inputs, mem_by_id_workaround=True) == t_orig

    try:
        if attempt(False, True):
            sigs = ['synthesize:reset-value-dropped']
        elif attempt(True, False):
            sigs = ['synthesize:sub-top-bit']
        elif attempt(True, True):
            sigs = ['synthesize:reset-value-dropped', 'synthesize:sub-top-bit']
        else:
            # name the primitive that drives the first differing Output (through w/s/c plumbing)
            src = {x.dests[0]: x for x in block.logic if x.dests}
            w = block.wirevector_by_name.get(diff['output']) if diff else None
            op = '?'
            for _ in range(50):
                nt = src.get(w)
                if nt is None:
                    break
                op = nt.op
                if nt.op not in 'wsc':
                    break
                w = nt.args[0]
            sigs = ['synthesize:trace-mismatch:op=%s' % op]
    except Exception as e:
        sigs = ['synthesize:trace-mismatch']
        rep['classification_error'] = repr(e)
    what = {'synthesize:reset-value-dropped': 'synthesized registers lose their reset_value: Output traces differ '
                                              'from the original unless the reset values are passed explicitly',
            'synthesize:sub-top-bit': 'synthesized a-b at full result width has its top bit inverted: Output traces '
                                      'differ from the original (vanishes when _basic_sub returns ~carry_out)',
            'synthesize:trace-mismatch': 'Output traces of original and synthesized block differ'}
    for s in sigs:
        ctx.spec_violation(s, '%s (design %s, %s)' % (what.get(s, what['synthesize:trace-mismatch']), rep['design'], diff), rep)


def run(ctx):
    part_a(ctx)
    t_w = __import__('time').time()
    part_a_wide(ctx)
    part_shared_select(ctx)
    ctx.notes.append('part_a_wide %.1fs' % (__import__('time').time() - t_w))
    part_a_truncated(ctx)
    part_b(ctx)
    pyrtl.reset_working_block()


def replay(ctx, data):
    """re-run exactly the failing case of a replay file: the (wa, wb) op design, the
    hand-built truncated design, or design number i of the recorded seed"""
    rep = data.get('replay') or {}
    print('replaying:', data.get('signature'), '|', data.get('what'))
    part = rep.get('part')
    if part == 'a':
        part_a(ctx, only=(rep['wa'], rep['wb']))
    elif part == 'shared-select':
        part_shared_select(ctx)
    elif part == 'a-wide':
        part_a_wide(ctx, only=(rep['wa'], rep['wb']))
    elif part == 'a-truncated':
        part_a_truncated(ctx)
    elif part == 'b':
        ctx.seed = rep.get('seed', ctx.seed)
        ctx.tier = rep.get('tier', ctx.tier)
        part_b(ctx, only=[rep['design']])
    else:
        run(ctx)
    pyrtl.reset_working_block()
