"""C06: operators / core helpers give exact integer results at the documented widths.

Per width pair ONE design holding every operator instance (one Output each) is built through
the public API and simulated with pyrtl.Simulation; for every instance and operand valuation
the simulated value AND len(result) are compared with
  (a) the Coq model Front/{Ops,PySlice,Signed,Barrel}.v evaluated by vm_compute (tie), and
  (b) the mathematical specification computed here in plain Python (search).
In addition the select net's op_param of every slice is compared structurally with the PySlice
model and with Python list slicing (check_indices), and py/genfrag_C06.py regenerates
Gen/C06Src.v (the _two_var_op length rule, _convert_int, _convert_bool) from the source on every
run; Front/SrcTie.v proves the model equal to it.  Gen/C06Helpers.v holds the regenerated BODIES of the
signed_* helpers, the shift_* wrappers and the barrel-shifter stage; Front/HelpersTie.v proves them equal
to the definitions evaluated here and restates the property theorems about the regenerated bodies.
"""
import itertools
import pyrtl
from pyrtl.rtllib import barrel

RULE = ('every operator/helper instance (13 WireVector operators, invert, getitem int+slice, truncate, '
        'zero/sign_extended, <<=, concat/concat_list/select, signed_add/mult/lt/le/gt/ge, 4 shift_* by wire '
        'amount and by int amount 1..w-1, barrel_shifter with bit_in=1) x operand kinds {WireVector, int, '
        'bool, Verilog string, Const signed/unsigned/with bitwidth} x width pairs; operand values exhaustive '
        'for widths <= 4 (quick) / <= 5 (thorough), boundary values (0,1,2^k-1,2^(k-1),2^(k-1)-1,random) '
        'for widths up to 130; every WireVector operand kind (plain wire, Register, lazily materialised MemBlock / RomBlock '
        'read) on either side of every operator; Verilog-style string operands in every radix (b o d h x and none), every digit in leading/middle/trailing '
        'position, upper/lower case, underscores, leading zeros, negative forms, declared width = / > minimal, with '
        'the value from an independent parse; shared argument lists reused by several calls in one design (and '
        'checked for mutation); int / Const(int) / Verilog-string operands k in {2^n-2..2^n+1} for n in {31,32,33,48,49,50,'
        '52,53,54,63,64,65,100,128} (Const(k) len, a+k, a-k, a&k, a*k, concat(a,k), w <<= k for w of n..n+2 bits); slices with bounds in {None,-n-1..n+1} and steps {None,1,2,-1,-2} (all of '
        'them for n <= 4/5, seeded samples above).  A case = (instance, widths, operand values); distinct by '
        'that key; non-trivial when the instance\'s output takes at least two values over the sweep')
IMPORTS = 'From PyRTL Require Import Front.C06Harness.'
COQ_TARGETS = ['theories/Front/C06Harness.vo']
TRUSTED = ['py/checks/C06.py spec_* functions: the mathematical meaning of each operator (plain Python ints; '
           'slicing oracle = Python list slicing of the LSB-first bit list; constants = documented '
           'infer_val_and_bitwidth rules re-implemented independently)',
           'coq/theories/Front/Signed.v to_signed; Front/PySliceProofs.v is_slice_of (declarative Python slicing); '
           'Front/BarrelProofs.v shl_fill/shr_fill; Props/C06.v statements',
           'Front/SrcTie.v op_char: LogicNet op characters of the ten two-operand operators (core.py)',
           'py/genfrag_C06.py (uses py/pyfrag.py): Gen/C06Src.v = _two_var_op length rule, _convert_int, _convert_bool; '
           'Gen/C06Helpers.v = bodies of signed_add/signed_mult/signed_lt/le/gt/ge, the four shift_* (wire and int '
           'amount paths) and the barrel_shifter stage loop body, each Python operator/method/call mapped to the '
           'homonymous model function of Front/Ops.v (WireTr: - -> op_sub, x[-1] -> getitem_d x (IInt -1), '
           '.sign_extended -> sign_extended_d, match_bitwidth, concat, select, Const -> const_d, len -> wd)',
           'still hand-modelled (behavioural + structural tie only): the operator layer Front/Ops.v itself '
           '(as_wires, match_bitwidth, _extend_with_bit, __getitem__ via PySlice, concat, select, <<=), the fold '
           'skeleton of barrel_shifter (frame-checked textually), _convert_verilog_str numeric tail (C16)']
ASSUMPTIONS = ['operand WireVectors carry values in [0, 2^bitwidth) (guaranteed by Simulation, C01/C15)',
               'shift amounts given as Verilog strings / bools are outside the property (wire or int only)',
               'the text -> (sign, width, number) parsing of Verilog-style strings is C16\'s subject; here the '
               'strings are generated from (width, number) and only the numeric rules are modelled',
               'regenerated helper bodies are for WireVector (and, for signed_add/signed_mult/shift amounts, Python '
               'int) parameters: as_wires(x) of a WireVector is x; other operand kinds reach the helpers through '
               'as_wires / Const, which the operand-kind model (lift2/lift2s) covers and the search exercises']

F14_SIG = 'mul:width-is-2max-not-sum'
F14_WHAT = ("len(a * b) is 2*max(len(a), len(b)), not len(a)+len(b), when the operand widths differ "
            "(value exact) [wire.py:_two_var_op]")


# --------------------------------------------------------------------------- plain-Python spec
def sgn(v, w):
    return v - (1 << w) if (v >> (w - 1)) & 1 else v


def bitlen(v):
    return max(1, v.bit_length())


def spec_const(kind):
    """(value, width) of the Const an operand kind denotes, or 'raise' -- the documented rules of
    infer_val_and_bitwidth, written independently of the model"""
    t = kind[0]
    if t == 'int':
        v = kind[1]
        return 'raise' if v < 0 else (v, bitlen(v))
    if t == 'bool':
        return (1 if kind[1] else 0, 1)
    if t == 'vtext':
        return spec_const(('vstr',) + tuple(kind[2:5]))
    if t == 'vstr':
        neg, bw, num = kind[1:]
        if neg and num:
            if num >= (1 << (bw - 1)):
                return 'raise'
            num = (1 << bw) - num
        return 'raise' if num >= (1 << bw) else (num, bw)
    if t == 'const':
        inner, bw, signed = kind[1:]
        if inner[0] == 'int':
            v = inner[1]
            if v >= 0:
                need = bitlen(v) + (1 if signed and v != 0 else 0)
            else:
                if not signed and bw is None:
                    return 'raise'
                need = 1 if v == -1 else (-v - 1).bit_length() + 1
            w = need if bw is None else bw
            if w < need:
                return 'raise'
            return (v % (1 << w), w)
        if signed:
            return 'raise'
        r = spec_const(inner)
        if r == 'raise':
            return r
        if bw is not None and bw != r[1]:
            return 'raise'
        return r
    raise ValueError(kind)


def spec_signed_const(kind):
    """signed_add/signed_mult turn a Python int into Const(v, signed=True)"""
    if kind[0] == 'int':
        return spec_const(('const', kind, None, True))
    if kind[0] == 'bool':
        return 'raise'
    return spec_const(kind)


def py_kind(kind):
    t = kind[0]
    if t == 'int':
        return repr(kind[1])
    if t == 'bool':
        return repr(bool(kind[1]))
    if t == 'vtext':
        return repr(kind[1])
    if t == 'vstr':
        neg, bw, num = kind[1:]
        return repr("%s%d'd%d" % ('-' if neg else '', bw, num))
    if t == 'const':
        inner, bw, signed = kind[1:]
        return 'pyrtl.Const(%s%s%s)' % (py_kind(inner), '' if bw is None else ', bitwidth=%d' % bw,
                                        ', signed=True' if signed else '')
    raise ValueError(kind)


def z(v):
    return '(%d)' % v if v < 0 else '%d' % v


def optz(v):
    return 'None' if v is None else '(Some %s)' % z(v)


def coq_kind(kind):
    t = kind[0]
    if t == 'int':
        return '(OInt %s)' % z(kind[1])
    if t == 'bool':
        return '(OBool %s)' % ('true' if kind[1] else 'false')
    if t == 'vtext':
        return '(OVStr %s %d %d)' % ('true' if kind[2] else 'false', kind[3], kind[4])
    if t == 'vstr':
        return '(OVStr %s %d %d)' % ('true' if kind[1] else 'false', kind[2], kind[3])
    if t == 'const':
        return '(OConst %s %s %s)' % (coq_kind(kind[1]), optz(kind[2]), 'true' if kind[3] else 'false')
    raise ValueError(kind)


def bits_of(v, w):
    return [(v >> i) & 1 for i in range(w)]


def from_bits(bs):
    return sum(b << i for i, b in enumerate(bs))


def spec_getitem(v, w, item):
    try:
        sel = bits_of(v, w)[item]
    except (IndexError, ValueError):
        return 'raise'
    if isinstance(item, int):
        sel = [sel]
    if not sel:
        return 'raise'
    return (from_bits(sel), len(sel))


def spec_shift(kind, v, w, m, fill=None):
    """full shift by m >= 0 filling with `fill` (default: 0 / sign bit)"""
    if kind in ('sll', 'sla'):
        f = 0 if fill is None else fill
        m = min(m, w)      # every bit is already `fill` from m = w on
        return (((v << m) | (((1 << m) - 1) if f else 0)) & ((1 << w) - 1), w)
    if kind == 'srl':
        f = 0 if fill is None else fill
    else:
        f = (v >> (w - 1)) & 1
    mm = min(m, w)
    hi = (((1 << mm) - 1) << (w - mm)) if f else 0
    return ((v >> m) | hi, w)


BIN_SPECS = {
    '&': lambda x, y, wx, wy: (x & y, max(wx, wy)),
    '|': lambda x, y, wx, wy: (x | y, max(wx, wy)),
    '^': lambda x, y, wx, wy: (x ^ y, max(wx, wy)),
    'nand': lambda x, y, wx, wy: (((1 << max(wx, wy)) - 1) - (x & y), max(wx, wy)),
    '+': lambda x, y, wx, wy: (x + y, max(wx, wy) + 1),
    '-': lambda x, y, wx, wy: ((x - y) % (1 << (max(wx, wy) + 1)), max(wx, wy) + 1),
    '*': lambda x, y, wx, wy: (x * y, wx + wy),
    '<': lambda x, y, wx, wy: (int(x < y), 1),
    '<=': lambda x, y, wx, wy: (int(x <= y), 1),
    '>': lambda x, y, wx, wy: (int(x > y), 1),
    '>=': lambda x, y, wx, wy: (int(x >= y), 1),
    '==': lambda x, y, wx, wy: (int(x == y), 1),
    '!=': lambda x, y, wx, wy: (int(x != y), 1),
    'signed_add': lambda x, y, wx, wy: ((sgn(x, wx) + sgn(y, wy)) % (1 << (max(wx, wy) + 1)), max(wx, wy) + 1),
    'signed_mult': lambda x, y, wx, wy: ((sgn(x, wx) * sgn(y, wy)) % (1 << (wx + wy)), wx + wy),
    'signed_lt': lambda x, y, wx, wy: (int(sgn(x, wx) < sgn(y, wy)), 1),
    'signed_le': lambda x, y, wx, wy: (int(sgn(x, wx) <= sgn(y, wy)), 1),
    'signed_gt': lambda x, y, wx, wy: (int(sgn(x, wx) > sgn(y, wy)), 1),
    'signed_ge': lambda x, y, wx, wy: (int(sgn(x, wx) >= sgn(y, wy)), 1),
    'concat': lambda x, y, wx, wy: ((x << wy) | y, wx + wy),
}
COQ_BIN = {'&': 'op_and', '|': 'op_or', '^': 'op_xor', 'nand': 'op_nand', '+': 'op_add', '-': 'op_sub',
           '*': 'op_mul', '<': 'op_lt', '<=': 'op_le', '>': 'op_gt', '>=': 'op_ge', '==': 'op_eq',
           '!=': 'op_ne', 'signed_add': 'signed_add', 'signed_mult': 'signed_mult', 'signed_lt': 'signed_lt',
           'signed_le': 'signed_le', 'signed_gt': 'signed_gt', 'signed_ge': 'signed_ge'}
INFIX = ['&', '|', '^', '+', '-', '*', '<', '<=', '>', '>=', '==', '!=']
SIGNED = ['signed_add', 'signed_mult', 'signed_lt', 'signed_le', 'signed_gt', 'signed_ge']


class Inst(object):
    __slots__ = ('name', 'group', 'src', 'coq', 'spec', 'mul_widths')

    def __init__(self, name, group, src, coq, spec, mul_widths=None):
        self.name = name        # stable identifier (operator + kind), also used in signatures
        self.group = group
        self.src = src          # Python expression over a, b (public API only)
        self.coq = coq          # Gallina expression over a b : sv, of type option sv
        self.spec = spec        # f(va, vb) -> (value, width) | 'raise' | None (= tie only)
        self.mul_widths = mul_widths   # for '*' instances: effective operand widths (F14 predicate)


def _assign(dw, rhs):
    t = pyrtl.WireVector(dw) if dw is not None else pyrtl.WireVector()
    t <<= rhs
    return t


ENV = {'pyrtl': pyrtl, 'barrel': barrel, 'assign': _assign}


def src_op(op, x, y):
    if op in INFIX:
        return '(%s) %s (%s)' % (x, op, y)
    if op == 'nand':
        return '(%s).nand(%s)' % (x, y)
    return 'pyrtl.%s(%s, %s)' % (op, x, y)


def binary_instances(wa, wb):
    """instances over two WireVector operands a (wa bits) and b (wb bits)"""
    L = []
    for op in INFIX + ['nand'] + SIGNED:
        f = BIN_SPECS[op]
        L.append(Inst(op, 'op', src_op(op, 'a', 'b'), 'S1 (%s a b)' % COQ_BIN[op],
                      (lambda va, vb, f=f: f(va, vb, wa, wb)),
                      mul_widths=(wa, wb) if op == '*' else None))
    L.append(Inst('concat2', 'concat', 'pyrtl.concat(a, b)', 'S1 (concat [a; b])',
                  lambda va, vb: ((va << wb) | vb, wa + wb)))
    L.append(Inst('concat3', 'concat', 'pyrtl.concat(a, b, a)', 'S1 (concat [a; b; a])',
                  lambda va, vb: ((((va << wb) | vb) << wa) | va, 2 * wa + wb)))
    L.append(Inst('concat_list', 'concat', 'pyrtl.concat_list([a, b])', 'S1 (concat_list [a; b])',
                  lambda va, vb: ((vb << wa) | va, wa + wb)))
    # the same Python containers (env: L2 = [a, b], L3 = [a, b, a], T2 = (a, b)) handed to several calls of one
    # design: every use must give the documented order, and no call may change its argument containers
    cl2 = lambda va, vb: ((vb << wa) | va, wa + wb)
    cl3 = lambda va, vb: ((((va << wb) | vb) << wa) | va, 2 * wa + wb)
    c2 = lambda va, vb: ((va << wb) | vb, wa + wb)
    for use in (1, 2, 3):
        L.append(Inst('concat_list:shared-list:use%d' % use, 'concat', 'pyrtl.concat_list(L2)',
                      'S1 (concat_list [a; b])', cl2))
        L.append(Inst('concat:*shared-list:use%d' % use, 'concat', 'pyrtl.concat(*L2)', 'S1 (concat [a; b])', c2))
        L.append(Inst('concat_list:shared-list3:use%d' % use, 'concat', 'pyrtl.concat_list(L3)',
                      'S1 (concat_list [a; b; a])', cl3))
    L.append(Inst('concat_list:shared-tuple', 'concat', 'pyrtl.concat_list(T2)', 'S1 (concat_list [a; b])', cl2))
    L.append(Inst('concat_list:shared-list:in-op', 'concat', 'pyrtl.concat_list(L2) + 1',
                  'lift2 op_add (OWire (concat_list [a; b])) (OInt 1)',
                  lambda va, vb: (((vb << wa) | va) + 1, wa + wb + 1)))
    L.append(Inst('select', 'select', 'pyrtl.select(a[0], truecase=a, falsecase=b)',
                  'S1 (select (getitem_d a (IInt 0)) a b)',
                  lambda va, vb: (va if va & 1 else vb, max(wa, wb))))
    L.append(Inst('select_wide_sel', 'select', 'pyrtl.select(b[0], a, b)',
                  'S1 (select (getitem_d b (IInt 0)) a b)',
                  lambda va, vb: (va if vb & 1 else vb, max(wa, wb))))
    for nm, coq in (('sll', 'shift_left_logical'), ('srl', 'shift_right_logical'),
                    ('sla', 'shift_left_arithmetic'), ('sra', 'shift_right_arithmetic')):
        L.append(Inst(nm + ':wire', 'shift', 'pyrtl.%s(a, b)' % coq, 'S1 (%s a b)' % coq,
                      (lambda va, vb, nm=nm: spec_shift(nm, va, wa, vb))))
    L.append(Inst('barrel:left:fill1', 'shift', 'barrel.barrel_shifter(a, pyrtl.Const(1), pyrtl.Const(1), b)',
                  'S1 (barrel_shifter a (1,1) (1,1) b)', lambda va, vb: spec_shift('sll', va, wa, vb, fill=1)))
    L.append(Inst('barrel:right:fill1', 'shift', 'barrel.barrel_shifter(a, pyrtl.Const(1), pyrtl.Const(0), b)',
                  'S1 (barrel_shifter a (1,1) (0,1) b)', lambda va, vb: spec_shift('srl', va, wa, vb, fill=1)))
    L.append(Inst('barrel:fill=b0:dir=a0', 'shift', 'barrel.barrel_shifter(a, b[0], a[0], b)',
                  'S1 (barrel_shifter a (getitem_d b (IInt 0)) (getitem_d a (IInt 0)) b)',
                  lambda va, vb: spec_shift('sll' if va & 1 else 'srl', va, wa, vb, fill=vb & 1)))
    return L


def const_kinds(rng, wa):
    top = (1 << wa) - 1
    ks = [('int', 0), ('int', 1), ('int', top), ('int', top + 1), ('int', 5), ('int', -1),
          ('bool', True), ('bool', False),
          ('vstr', False, wa, top), ('vstr', False, wa + 2, 3), ('vstr', False, 1, 1), ('vstr', True, 3, 2),
          ('vstr', True, wa + 1, 1), ('vstr', True, 2, 3), ('vstr', False, 2, 4),
          # sign twins: the SAME digits first with, then without, and then again with the minus sign (a conversion must
          # not depend on what was converted earlier in the process)
          ('vstr', False, 3, 2), ('vstr', True, 3, 2), ('vstr', False, wa + 1, 1), ('vstr', True, 4, 3), ('vstr', False, 4, 3),
          ('vstr', True, 4, 3),
          ('const', ('int', 6), None, False), ('const', ('int', 2), wa + 1, False),
          ('const', ('int', -3), None, True), ('const', ('int', 3), None, True),
          ('const', ('int', -1), 4, False), ('const', ('int', -4), None, True),
          ('const', ('int', 0), None, True), ('const', ('int', -1), None, True),
          ('const', ('int', 9), 3, False), ('const', ('int', 4), 3, True), ('const', ('int', -5), 3, True),
          ('const', ('bool', True), None, False), ('const', ('vstr', False, 3, 5), None, False),
          ('const', ('bool', True), None, True), ('const', ('vstr', False, 3, 5), 4, False)]
    r = rng.getrandbits(wa + 3)
    ks.append(('int', r))
    ks.append(('const', ('int', -r - 1), None, True))
    return ks


def kind_instances(rng, wa, tier):
    """instances with one WireVector operand a and one constant operand of every kind"""
    L = []
    kinds = const_kinds(rng, wa)
    ops = INFIX + ['nand'] + SIGNED
    for ki, kind in enumerate(kinds):
        pk, ck = py_kind(kind), coq_kind(kind)
        for op in ops:
            if tier == 'quick' and (ki + len(op) + wa) % (3 if wa <= 4 else 6):
                continue
            if tier != 'quick' and wa > 5 and (ki + len(op) + wa) % 2:
                continue  # thorough: half of the grid per width above the exhaustive range  # quick: a third (a sixth above 4 bits) of the (kind, op) grid per width;
                # which third rotates with the width, so all of it is visited across widths
            f = BIN_SPECS[op]
            signed_int = op in ('signed_add', 'signed_mult')
            c = spec_signed_const(kind) if signed_int else spec_const(kind)
            lift = 'lift2s' if signed_int else 'lift2'
            for side in ('r', 'l'):
                if side == 'l' and op == 'nand':
                    continue
                x, y = ('a', pk) if side == 'r' else (pk, 'a')
                cx, cy = ('(OWire a)', ck) if side == 'r' else (ck, '(OWire a)')
                if c == 'raise':
                    spec = (lambda va, vb: 'raise')
                    mw = None
                else:
                    cv, cw = c
                    if side == 'r':
                        spec = (lambda va, vb, f=f, cv=cv, cw=cw: f(va, cv, wa, cw))
                    else:
                        spec = (lambda va, vb, f=f, cv=cv, cw=cw: f(cv, va, cw, wa))
                    mw = (wa, cw) if op == '*' else None
                name = '%s:%s:%s' % (op, side, kind_tag(kind))
                L.append(Inst(name, 'kind', src_op(op, x, y), '%s %s %s %s' % (lift, COQ_BIN[op], cx, cy),
                              spec, mul_widths=mw))
    # constants in helpers
    L.append(Inst('concat:a,str', 'kind', 'pyrtl.concat(a, "3\'d5")', "lift2 (fun x y => concat [x; y]) (OWire a) (OVStr false 3 5)",
                  lambda va, vb: ((va << 3) | 5, wa + 3)))
    L.append(Inst('concat:bool,a,int', 'kind', 'pyrtl.concat(True, a, 2)',
                  'S1 (concat [(1,1); a; (2,2)])', lambda va, vb: ((((1 << wa) | va) << 2) | 2, wa + 3)))
    L.append(Inst('select:int', 'kind', 'pyrtl.select(a[0], a, 3)', 'S1 (select (getitem_d a (IInt 0)) a (3,2))',
                  lambda va, vb: (va if va & 1 else 3, max(wa, 2))))
    L.append(Inst('select:bool-sel', 'kind', 'pyrtl.select(True, a, 0)', 'S1 (select (1,1) a (0,1))',
                  lambda va, vb: (va, wa)))
    for k in (0, 1, wa - 1, wa, wa + 3):
        for nm, fn in (('sll', 'shift_left_logical'), ('srl', 'shift_right_logical'), ('sra', 'shift_right_arithmetic')):
            if k < 0:
                continue
            L.append(Inst('%s:constwire' % nm, 'kind', 'pyrtl.%s(a, pyrtl.Const(%d))' % (fn, k),
                          'S1 (%s a (%d, %d))' % (fn, k, bitlen(k)),
                          (lambda va, vb, nm=nm, k=k: spec_shift(nm, va, wa, k))))
    return L


BIG_N = [31, 32, 33, 48, 49, 50, 52, 53, 54, 63, 64, 65, 100, 128]


def bigconst_instances(wa):
    """Python int / Const(int) / Verilog-string operands of large magnitude: k in {2^n-2, 2^n-1, 2^n, 2^n+1};
    the Const must get the exact minimal width and the exact value (guards float-based width inference)."""
    L = []
    for n in BIG_N:
        for k in ((1 << n) - 2, (1 << n) - 1, 1 << n, (1 << n) + 1):
            kw = bitlen(k)
            kinds = [('int', k), ('const', ('int', k), None, False), ('vstr', False, kw, k)]
            # the constant on its own: Const(k) / as_wires(k): value and len()
            L.append(Inst('Const:int:len', 'kind', 'pyrtl.Const(%d)' % k,
                          'as_wires (OConst (OInt %d) None false) None' % k, (lambda va, vb, k=k, kw=kw: (k, kw))))
            L.append(Inst('as_wires:int:len', 'kind', 'pyrtl.as_wires(%d)' % k, 'as_wires (OInt %d) None' % k,
                          (lambda va, vb, k=k, kw=kw: (k, kw))))
            L.append(Inst('Const:signed-int:len', 'kind', 'pyrtl.Const(%d, signed=True)' % k,
                          'as_wires (OConst (OInt %d) None true) None' % k, (lambda va, vb, k=k, kw=kw: (k, kw + 1))))
            L.append(Inst('Const:str:len', 'kind', 'pyrtl.Const("%d\'d%d")' % (kw, k),
                          'as_wires (OConst (OVStr false %d %d) None false) None' % (kw, k),
                          (lambda va, vb, k=k, kw=kw: (k, kw))))
            L.append(Inst('Const:str:too-narrow', 'kind', 'pyrtl.Const("%d\'d%d")' % (kw - 1, k),
                          'as_wires (OConst (OVStr false %d %d) None false) None' % (kw - 1, k),
                          (lambda va, vb: 'raise')))
            for kind in kinds:
                pk, ck = py_kind(kind), coq_kind(kind)
                cv, cw = spec_const(kind)
                for op in ('+', '-', '&', '*'):
                    f = BIN_SPECS[op]
                    for side in ('r', 'l'):
                        x, y = ('a', pk) if side == 'r' else (pk, 'a')
                        cx, cy = ('(OWire a)', ck) if side == 'r' else (ck, '(OWire a)')
                        if side == 'r':
                            spec = (lambda va, vb, f=f, cv=cv, cw=cw: f(va, cv, wa, cw))
                        else:
                            spec = (lambda va, vb, f=f, cv=cv, cw=cw: f(cv, va, cw, wa))
                        L.append(Inst('%s:%s:%s' % (op, side, kind_tag(kind)), 'kind', src_op(op, x, y),
                                      'lift2 %s %s %s' % (COQ_BIN[op], cx, cy), spec,
                                      mul_widths=(wa, cw) if op == '*' else None))
                L.append(Inst('concat:a,%s' % kind_tag(kind), 'kind', 'pyrtl.concat(a, %s)' % pk,
                              'lift2 (fun x y => concat [x; y]) (OWire a) %s' % ck,
                              (lambda va, vb, cv=cv, cw=cw: ((va << cw) | cv, wa + cw))))
                # w <<= k for a destination of exactly n bits (and n+1, n+2 bits)
                for dw in (n, n + 1, n + 2):
                    if kind[0] == 'const':     # a Const wire is truncated / zero-extended like any wire
                        spec = (lambda va, vb, cv=cv, dw=dw: (cv % (1 << dw), dw))
                    elif kind[0] == 'int':     # Const(k, bitwidth=dw): must fit
                        spec = (lambda va, vb, cv=cv, cw=cw, dw=dw: (cv, dw) if cw <= dw else 'raise')
                    else:                      # Const("<cw>'d<k>", bitwidth=dw): widths must agree
                        spec = (lambda va, vb, cv=cv, cw=cw, dw=dw: (cv, dw) if cw == dw else 'raise')
                    L.append(Inst('ilshift:%s' % kind_tag(kind), 'kind', 'assign(%d, %s)' % (dw, pk),
                                  'ilshift (Some %d) %s' % (dw, ck), spec))
            sc = spec_signed_const(('int', k))
            L.append(Inst('signed_add:r:int', 'kind', 'pyrtl.signed_add(a, %d)' % k,
                          'lift2s signed_add (OWire a) (OInt %d)' % k,
                          (lambda va, vb, sc=sc: BIN_SPECS['signed_add'](va, sc[0], wa, sc[1]))))
    return L


WIRE_OPS = INFIX + ['nand'] + SIGNED


def wirekind_instances(wa, wb):
    """every kind of WireVector the operators accept as an operand, on either side: plain WireVector,
    Register, lazily materialised memory / ROM read (memory._MemIndexed), against Input / memory read /
    int / string / Const.  The env of such a design holds wv_a, reg_a, mem_a, rom_a (and *_b): all carry
    the value of input a (resp. b); memories are identity maps."""
    A = {'in': ('a', '(OWire a)'), 'wv': ('wv_a', '(OWire a)'), 'reg': ('reg_a', '(OWire a)'),
         'mem': ('mem_a[a]', '(OLazy a)'), 'rom': ('rom_a[a]', '(OLazy a)')}
    B = {'in': ('b', '(OWire b)'), 'wv': ('wv_b', '(OWire b)'), 'reg': ('reg_b', '(OWire b)'),
         'mem': ('mem_b[b]', '(OLazy b)'), 'rom': ('rom_b[b]', '(OLazy b)')}
    combos = [(x, y) for x in ('wv', 'reg', 'mem', 'rom') for y in ('in', 'mem', 'rom')]
    combos += [('in', y) for y in ('wv', 'reg', 'mem', 'rom')]
    L = []
    for (kx, ky) in combos:
        (px, cx), (py, cy) = A[kx], B[ky]
        tag = '%s,%s' % (kx, ky)
        for op in WIRE_OPS:
            f = BIN_SPECS[op]
            lift = 'lift2s' if op in ('signed_add', 'signed_mult') else 'lift2'
            # a on the left ...
            L.append(Inst('%s:wirekinds:%s' % (op, tag), 'wirekind', src_op(op, px, py),
                          '%s %s %s %s' % (lift, COQ_BIN[op], cx, cy), (lambda va, vb, f=f: f(va, vb, wa, wb)),
                          mul_widths=(wa, wb) if op == '*' else None))
            # ... and on the right
            L.append(Inst('%s:wirekinds-swapped:%s' % (op, tag), 'wirekind', src_op(op, py, px),
                          '%s %s %s %s' % (lift, COQ_BIN[op], cy, cx), (lambda va, vb, f=f: f(vb, va, wb, wa)),
                          mul_widths=(wa, wb) if op == '*' else None))
        L.append(Inst('concat2:wirekinds:%s' % tag, 'wirekind', 'pyrtl.concat(%s, %s)' % (px, py),
                      'lift2 (fun x y => concat [x; y]) %s %s' % (cx, cy), lambda va, vb: ((va << wb) | vb, wa + wb)))
        L.append(Inst('concat_list:wirekinds:%s' % tag, 'wirekind', 'pyrtl.concat_list([%s, %s])' % (px, py),
                      'lift2 (fun x y => concat_list [x; y]) %s %s' % (cx, cy),
                      lambda va, vb: ((vb << wa) | va, wa + wb)))
        L.append(Inst('select:wirekinds:%s' % tag, 'wirekind', 'pyrtl.select(a[0], %s, %s)' % (px, py),
                      'lift2 (select (getitem_d a (IInt 0))) %s %s' % (cx, cy),
                      lambda va, vb: (va if va & 1 else vb, max(wa, wb))))
        for nm, fn in (('sll', 'shift_left_logical'), ('srl', 'shift_right_logical'), ('sra', 'shift_right_arithmetic')):
            L.append(Inst('%s:wirekinds:%s' % (nm, tag), 'wirekind', 'pyrtl.%s(%s, %s)' % (fn, px, py),
                          'lift2 %s %s %s' % (fn, cx, cy), (lambda va, vb, nm=nm: spec_shift(nm, va, wa, vb))))
    # constants against the non-Input kinds, both sides
    for kx in ('reg', 'mem', 'rom'):
        px, cx = A[kx]
        for kind in (('int', 2), ('vstr', False, 3, 4), ('const', ('int', 5), None, False), ('bool', True)):
            pk, ck = py_kind(kind), coq_kind(kind)
            for op in WIRE_OPS:
                f = BIN_SPECS[op]
                signed_int = op in ('signed_add', 'signed_mult')
                c = spec_signed_const(kind) if signed_int else spec_const(kind)
                lift = 'lift2s' if signed_int else 'lift2'
                for side in ('r', 'l'):
                    if side == 'l' and op == 'nand':
                        continue
                    x, y = (px, pk) if side == 'r' else (pk, px)
                    ex, ey = (cx, ck) if side == 'r' else (ck, cx)
                    if c == 'raise':
                        spec, mw = (lambda va, vb: 'raise'), None
                    elif side == 'r':
                        spec = (lambda va, vb, f=f, c=c: f(va, c[0], wa, c[1]))
                        mw = (wa, c[1]) if op == '*' else None
                    else:
                        spec = (lambda va, vb, f=f, c=c: f(c[0], va, c[1], wa))
                        mw = (wa, c[1]) if op == '*' else None
                    L.append(Inst('%s:%s:%s:%s' % (op, side, kx, kind_tag(kind)), 'wirekind', src_op(op, x, y),
                                  '%s %s %s %s' % (lift, COQ_BIN[op], ex, ey), spec, mul_widths=mw))
        # unary uses of the same operand kinds
        L.append(Inst('invert:%s' % kx, 'wirekind', '~%s' % px, 'S1 (op_invert a)',
                      lambda va, vb: ((1 << wa) - 1 - va, wa)))
        L.append(Inst('getitem:%s' % kx, 'wirekind', '%s[-1]' % px, 'getitem a (IInt (-1))',
                      lambda va, vb: (va >> (wa - 1), 1)))
        L.append(Inst('getitem:slice:%s' % kx, 'wirekind', '%s[::-1]' % px, 'getitem a (ISlice None None (Some (-1)))',
                      lambda va, vb: spec_getitem(va, wa, slice(None, None, -1))))
        L.append(Inst('sign_extended:%s' % kx, 'wirekind', '%s.sign_extended(%d)' % (px, wa + 3),
                      'sign_extended a %d' % (wa + 3), lambda va, vb: (sgn(va, wa) % (1 << (wa + 3)), wa + 3)))
        L.append(Inst('zero_extended:%s' % kx, 'wirekind', '%s.zero_extended(%d)' % (px, wa + 3),
                      'zero_extended a %d' % (wa + 3), lambda va, vb: (va, wa + 3)))
        L.append(Inst('ilshift:%s' % kx, 'wirekind', 'assign(%d, %s)' % (wa + 2, px),
                      'ilshift (Some %d) (OWire a)' % (wa + 2), lambda va, vb: (va, wa + 2)))
    return L


RADIXES = [('b', 2, 'bin'), ('o', 8, 'oct'), ('d', 10, 'dec'), ('h', 16, 'hex'), ('x', 16, 'hex-x'), ('', 10, 'bare-dec')]
DIGITS = '0123456789abcdef'


def vtext_kind(idx, letter, radix, rname, digits, width_extra=0, neg=False, upper=False, underscore=False,
               leading_zero=False, too_narrow=False):
    """a Verilog-style string written out in full, and its meaning from an INDEPENDENT parse:
    value = int(digits, radix); declared width = minimal width of the value (+ width_extra)"""
    num = int(digits, radix)
    need = bitlen(num) + (1 if neg and num else 0)
    bw = max(1, need - 1) if too_narrow and need > 1 else need + width_extra
    body = digits
    if leading_zero:
        body = '0' + body
    if underscore and len(body) > 1:
        body = body[:1] + '_' + body[1:]
    txt = letter + body
    if upper:
        txt = txt.upper()
    text = "%s%d'%s" % ('-' if neg else '', bw, txt)
    return ('vtext', text, neg, bw, num, rname)


def string_kinds(full):
    """string operands in every radix the syntax accepts: every digit of the radix in leading, middle and
    trailing position (`full`: additionally every two-digit string), upper/lower case, underscores, leading
    zeros, negative forms, declared width = / > the minimal width, and a few too-narrow ones"""
    ks, idx = [], 0
    for letter, radix, rname in RADIXES:
        ds = DIGITS[:radix]
        forms = []
        for d in ds:
            forms += [d + '1', '1' + d, '1' + d + '1', d + d, d]
        forms += [a + b for a in ds for b in ds if radix != 16 or a in 'abcdef' or b in 'abcdef'] if full else []
        # the letters that are also radix letters, in every pairing, at every position
        both = [c for c in ds if c in 'bodhx']
        forms += [a + b + c for a in both for b in both for c in list(ds[:2]) + both] + [a + '0' + b for a in both for b in both]
        seen = set()
        for f in forms:
            if f in seen:
                continue
            seen.add(f)
            idx += 1
            ks.append(vtext_kind(idx, letter, radix, rname, f, width_extra=(0, 0, 1, 5)[idx % 4],
                                 neg=(idx % 5 == 0), upper=(idx % 3 == 0), underscore=(idx % 4 == 1),
                                 leading_zero=(idx % 7 == 3), too_narrow=(idx % 23 == 11)))
    return ks


def string_instances(wa, tier):
    L = []
    ops = INFIX + ['nand'] + SIGNED
    for ki, kind in enumerate(string_kinds(tier != 'quick')):
        pk, ck = py_kind(kind), coq_kind(kind)
        c = spec_const(kind)
        tag = kind_tag(kind)
        L.append(Inst('Const:%s:len' % tag, 'kind', 'pyrtl.Const(%s)' % pk,
                      'as_wires (OConst %s None false) None' % ck, (lambda va, vb, c=c: c)))
        L.append(Inst('concat:a,%s' % tag, 'kind', 'pyrtl.concat(a, %s)' % pk,
                      'lift2 (fun x y => concat [x; y]) (OWire a) %s' % ck,
                      (lambda va, vb, c=c: 'raise' if c == 'raise' else ((va << c[1]) | c[0], wa + c[1]))))
        for oi, op in enumerate(ops):
            if tier == 'quick' and (ki + oi) % 5:
                continue     # quick: every string meets a fifth of the operators (rotating), both sides
            f = BIN_SPECS[op]
            lift = 'lift2s' if op in ('signed_add', 'signed_mult') else 'lift2'
            for side in ('r', 'l'):
                if side == 'l' and op == 'nand':
                    continue
                x, y = ('a', pk) if side == 'r' else (pk, 'a')
                cx, cy = ('(OWire a)', ck) if side == 'r' else (ck, '(OWire a)')
                if c == 'raise':
                    spec, mw = (lambda va, vb: 'raise'), None
                elif side == 'r':
                    spec, mw = (lambda va, vb, f=f, c=c: f(va, c[0], wa, c[1])), (wa, c[1])
                else:
                    spec, mw = (lambda va, vb, f=f, c=c: f(c[0], va, c[1], wa)), (wa, c[1])
                L.append(Inst('%s:%s:%s' % (op, side, tag), 'kind', src_op(op, x, y),
                              '%s %s %s %s' % (lift, COQ_BIN[op], cx, cy), spec, mul_widths=mw if op == '*' else None))
    return L


def kind_tag(kind):
    t = kind[0]
    if t == 'const':
        return 'Const(%s%s%s)' % (kind_tag(kind[1]), '' if kind[2] is None else ',bw', ',signed' if kind[3] else '')
    if t == 'vtext':
        return ('neg-' if kind[2] else '') + kind[5] + '-str'
    if t == 'vstr':
        return 'negstr' if kind[1] else 'str'
    if t == 'int':
        return 'negint' if kind[1] < 0 else 'int'
    return t


def coq_item(item):
    if isinstance(item, int):
        return '(IInt %s)' % z(item)
    return '(ISlice %s %s %s)' % (optz(item.start), optz(item.stop), optz(item.step))


def src_item(item):
    if isinstance(item, int):
        return '%d' % item
    f = lambda v: '' if v is None else str(v)
    return '%s:%s:%s' % (f(item.start), f(item.stop), f(item.step))


def all_items(n):
    bounds = [None] + list(range(-n - 1, n + 2))
    its = [slice(s, e, st) for s in bounds for e in bounds for st in (None, 1, 2, -1, -2)]
    its += list(range(-n - 1, n + 1))
    return its


def sample_items(rng, n, count):
    its = []
    pick = lambda: rng.choice([None, None, rng.randint(-n - 1, n + 1), rng.randint(-n - 1, n + 1),
                               rng.choice([0, 1, -1, n, n - 1, -n, n // 2, -(n // 2), n + 1, -n - 1])])
    for _ in range(count):
        its.append(slice(pick(), pick(), rng.choice([None, 1, 2, -1, -2, 3, -3, n, -n])))
    its += [0, -1, n - 1, -n, n, -n - 1, rng.randint(-n, n - 1)]
    return its


def unary_instances(rng, wa, tier, exhaustive):
    L = []
    L.append(Inst('invert', 'op', '~a', 'S1 (op_invert a)', lambda va, vb: ((1 << wa) - 1 - va, wa)))
    L.append(Inst('concat1', 'concat', 'pyrtl.concat(a)', 'S1 (concat [a])', lambda va, vb: (va, wa)))
    items = all_items(wa) if exhaustive else sample_items(rng, wa, 60 if tier == 'quick' else 200)
    for it in items:
        kindname = 'getitem:int' if isinstance(it, int) else 'getitem:slice'
        L.append(Inst(kindname, 'getitem', 'a[%s]' % src_item(it), 'getitem a %s' % coq_item(it),
                      (lambda va, vb, it=it: spec_getitem(va, wa, it))))
    exts = sorted({1, wa - 1, wa, wa + 1, wa + 2, wa + 7, wa + 64})
    for n in exts:
        if n < 1:
            continue
        L.append(Inst('truncate', 'ext', 'a.truncate(%d)' % n, 'truncate a %d' % n,
                      (lambda va, vb, n=n: 'raise' if n > wa else (va % (1 << n), n))))
        L.append(Inst('zero_extended', 'ext', 'a.zero_extended(%d)' % n, 'zero_extended a %d' % n,
                      (lambda va, vb, n=n: 'raise' if n < wa else (va, n))))
        L.append(Inst('sign_extended', 'ext', 'a.sign_extended(%d)' % n, 'sign_extended a %d' % n,
                      (lambda va, vb, n=n: 'raise' if n < wa else (sgn(va, wa) % (1 << n), n))))
        L.append(Inst('ilshift', 'ext', 'assign(%d, a)' % n, 'ilshift (Some %d) (OWire a)' % n,
                      (lambda va, vb, n=n: (va % (1 << n), n))))
    L.append(Inst('ilshift:nowidth', 'ext', 'assign(None, a)', 'ilshift None (OWire a)', lambda va, vb: (va, wa)))
    for kind, dw in ((('int', 5), 4), (('int', 5), 3), (('bool', True), 1), (('vstr', False, 4, 9), 4),
                     (('const', ('int', 5), None, False), 2), (('const', ('int', 5), None, False), 7),
                     (('const', ('int', -2), None, True), 5), (('int', 5), 2), (('bool', True), 2),
                     (('vstr', False, 4, 9), 5), (('int', -2), 4)):
        c = spec_const(kind)
        if kind[0] == 'const':   # a Const wire is extended/truncated like any wire
            spec = (lambda va, vb, c=c, dw=dw: (c[0] % (1 << dw), dw))
        elif kind == ('int', 5) and dw >= 3 or kind == ('bool', True) and dw == 1 or kind[0] == 'vstr' and dw == 4:
            spec = (lambda va, vb, c=c, dw=dw: (c[0], dw))   # equivalent Const of the destination's width
        else:
            spec = None      # `t <<= 5` into 2 bits etc.: Const(5, bitwidth=2) raises; tie only
        L.append(Inst('ilshift:%s' % kind_tag(kind), 'kind', 'assign(%d, %s)' % (dw, py_kind(kind)),
                      'ilshift (Some %d) %s' % (dw, coq_kind(kind)), spec))
    ks = list(range(0, wa + 2)) if wa <= 8 else sorted({0, 1, 2, wa // 2, wa - 2, wa - 1, wa, wa + 1,
                                                         rng.randint(1, wa - 1)})
    for k in ks:
        for nm, fn, cq in (('sll', 'shift_left_logical', 'sll_const'), ('srl', 'shift_right_logical', 'srl_const'),
                           ('sla', 'shift_left_arithmetic', 'sla_const'), ('sra', 'shift_right_arithmetic', 'sra_const')):
            inscope = 1 <= k <= wa - 1
            L.append(Inst('%s:int' % nm, 'shift', 'pyrtl.%s(a, %d)' % (fn, k), '%s a %d' % (cq, k),
                          (lambda va, vb, nm=nm, k=k: spec_shift(nm, va, wa, k)) if inscope else None))
    return L


# --------------------------------------------------------------------------- running one design
class Built(object):
    pass


def build_design(insts, wa, wb, wirekinds=False):
    """-> (per instance (error class | None, len), kwargs for Simulation, container mutations)"""
    pyrtl.reset_working_block()
    a = pyrtl.Input(wa, 'a')
    b = pyrtl.Input(wb, 'b') if wb is not None else None
    env = dict(ENV, a=a, b=b)
    simkw = {}
    if b is not None:
        env.update(L2=[a, b], L3=[a, b, a], T2=(a, b))
    if wirekinds:
        mvm = {}
        for nm, w, src in (('a', wa, a), ('b', wb, b)):
            wv = pyrtl.WireVector(w, 'wv_' + nm)
            wv <<= src
            reg = pyrtl.Register(w, 'reg_' + nm)
            reg.next <<= src
            mem = pyrtl.MemBlock(bitwidth=w, addrwidth=w, name='mem_' + nm, max_read_ports=None,
                                 asynchronous=True)
            rom = pyrtl.RomBlock(bitwidth=w, addrwidth=w, romdata=list(range(1 << w)), name='rom_' + nm,
                                 max_read_ports=None, asynchronous=True)
            mvm[mem] = {x: x for x in range(1 << w)}
            env.update({'wv_' + nm: wv, 'reg_' + nm: reg, 'mem_' + nm: mem, 'rom_' + nm: rom})
        simkw['memory_value_map'] = mvm
    containers = {k: (v, list(v)) for k, v in env.items() if k in ('L2', 'L3', 'T2')}
    mutated = []
    res = []
    for k, inst in enumerate(insts):
        try:
            r = eval(inst.src, env)
            n = len(r)
            o = pyrtl.Output(n, 'o%d' % k)
            o <<= r
            res.append((None, n))
        except Exception as e:      # whatever the call raises is the observation `raises`
            res.append((type(e).__name__, None))
        for cname, (obj, pristine) in containers.items():
            if [id(x) for x in obj] != [id(x) for x in pristine]:
                mutated.append((k, cname, [x.name for x in pristine], [getattr(x, 'name', '?') for x in obj]))
                containers[cname] = (obj, list(obj))   # report each change once; do not undo it
    # an instance that raised half-way may leave declared-but-unconnected wires behind
    blk = pyrtl.working_block()
    used = set()
    for net in blk.logic:
        used.update(net.args)
        used.update(net.dests)
    for w in list(blk.wirevector_set):
        if w not in used and not isinstance(w, pyrtl.Input):
            blk.remove_wirevector(w)
    return res, simkw, mutated


def simulate(res, wa, wb, points, simkw=None, settle=1):
    """one row per operand point; `settle` steps per point (2 when registers carry the operands)"""
    kw = dict(simkw or {})
    if 'memory_value_map' in kw:
        kw['memory_value_map'] = {m: dict(c) for m, c in kw['memory_value_map'].items()}
    sim = pyrtl.Simulation(**kw)
    rows = []
    live = [k for k, (err, n) in enumerate(res) if err is None]
    for (va, vb) in points:
        ins = {'a': va}
        if wb is not None:
            ins['b'] = vb
        for _ in range(settle):
            sim.step(ins)
        rows.append({k: sim.inspect('o%d' % k) for k in live})
    return rows


def boundary(rng, w, extra):
    s = [0, 1, (1 << w) - 1, 1 << (w - 1), (1 << (w - 1)) - 1, (1 << w) - 2]
    s += [rng.getrandbits(w) for _ in range(extra)]
    out = []
    for v in s:
        v %= (1 << w)
        if v not in out:
            out.append(v)
    return out


class Job(object):
    """one design: instances, widths, operand points, how Coq enumerates them"""

    def __init__(self, tag, insts, wa, wb, points, exhaustive):
        self.tag, self.insts, self.wa, self.wb = tag, insts, wa, wb
        self.points, self.exhaustive = points, exhaustive

    def coq_exprs(self):
        ex = []
        for inst in self.insts:
            if self.wb is None:
                fn = '(fun a => %s)' % inst.coq
                if self.exhaustive:
                    ex.append('exh1 %s %d' % (fn, self.wa))
                else:
                    ex.append('pts1 %s %d [%s]' % (fn, self.wa, '; '.join(z(p[0]) for p in self.points)))
            else:
                fn = '(fun a b => %s)' % inst.coq
                if self.exhaustive:
                    ex.append('exh2 %s %d %d' % (fn, self.wa, self.wb))
                else:
                    ex.append('pts2 %s %d %d [%s]' % (fn, self.wa, self.wb,
                                                      '; '.join('(%d, %d)' % p for p in self.points)))
        return ex


def make_jobs(ctx, only=None):
    tier = ctx.tier
    jobs = []
    small = 4 if tier == 'quick' else 5
    for wa in range(1, small + 1):
        rng = ctx.sub_rng('unary', wa)
        pts = [(v, None) for v in range(1 << wa)]
        jobs.append(Job('unary', unary_instances(rng, wa, tier, True), wa, None, pts, True))
        jobs.append(Job('kinds', kind_instances(ctx.sub_rng('kinds', wa), wa, tier), wa, None, pts, True))
        for wb in range(1, small + 1):
            pts2 = [(x, y) for x in range(1 << wa) for y in range(1 << wb)]
            jobs.append(Job('binary', binary_instances(wa, wb), wa, wb, pts2, True))
    big = [6, 7, 8, 9, 15, 16, 17, 31, 32, 33, 63, 64, 65, 100, 127, 128, 129, 130]
    amt = [1, 2, 3, 4, 5, 6, 7, 8, 9, 10]
    rng = ctx.sub_rng('bigpairs')
    npairs, nval, nun = (10, 3, 2) if tier == 'quick' else (40, 6, 10)
    pairs = [(130, 130), (130, 8), (1, 130), (64, 65), (33, 7), (128, 9)]
    while len(pairs) < npairs:
        c = rng.random()
        if c < 0.4:
            p = (rng.choice(big), rng.choice(big))
        elif c < 0.7:
            p = (rng.choice(big), rng.choice(amt))
        elif c < 0.85:
            p = (rng.choice(amt), rng.choice(big))
        else:
            p = (rng.randint(1, 130), rng.randint(1, 130))
        if p not in pairs:
            pairs.append(p)
    for (wa, wb) in pairs[:npairs]:
        r = ctx.sub_rng('bigvals', wa, wb)
        A, B = boundary(r, wa, nval), boundary(r, wb, nval)
        # amounts around the data width (saturation boundary)
        B += [v for v in (wa - 1, wa, wa + 1, wa // 2) if 0 <= v < (1 << wb) and v not in B]
        pts = [(x, y) for x in A for y in B]
        cap = (16 if max(wa, wb) > 100 else 28) if tier == 'quick' else (40 if max(wa, wb) > 100 else 70)
        if len(pts) > cap:
            keep = [(x, y) for x in A[:3] for y in B[:3]] + [(A[i % len(A)], y) for i, y in enumerate(B)]
            rest = [p for p in pts if p not in keep]
            r.shuffle(rest)
            pts = (keep + rest)[:cap]
            pts = list(dict.fromkeys(pts))
        jobs.append(Job('binary', binary_instances(wa, wb), wa, wb, pts, False))
    if tier == 'quick':
        uw, kw = [6, 8, 17, 33, 65, 128, 130], [8, 33, 64, 130]
    else:
        uw = big + [5 + i * 7 for i in range(1, 17)]
        kw = [6, 7, 8, 16, 17, 31, 32, 33, 64, 65, 127, 130]
    for wa in sorted(set(uw + kw)):
        r = ctx.sub_rng('bigun', wa)
        pts = [(v, None) for v in boundary(r, wa, nun)]
        if wa in uw:
            jobs.append(Job('unary', unary_instances(r, wa, tier, False), wa, None, pts, False))
        if wa in kw:
            jobs.append(Job('kinds', kind_instances(ctx.sub_rng('kinds', wa), wa, tier), wa, None, pts, False))
    # every kind of WireVector operand (plain, Register, lazy memory / ROM read), either side
    for (wa, wb) in ([(1, 2), (2, 1), (2, 2)] if tier == 'quick' else [(1, 1), (2, 3), (3, 2), (3, 3), (4, 1), (1, 4), (5, 4)]):
        jobs.append(Job('wirekinds', wirekind_instances(wa, wb), wa, wb,
                        [(x, y) for x in range(1 << wa) for y in range(1 << wb)], True))
    # Verilog-style string operands written out in every radix / case / separator / sign form (both tiers)
    jobs.append(Job('strings', string_instances(3, tier), 3, None, [(v, None) for v in range(8)], True))
    # large-magnitude int / Const(int) / string operands (both tiers)
    r = ctx.sub_rng('bigconst')
    jobs.append(Job('bigconst', bigconst_instances(8), 8, None,
                    [(v, None) for v in ([0, 1, 255, 128, 127] + [r.getrandbits(8)])], False))
    if only is not None:
        jobs = [j for j in jobs if (j.tag, j.wa, j.wb) == only]
    return jobs


def run_job(ctx, job, model_rows):
    """compare implementation with the spec (search) and with the model (tie)"""
    wk = job.tag == 'wirekinds'
    res, simkw, mutated = build_design(job.insts, job.wa, job.wb, wirekinds=wk)
    rows = simulate(res, job.wa, job.wb, job.points, simkw, settle=2 if wk else 1)
    for (k, cname, before, after) in mutated:
        inst = job.insts[k]
        sig = '%s:mutates-argument' % inst.name.split(':')[0]
        ctx.spec_violation(sig, '%s: `%s` changed the caller\'s argument container %s from %s to %s (len(a)=%s len(b)=%s); '
                           'operator calls must leave their arguments alone' % (sig, inst.src, cname, before, after,
                                                                                  job.wa, job.wb),
                           {'tier': ctx.tier, 'seed': ctx.seed, 'job': [job.tag, job.wa, job.wb], 'instance': inst.name,
                            'python': inst.src, 'container': cname, 'before': before, 'after': after,
                            'len_a': job.wa, 'len_b': job.wb,
                            'calls_before_it': [i.src for i in job.insts[:k] if cname in i.src]})
    for k, inst in enumerate(job.insts):
        err, n = res[k]
        mrow = model_rows[k] if model_rows is not None else None
        base = {'tier': ctx.tier, 'seed': ctx.seed, 'job': [job.tag, job.wa, job.wb], 'instance': inst.name,
                'python': inst.src, 'len_a': job.wa, 'len_b': job.wb, 'model': inst.coq}
        ctx.count('instances', inst.name.split(':')[0] if inst.group != 'kind' else 'kind/' + inst.name.split(':')[0])
        ctx.count('groups', inst.group)
        ctx.count('width_a', job.wa if job.wa <= 8 else ('9-64' if job.wa <= 64 else '65-130'))
        if err is not None:
            ctx.count('raised', err)
        vals = [rows[t][k] for t in range(len(job.points))] if err is None else []
        nontrivial = len(set(vals)) > 1
        # ---- search: implementation vs specification
        spec_bad = None
        width_only = True
        for t, (va, vb) in enumerate(job.points):
            exp = inst.spec(va, vb) if inst.spec is not None else None
            key = (inst.name, inst.src, job.wa, job.wb, va, vb)
            sample = None
            if t == len(job.points) // 2 and k % 97 == 0:
                sample = {'python': inst.src, 'len_a': job.wa, 'len_b': job.wb, 'a': va, 'b': vb,
                          'simulated': None if err else [rows[t][k], n], 'spec': exp}
            ctx.case(key, nontrivial=nontrivial, sample=sample)
            if exp is None:
                continue
            got = 'raise' if err is not None else (rows[t][k], n)
            if got != exp and spec_bad is None:
                spec_bad = (va, vb, exp, got)
            if got != exp and not (got != 'raise' and exp != 'raise' and got[0] == exp[0]):
                if width_only:
                    spec_bad = (va, vb, exp, got)   # prefer a point where the VALUE is wrong too
                width_only = False
        if spec_bad is not None:
            va, vb, exp, got = spec_bad
            rep = dict(base, a=va, b=vb, expected=exp, got=got)
            mw = inst.mul_widths
            if (mw is not None and got != 'raise' and exp != 'raise' and width_only and mw[0] != mw[1]
                    and n == 2 * max(mw) and exp[1] == mw[0] + mw[1]):
                ctx.spec_violation(F14_SIG, F14_WHAT, rep)
            else:
                if got == 'raise' or exp == 'raise':
                    what_kind = 'raise'
                elif got[1] != exp[1]:
                    what_kind = 'width'
                else:
                    what_kind = 'value'
                if inst.group == 'wirekind':   # one signature per operator; the operand kinds are in the text
                    sig = '%s:wire-operand-kinds:%s' % (inst.name.split(':')[0], what_kind)
                else:
                    sig = '%s:%s' % (inst.name, what_kind)
                ctx.spec_violation(sig, '%s [%s]: `%s` with len(a)=%s len(b)=%s a=%s b=%s gives %s, specification says %s'
                                   % (sig, inst.name, inst.src, job.wa, job.wb, va, vb, got, exp), rep)
        # ---- tie: implementation vs Coq model
        if mrow is not None:
            for t, (va, vb) in enumerate(job.points):
                m = mrow[t]
                got = None if err is not None else (rows[t][k], n)
                m = None if m is None else tuple(m)
                if m != got:
                    ctx.model_mismatch('model/implementation disagree on `%s` (%s) len(a)=%s len(b)=%s a=%s b=%s: '
                                       'model %s, implementation %s' % (inst.src, inst.coq, job.wa, job.wb, va, vb,
                                                                        m, got if err is None else err),
                                       dict(base, a=va, b=vb, model_result=m, got=got, error=err))
                    break


def check_indices(ctx):
    """structural tie for __getitem__: op_param of the select net == model's index list ==
    Python list-slicing positions (the declarative meaning)"""
    ns = list(range(1, 5 if ctx.tier == 'quick' else 7)) + [8, 31, 64, 130]
    exprs, meta = [], []
    for n in ns:
        rng = ctx.sub_rng('idx', n)
        its = all_items(n) if n <= 6 else sample_items(rng, n, 150)
        exprs.append('map (idx_of %d) [%s]' % (n, '; '.join(coq_item(i) for i in its)))
        meta.append((n, its))
    out = ctx.coq_eval(exprs, IMPORTS, tag='c06idx', shard=2, jobs=8)
    for (n, its), row in zip(meta, out):
        pyrtl.reset_working_block()
        w = pyrtl.Input(n, 'w')
        for it, m in zip(its, row):
            before = set(pyrtl.working_block().logic)
            try:
                r = w[it]
                net = [x for x in pyrtl.working_block().logic if x not in before][0]
                got = list(net.op_param)
            except (pyrtl.PyrtlError, IndexError, ValueError):
                got = None
            try:
                want = list(range(n))[it]
                want = [want] if isinstance(it, int) else want
                want = want or None
            except (IndexError, ValueError):
                want = None
            ctx.case(('idx', n, src_item(it)), nontrivial=got is not None and len(got) > 0)
            ctx.count('index_tuples', 'raises' if got is None else 'len%s' % (len(got) if len(got) < 4 else '4+'))
            rep = {'len': n, 'item': src_item(it), 'op_param': got, 'python_list_slicing': want, 'model': m}
            if got != want:
                ctx.spec_violation('getitem:indices', 'w[%s] on a %d-bit wire selects bits %s, Python index semantics '
                                   'says %s' % (src_item(it), n, got, want), rep)
            if (None if m is None else list(m)) != got:
                ctx.model_mismatch('PySlice model gives %s for range(%d)[%s], __getitem__ op_param is %s'
                                   % (m, n, src_item(it), got), rep)


def eval_bins(ctx, exprs, bins, timeout=600):
    """one coqc run (a single Eval returning a list of rows) per bin, in parallel; a bin that exceeds the
    time limit (loaded machine) is split in two and retried, down to single instance expressions"""
    import concurrent.futures
    import coqrun

    def go(args):
        idxs, name = args
        try:
            r = coqrun.eval_shard(['[%s]' % '; '.join(exprs[i] for i in idxs)], IMPORTS, ctx.workdir, name, timeout)
            return r[0]
        except coqrun.CoqTimeout:
            if len(idxs) <= 1:
                raise
            h = len(idxs) // 2
            return go((idxs[:h], name + 'a')) + go((idxs[h:], name + 'b'))

    os_makedirs(ctx.workdir)
    with concurrent.futures.ThreadPoolExecutor(max_workers=14) as ex:
        outs = list(ex.map(go, [(b, 'c06_%d' % k) for k, b in enumerate(bins)]))
    return [row for o in outs for row in o]


def os_makedirs(d):
    import os
    os.makedirs(d, exist_ok=True)


def isolate_failure(ctx, job, model_rows, exc):
    """the design holding all instances of `job` could not be built or simulated: run every instance in a
    design of its own and report the ones that still fail, with the exception, as concrete inputs"""
    culprits = 0
    for k, inst in enumerate(job.insts):
        sub = Job(job.tag, [inst], job.wa, job.wb, job.points, job.exhaustive)
        try:
            run_job(ctx, sub, [model_rows[k]] if model_rows is not None else None)
        except Exception as e:
            culprits += 1
            sig = '%s:build-or-simulation-raises' % inst.name
            ctx.spec_violation(sig, '%s: a design containing only `%s` (len(a)=%s len(b)=%s) cannot be built/simulated: '
                               '%s: %s' % (sig, inst.src, job.wa, job.wb, type(e).__name__, str(e)[:300]),
                               {'tier': ctx.tier, 'seed': ctx.seed, 'job': [job.tag, job.wa, job.wb],
                                'instance': inst.name, 'python': inst.src, 'len_a': job.wa, 'len_b': job.wb,
                                'exception': type(e).__name__, 'message': str(e)[:1000]})
    if not culprits:
        ctx.model_mismatch('design %s len(a)=%s len(b)=%s raised %s: %s with all instances together but not with any '
                           'instance alone' % (job.tag, job.wa, job.wb, type(exc).__name__, str(exc)[:400]),
                           {'job': [job.tag, job.wa, job.wb]})


def run(ctx, only=None, only_inst=None):
    jobs = make_jobs(ctx, only)
    if only_inst is not None:
        for j in jobs:
            j.insts = [i for i in j.insts if i.name == only_inst[0] and i.src == only_inst[1]] or j.insts
    exprs, spans, costs = [], [], []
    for j in jobs:
        e = j.coq_exprs()
        spans.append((len(exprs), len(exprs) + len(e)))
        exprs.extend(e)
        # select_spec/testbit cost grows quadratically with the width; barrel stages with len(b)
        wmax = max(j.wa, j.wb or 0, 8) / 8.0
        for inst in j.insts:
            c = len(j.points) * wmax * wmax
            if inst.group == 'shift' and j.wb:
                c *= 1 + j.wb / 4.0
            costs.append(c + 60)   # + elaboration of the instance expression itself
    # pack consecutive expressions into bins of similar cost: one Eval (a list of rows) per bin
    target = max(sum(costs) / (40.0 if ctx.tier == 'quick' else 160.0), 1.0)
    bins, cur, acc = [], [], 0.0
    for i, c in enumerate(costs):
        cur.append(i)
        acc += c
        if acc >= target:
            bins.append(cur)
            cur, acc = [], 0.0
    if cur:
        bins.append(cur)
    try:
        out = eval_bins(ctx, exprs, bins)
        if len(out) != len(exprs):
            raise RuntimeError('model returned %d rows for %d expressions' % (len(out), len(exprs)))
    except Exception as e:   # the model no longer evaluates: the search still runs
        out = None
        ctx.model_mismatch('Front model could not be evaluated: %s' % str(e)[-800:], {})
    for j, (lo, hi) in zip(jobs, spans):
        rows = out[lo:hi] if out is not None else None
        try:
            run_job(ctx, j, rows)
        except Exception as e:      # one design cannot be built / simulated: isolate the instance, keep going
            isolate_failure(ctx, j, rows, e)
        ctx.count('designs', j.tag)
    if only is None:
        try:
            check_indices(ctx)
        except Exception as e:
            ctx.model_mismatch('index check failed: %s' % str(e)[-800:], {})


def replay(ctx, data):
    rep = data.get('replay', data)
    ctx.tier = rep.get('tier', ctx.tier)
    ctx.seed = rep.get('seed', ctx.seed)
    job = rep.get('job')
    print('replaying `%s` len(a)=%s len(b)=%s a=%s b=%s expected=%s got(before)=%s' % (
        rep.get('python'), rep.get('len_a'), rep.get('len_b'), rep.get('a'), rep.get('b'),
        rep.get('expected'), rep.get('got')))
    if job:
        run(ctx, only=(job[0], job[1], job[2]), only_inst=(rep.get('instance'), rep.get('python')))
    else:
        run(ctx)
