"""C10: (a) Block.__iter__ under many real schedules (guarded hook in /repo) vs
the Coq worklist model replaying the same choices, each yielded order checked by
the Coq `topo_sortedb`; (b) fault injection at every applicable site: the real
sanity_check / iterator / simulator constructors must reject with a PyRTL error
and agree with the Coq model of sanity_check; (c) API-built designs accepted and
satisfying the hypotheses of the iterator completeness theorem; (d) the regenerated
guard list Gen/SanityNet.check (py/genfrag_C10.py) names, for every net of every
faulted design, the very `raise` the real sanity_check_net hits."""
import contextlib
import io
import os
import random
import pyrtl
from pyrtl import core as pcore
import gen_designs
import nlx

RULE = ('schedules: random API-built designs x seeded worklist tie-breaks (hook PYRTL_VERIF_ITER_SEED) '
        '-> real yield order == Coq worklist model on the same choices, and topological by the Coq checker; '
        'faults: each of 16 fault classes injected at every applicable site of each design by editing '
        'block.logic / wire sets directly; distinct by (design, fault, site) or (design, schedule seed); '
        'non-trivial when the design has >= 4 nets; every net of every faulted design is also run through the '
        'real sanity_check_net and the raise it hits (by source line) compared with Gen/SanityNet.check; every '
        'API-built design is checked against the hypotheses of the completeness theorem')
IMPORTS = 'From PyRTL Require Import Netlist.Iter Netlist.Sanity Netlist.MemSync.'
IMPORTS_BLOCK = 'From PyRTL Require Import Netlist.Sanity Netlist.SanityBlockGen.'
IMPORTS_GEN = 'From PyRTL Require Import Netlist.Iter Netlist.Sanity Netlist.MemSync Gen.SanityNet.'
COQ_TARGETS = ['theories/Netlist/Sanity.vo', 'theories/Netlist/MemSync.vo', 'theories/Gen/SanityNet.vo',
               'theories/Netlist/SanityBlockGen.vo']
ASSUMPTIONS = ['faults that the deep embedding cannot represent (op_param of wrong Python type, memid '
               'mismatch) are checked against the implementation only; the corresponding guards of sanity_check_net '
               '(raises 1-3, 8, 19-21, 23-28, 38) are translated but proved never to fire on an embedded net, so '
               'deleting them does not break C10_source_guards_agree_with_model -- only the fault injection sees them',
               'iterator completeness needs the side condition "no combinational net drives a Register" '
               '(Accepted.comb_dest_not_reg): PyRTL itself accepts or rejects such a block depending on set order '
               '(C10_example_comb_driven_register); the construction API cannot build one; evaluated on every '
               'API-built design together with sanity_block and a dependency order (the real yield order)',
               'the hook replaces set.pop() order by a seeded choice; CPython set order itself is one such schedule']
TRUSTED = ['Netlist/Sanity.v (hand model of sanity_check; its per-net part sanity_net is proved equal to the guard list '
           'regenerated from Block.sanity_check_net and its connectivity conjuncts to the set algebra regenerated from '
           'Block.sanity_check; name uniqueness, single driver and by-name bookkeeping stay hand-modelled), Netlist/Iter.v (hand model of Block.__iter__), '
           'topo_sortedb as the definition of dependency order',
           'py/genfrag_C10.py: net-shape record, mapping of Python type tests, shape_of (fixed text in Gen/SanityNet.v)']


class NameDump(nlx.Dump):
    """wire ids keyed by NAME (so duplicate names collide) and able to mention undeclared wires"""

    def __init__(self, block, nets):
        self.block = block
        names = sorted({w.name for w in block.wirevector_set}
                       | {w.name for n in nets for w in (n.args + n.dests)})
        self.byname = {nm: i + 1 for i, nm in enumerate(names)}
        self.wires = sorted(block.wirevector_set, key=lambda w: (w.name, id(w)))
        self.wid = _ByName(self.byname)
        self.nets = list(nets)
        self.mems = {}
        for n in self.nets:
            if n.op in 'm@' and isinstance(n.op_param, tuple) and len(n.op_param) == 2:
                self.mems[n.op_param[0]] = n.op_param[1]


class _ByName(object):
    def __init__(self, byname):
        self.byname = byname

    def __getitem__(self, w):
        return self.byname[w.name]


def net_raise_ordinal(block, net, line2ord):
    """ordinal (source order) of the raise of sanity_check_net the net hits; 0 = accepted;
    -1 = a PyRTL error raised elsewhere; -2 = some other exception"""
    try:
        block.sanity_check_net(net)
    except (pyrtl.PyrtlError, pyrtl.PyrtlInternalError) as e:
        tb = e.__traceback__
        line = None
        while tb is not None:
            if tb.tb_frame.f_code.co_name == 'sanity_check_net':
                line = tb.tb_lineno
            tb = tb.tb_next
        return line2ord.get(line, -1)
    except Exception:
        return -2
    return 0


def wire_classes_disjoint():
    """the kind tests of Gen/SanityNet.v read isinstance(w, Input/Const/Output/Register) as a partition"""
    cl = [pyrtl.Input, pyrtl.Output, pyrtl.Const, pyrtl.Register]
    return all(issubclass(a, pyrtl.WireVector) for a in cl) and \
        not any(issubclass(a, b) for a in cl for b in cl if a is not b)


def gen_guards(ctx):
    """(usable, line -> ordinal) for the regenerated guard list"""
    try:
        import genfrag_C10
        _, src = genfrag_C10.net_guards(os.environ.get('PYRTL_REPO', '/repo'))
        line2ord = {line: k for k, line, _ in src}
        r = ctx.coq_eval(['n_raises'], IMPORTS_GEN, tag='c10probe')
        if r != [len(src)]:
            raise RuntimeError('Gen/SanityNet.v is stale: n_raises=%r, source has %d' % (r, len(src)))
        return True, line2ord
    except Exception as e:
        ctx.notes.append('Gen/SanityNet unavailable (%s): the raise-ordinal tie is skipped, the search still runs'
                         % str(e)[:300])
        return False, {}


class Hang(BaseException):
    """the call did not come back within the deadline (BaseException: not swallowed by `except Exception`)"""


@contextlib.contextmanager
def deadline(seconds=5):
    import signal

    def onalarm(signum, frame):
        raise Hang()
    old = signal.signal(signal.SIGALRM, onalarm)
    signal.setitimer(signal.ITIMER_REAL, seconds)
    try:
        yield
    finally:
        signal.setitimer(signal.ITIMER_REAL, 0)
        signal.signal(signal.SIGALRM, old)


def real_memsync(block):
    """outcome class of Block.sanity_check_memory_sync called on its own: 0 returns, 1 PyrtlError,
    2 KeyError (a wire without an entry in wire_src_dict), 9 anything else"""
    try:
        with deadline():
            block.sanity_check_memory_sync()
        return 0
    except pyrtl.PyrtlError:
        return 1
    except KeyError:
        return 2
    except Hang:
        return 8
    except Exception:
        return 9


CONNECTIVITY_MSGS = ['Unknown wires found in net', 'Wires declared but not connected', 'Wires used but never driven']


def real_connectivity(block):
    """which of the three connectivity checks of sanity_check fires (1..3), 0 if sanity_check gets past them
    (returns, or raises something later), None if it raises earlier (net-level checks, names, drivers)"""
    try:
        with deadline(), contextlib.redirect_stdout(io.StringIO()):
            block.sanity_check()
        return 0
    except pyrtl.PyrtlError as e:
        msg = str(e)
        for k, m in enumerate(CONNECTIVITY_MSGS):
            if msg.startswith(m):
                return k + 1
        if msg.startswith('memory "') or 'wirevector_by_name' in msg:
            return 0
        return None
    except (Exception, Hang):
        return None


def sync_ids(block):
    return sorted({n.op_param[0] for n in block.logic
                   if n.op == 'm' and isinstance(n.op_param, tuple) and len(n.op_param) == 2
                   and not n.op_param[1].asynchronous})


# faults under which the name-keyed dump still shows the walk what the real walk sees
MEMSYNC_TIE_FAULTS = {'read_never_driven', 'register_never_driven', 'comb_cycle', 'declared_unconnected',
                      'output_arg', 'dest_too_wide', 'width_mismatch', 'select_param_oob', 'wrong_arity',
                      'mux_select_width'}


def memsync_probe(ctx, i):
    """small design with a synchronous memory whose read address is ANY wire of the design (register, Input slice,
    concat/select chain, or the result of an arithmetic/logic net): about half are accepted by the walk"""
    rng = ctx.sub_rng('memsync', i)
    d = gen_designs.make_design(rng, wide_prob=0.0, n_ops=rng.randint(2, 7), allow_mem=False, allow_rom=False)
    src = sorted((w for w in d.block.wirevector_set if not isinstance(w, pyrtl.Output)), key=lambda w: w.name)
    m = pyrtl.MemBlock(bitwidth=rng.randint(1, 6), addrwidth=rng.randint(1, 3), name='pm', max_read_ports=None)
    for k in range(rng.randint(1, 3)):
        a = rng.choice(src)
        if rng.random() < 0.5:
            a = pyrtl.concat(a, rng.choice(src))[::rng.choice([1, 1, 2, -1])]
        o = pyrtl.Output(m.bitwidth, 'pm_out%d' % k)
        o <<= m[gen_designs.fit(rng, a, m.addrwidth)]
    m[gen_designs.fit(rng, rng.choice(src), m.addrwidth)] <<= gen_designs.fit(rng, rng.choice(src), m.bitwidth)
    return d


def real_accepts(block):
    """(accepted, error_kind)"""
    try:
        with deadline(), contextlib.redirect_stdout(io.StringIO()):   # find_and_print_loop prints
            block.sanity_check()
            list(block)
    except (pyrtl.PyrtlError, pyrtl.PyrtlInternalError) as e:
        return False, type(e).__name__
    except Hang:
        return None, 'does-not-return'
    except Exception as e:  # not a PyRTL error: counts as not properly rejected
        return None, type(e).__name__
    return True, ''


def sims_reject(block, with_compiled):
    """every simulator constructor must raise a PyRTL error"""
    bad = []
    ctors = [('Simulation', lambda: pyrtl.Simulation(tracer=pyrtl.SimulationTrace(block=block), block=block)),
             ('FastSimulation', lambda: pyrtl.FastSimulation(tracer=pyrtl.SimulationTrace(block=block), block=block))]
    if with_compiled:
        ctors.append(('CompiledSimulation', lambda: pyrtl.CompiledSimulation(
            tracer=pyrtl.SimulationTrace(block=block), block=block)))
    for nm, c in ctors:
        try:
            with deadline(60), contextlib.redirect_stdout(io.StringIO()):
                c()
            bad.append((nm, 'accepted'))
        except (pyrtl.PyrtlError, pyrtl.PyrtlInternalError):
            pass
        except Hang:
            bad.append((nm, 'does-not-return'))
        except Exception as e:
            bad.append((nm, type(e).__name__))
    return bad


def net_connections_wrong(block):
    """None when block.net_connections() is exactly: src[w] = the net driving w; dst[w] = the nets reading w, each
    listed ONCE however often w occurs among its arguments (what the iterator's readiness count relies on)"""
    try:
        src, dst = block.net_connections()
    except Exception as e:
        return 'raised %r' % e
    want = {}
    for n in block.logic:
        seen = []
        for a in n.args:
            if not any(a is x for x in seen):
                seen.append(a)
                want.setdefault(a, []).append(n)
    for w, nets in want.items():
        got = dst.get(w, [])
        if len(got) != len(nets) or any(sum(1 for g in got if g is n) != 1 for n in nets):
            return 'wire %s (read by %d nets) has %d sink entries' % (w.name, len(nets), len(got))
    for w, got in dst.items():
        if w not in want and got:
            return 'wire %s has sink entries but no net reads it' % w.name
    for n in block.logic:
        for dd in n.dests:
            if src.get(dd) is not n:
                return 'source of %s is not its driving net' % dd.name
    return None


def with_iter_seed(block, seed):
    """iterate the block under the hook; returns (order, choices) or raises"""
    rec = []
    orig = pcore._VerifSeededSet.pop

    def pop(self):
        i = self._rng.randrange(len(self._items))
        rec.append(i)
        return self._items.pop(i)
    pcore._VerifSeededSet.pop = pop
    os.environ['PYRTL_VERIF_ITER_SEED'] = str(seed)
    try:
        order = list(block)
    finally:
        pcore._VerifSeededSet.pop = orig
        del os.environ['PYRTL_VERIF_ITER_SEED']
    return order, rec


# ---------------------------------------------------------------- fault injection

def replace_net(block, old, new):
    block.logic.remove(old)
    block.logic.add(new)


def sites(block, pred):
    return [n for n in sorted(block.logic, key=str) if pred(n)]


def fresh_wire(block, width, name):
    return pyrtl.WireVector(width, name, block=block)


def inject(block, fault, rng):
    """apply one fault; returns description or None if not applicable. Mutates block."""
    LN = pyrtl.LogicNet
    comb = sites(block, lambda n: n.op not in 'r@' and n.dests)
    if fault == 'two_drivers':
        cands = [n for n in comb if not isinstance(n.dests[0], pyrtl.Output) or True]
        if not cands:
            return None
        n = rng.choice(cands)
        d = n.dests[0]
        srcs = [w for w in block.wirevector_subset((pyrtl.Input, pyrtl.Const)) if w.bitwidth >= d.bitwidth]
        if not srcs:
            return None
        s = rng.choice(sorted(srcs, key=lambda w: w.name))
        if s.bitwidth == d.bitwidth:
            extra = LN('w', None, (s,), (d,))
        else:
            extra = LN('s', tuple(range(d.bitwidth)), (s,), (d,))
        if extra in block.logic:   # identical to the existing driver: a set would swallow it
            return None
        block.logic.add(extra)
        return 'second driver for %s' % d.name
    if fault == 'read_never_driven':
        n = rng.choice(sites(block, lambda n: len(n.args) >= 1))
        k = rng.randrange(len(n.args))
        u = fresh_wire(block, n.args[k].bitwidth, 'undriven_w')
        args = list(n.args)
        old = args[k]
        args[k] = u
        replace_net(block, n, LN(n.op, n.op_param, tuple(args), n.dests))
        _keep_connected(block, old)
        return 'arg %d of %s replaced by undriven wire' % (k, n)
    if fault == 'register_never_driven':
        rnets = sites(block, lambda n: n.op == 'r')
        _, dst = block.net_connections()
        rnets = [n for n in rnets if n.dests[0] in dst]     # the register must be read by someone
        if not rnets:
            return None
        n = rng.choice(rnets)
        block.logic.remove(n)
        _keep_connected(block, n.args[0])
        return 'register %s is read but its next-value net was removed' % n.dests[0].name
    if fault == 'declared_unconnected':
        fresh_wire(block, rng.randint(1, 8), 'floating_w')
        return 'floating wire'
    if fault == 'foreign_wire':
        n = rng.choice(sites(block, lambda n: len(n.args) >= 1))
        k = rng.randrange(len(n.args))
        other = pyrtl.Block()
        f = pyrtl.Input(n.args[k].bitwidth, 'foreign_w', block=other)
        args = list(n.args)
        old = args[k]
        args[k] = f
        replace_net(block, n, LN(n.op, n.op_param, tuple(args), n.dests))
        _keep_connected(block, old)
        return 'arg %d of %s from another block' % (k, n)
    if fault == 'wrong_arity':
        cands = sites(block, lambda n: n.op in '&|^n+-*<>=' or n.op in 'w~s')
        if not cands:
            return None
        n = rng.choice(cands)
        if len(n.args) == 2 and rng.random() < 0.5:
            args = n.args[:1]
            _keep_connected_after = n.args[1]
        else:
            args = n.args + (n.args[0],)
            _keep_connected_after = None
        replace_net(block, n, LN(n.op, n.op_param, tuple(args), n.dests))
        if _keep_connected_after is not None:
            _keep_connected(block, _keep_connected_after)
        return 'arity of %s changed to %d' % (n, len(args))
    if fault == 'width_mismatch':
        cands = sites(block, lambda n: n.op in '&|^n+-*<>=')
        if not cands:
            return None
        n = rng.choice(cands)
        k = rng.randrange(2)
        w = n.args[k].bitwidth + rng.choice([1, 2])
        c = pyrtl.Const(1, bitwidth=w, block=block)
        args = list(n.args)
        old = args[k]
        args[k] = c
        replace_net(block, n, LN(n.op, n.op_param, tuple(args), n.dests))
        _keep_connected(block, old)
        return 'arg %d of %s replaced by a %d-bit const' % (k, n, w)
    if fault == 'mux_select_width':
        cands = sites(block, lambda n: n.op == 'x')
        if not cands:
            return None
        n = rng.choice(cands)
        c = pyrtl.Const(1, bitwidth=2, block=block)
        old = n.args[0]
        replace_net(block, n, LN('x', None, (c,) + n.args[1:], n.dests))
        _keep_connected(block, old)
        return 'mux select of %s made 2 bits' % (n,)
    if fault == 'select_param_oob':
        cands = sites(block, lambda n: n.op == 's')
        if not cands:
            return None
        n = rng.choice(cands)
        p = list(n.op_param)
        p[rng.randrange(len(p))] = rng.choice([n.args[0].bitwidth, -1, n.args[0].bitwidth + 3])
        replace_net(block, n, LN('s', tuple(p), n.args, n.dests))
        return 'select index out of bounds in %s' % (n,)
    if fault == 'dest_too_wide':
        cands = sites(block, lambda n: n.op in 'w~&|^n+-*<>=xcs' and not isinstance(n.dests[0], pyrtl.Output)
                      and n.dests[0].bitwidth == _natural_width(n))
        if not cands:
            return None
        n = rng.choice(cands)
        n.dests[0].bitwidth = n.dests[0].bitwidth + 1
        # readers of the widened wire may now mismatch too; still a malformed netlist
        return 'destination of %s widened by one bit' % (n,)
    if fault == 'param_not_none':
        cands = sites(block, lambda n: n.op in 'w~&|^n+-*<>=xc')
        if not cands:
            return None
        n = rng.choice(cands)
        stray = rng.choice([(0,), 0, (), '', False, 0.0, ('x',)])      # truthy and falsy strays alike
        replace_net(block, n, LN(n.op, stray, n.args, n.dests))
        return 'op_param of %s set to %r' % (n, stray)
    if fault == 'input_const_dest':
        srcs = sorted(block.wirevector_subset((pyrtl.Input, pyrtl.Const)), key=lambda w: w.name)
        d = rng.choice(srcs)
        s = [w for w in srcs if w is not d and w.bitwidth >= d.bitwidth]
        if not s:
            return None
        s = rng.choice(s)
        if s.bitwidth == d.bitwidth:
            block.logic.add(LN('w', None, (s,), (d,)))
        else:
            block.logic.add(LN('s', tuple(range(d.bitwidth)), (s,), (d,)))
        return '%s used as destination' % d
    if fault == 'output_arg':
        outs = sorted(block.wirevector_subset(pyrtl.Output), key=lambda w: w.name)
        o = rng.choice(outs)
        cands = sites(block, lambda n: any(a.bitwidth == o.bitwidth for a in n.args))
        if not cands:
            return None
        n = rng.choice(cands)
        k = [i for i, a in enumerate(n.args) if a.bitwidth == o.bitwidth][0]
        args = list(n.args)
        old = args[k]
        args[k] = o
        replace_net(block, n, LN(n.op, n.op_param, tuple(args), n.dests))
        _keep_connected(block, old)
        return 'Output %s used as argument %d of %s' % (o.name, k, n)
    if fault == 'duplicate_name':
        ws = sorted(block.wirevector_set, key=lambda w: w.name)
        cands = [x for x in ws if not isinstance(x, pyrtl.Const)]
        # one pair, two different names each carried twice, or one name carried by three wires
        shape = rng.choice(['pair', 'two-names', 'triple'])
        victims = {'pair': [rng.choice(cands)], 'triple': [rng.choice(cands)] * 2,
                   'two-names': rng.sample(cands, 2) if len(cands) >= 2 else [rng.choice(cands)]}[shape]
        srcs = sorted(block.wirevector_subset((pyrtl.Input,)), key=lambda x: x.name)
        for k, w in enumerate(victims):
            dup = pyrtl.WireVector(w.bitwidth, 'dup_tmp_name%d' % k, block=block)
            dup.name = w.name  # same name, different signal
            # connect it so only the name is at fault
            src = rng.choice(srcs)
            if src.bitwidth < dup.bitwidth:
                if k == 0:
                    return None
                block.remove_wirevector(dup)
                continue
            block.logic.add(LN('s', tuple(range(dup.bitwidth)), (src,), (dup,)))
            o = pyrtl.Output(dup.bitwidth, 'dup_sink%d' % k, block=block)
            block.logic.add(LN('w', None, (dup,), (o,)))
        return '%s: extra wire(s) named %s' % (shape, [w.name for w in victims])
    if fault == 'comb_cycle':
        cands = sites(block, lambda n: n.op not in 'r@m' and n.dests
                      and any(a.bitwidth == n.dests[0].bitwidth for a in n.args)
                      and not isinstance(n.dests[0], pyrtl.Output))
        if not cands:
            return None
        n = rng.choice(cands)
        k = [i for i, a in enumerate(n.args) if a.bitwidth == n.dests[0].bitwidth][0]
        args = list(n.args)
        old = args[k]
        args[k] = n.dests[0]
        replace_net(block, n, LN(n.op, n.op_param, tuple(args), n.dests))
        _keep_connected(block, old)
        return 'self-loop on %s' % (n,)
    if fault == 'memid_mismatch':
        cands = sites(block, lambda n: n.op in 'm@')
        if not cands:
            return None
        n = rng.choice(cands)
        replace_net(block, n, LN(n.op, (n.op_param[0] + 1000, n.op_param[1]), n.args, n.dests))
        return 'memid of %s disagrees with its MemBlock' % (n,)
    raise ValueError(fault)


def _natural_width(n):
    a = n.args
    if n.op in 'w~&|^n':
        return a[0].bitwidth
    if n.op in '+-':
        return a[0].bitwidth + 1
    if n.op == '*':
        return 2 * a[0].bitwidth
    if n.op in '<>=':
        return 1
    if n.op == 'x':
        return a[1].bitwidth
    if n.op == 'c':
        return sum(x.bitwidth for x in a)
    if n.op == 's':
        return len(n.op_param)
    return -1


def _keep_connected(block, w):
    """after an argument was replaced, make sure the old wire is still read by someone
    (so the only fault is the injected one)"""
    if isinstance(w, (pyrtl.Input, pyrtl.Const)):
        return
    for n in block.logic:
        if any(a is w for a in n.args):
            return
    if isinstance(w, pyrtl.Output):
        return
    o = pyrtl.Output(w.bitwidth, 'keep_%s' % w.name.replace("'", '_'), block=block)
    block.logic.add(pyrtl.LogicNet('w', None, (w,), (o,)))


FAULTS = ['two_drivers', 'read_never_driven', 'register_never_driven', 'declared_unconnected', 'foreign_wire', 'wrong_arity',
          'width_mismatch', 'mux_select_width', 'select_param_oob', 'dest_too_wide', 'param_not_none',
          'input_const_dest', 'output_arg', 'duplicate_name', 'comb_cycle', 'memid_mismatch']
UNREPRESENTABLE = {'param_not_none', 'memid_mismatch'}
# the dump identifies wires by NAME (that is how duplicate names become visible to the model), so under this
# fault the per-net shapes of the two homonymous wires are merged: no per-net raise-ordinal comparison
ORDINAL_TIE_SKIP = {'duplicate_name'}


def make_foreign(insane_decoy):
    """make another design the working block: either a small sane one or an unfinished (insane) one"""
    pyrtl.reset_working_block()
    a = pyrtl.Input(3, 'decoy_a')
    o = pyrtl.Output(3, 'decoy_o')
    o <<= ~a
    if insane_decoy:
        pyrtl.WireVector(2, 'decoy_dangling')    # declared, never connected: sanity_check of the decoy fails
    # the decoy is restricted to the ops it uses, in place, the way Block.legal_ops is meant to be narrowed:
    # that is the decoy's business only
    pyrtl.working_block().legal_ops -= set('*-+<>=xcsrm@&|^n')


def safe_build(ctx, i, part):
    """build(), with a failure of the construction API itself on these ordinary designs reported as a violation
    (an exception while BUILDING a legal design is the strongest form of 'API-built design not accepted')"""
    try:
        return build(ctx, i)
    except Exception as e:
        ctx.spec_violation('api-build-raises:%s' % type(e).__name__,
                           'the construction API raised while building legal design %s (part %s): %r' % (i, part, e),
                           {'seed': ctx.seed, 'design': i})
        return None


def add_repeated_args(rng, d):
    """nets whose argument tuple names ONE wire several times, adjacent and NON-adjacent (concat(a, b, a), a mux
    whose select is also a data input, a write port whose address wire is also its enable): legal API-built logic in
    which the per-wire sink bookkeeping of Block.net_connections / Block.__iter__ must list the net once"""
    srcs = sorted((w for w in list(d.inputs) + list(d.regs)), key=lambda w: w.name)
    if not srcs:
        return
    a, b, c = rng.choice(srcs), rng.choice(srcs), rng.choice(srcs)
    shapes = [lambda: pyrtl.concat(a, b, a), lambda: pyrtl.concat(a, a, b, a), lambda: pyrtl.concat(b, a, c, a, b),
              lambda: pyrtl.concat(a[0], b, a[0])]
    k = 0
    for mk in rng.sample(shapes, rng.randint(1, 3)):
        e = mk()
        o = pyrtl.Output(len(e), 'rep%d_%d' % (len(d.outputs), k))
        o <<= e
        d.outputs.append(o)
        d.ops.append('repeated-args')
        k += 1
    if rng.random() < 0.6:
        s1 = a[0]
        x1 = b[len(b) - 1]
        e = pyrtl.select(s1, x1, s1)            # 'x' net with args (s1, s1, x1) / (s1, x1, s1)
        e2 = pyrtl.select(s1, s1, x1)
        o = pyrtl.Output(2, 'repx%d' % len(d.outputs))
        o <<= pyrtl.concat(e, e2)
        d.outputs.append(o)
        d.ops.append('repeated-args')
    if rng.random() < 0.5:
        m = pyrtl.MemBlock(bitwidth=len(b), addrwidth=1, name='repmem%d' % len(d.outputs), asynchronous=True)
        e1 = a[0]
        m[e1] <<= pyrtl.MemBlock.EnabledWrite(b, enable=e1)      # '@' net with args (e1, b, e1)
        o = pyrtl.Output(len(b), 'repm%d' % len(d.outputs))
        o <<= m[e1]
        d.outputs.append(o)
        d.ops.append('repeated-args')


def build(ctx, i):
    """i % 5 == 2: small design with a synchronous memory (sanity_check_memory_sync has something to walk);
    i % 5 == 4: built in two phases with another design started in between (reset_working_block, a scratch
    design, set_working_block back) -- the finished design is still an API-built one"""
    rng = ctx.sub_rng('design', i)
    if i % 5 == 2:
        d = gen_designs.make_design(rng, wide_prob=0.0, n_ops=rng.randint(2, 5), allow_mem=False, allow_rom=False)
        if not d.regs:
            r = pyrtl.Register(3, 'sr')
            r.next <<= d.inputs[0][0:1].zero_extended(3) + r
            d.regs.append(r)
            o = pyrtl.Output(3, 'sr_out')
            o <<= r
            d.outputs.append(o)
        gen_designs.add_sync_memory(rng, d)
        return d
    if i % 5 == 1:
        # the block under test is a PostSynthBlock (what synthesize() leaves as the working block): the fault
        # classes and the simulators' own sanity_check call apply to it like to any other block
        # (kept small: the Coq models of iteration and sanity_check are quadratic in the number of nets)
        for n_ops, mw, mem in ((rng.randint(2, 4), 3, True), (3, 3, False), (2, 2, False), (1, 1, False)):
            d = gen_designs.make_design(rng, wide_prob=0.0, n_ops=n_ops, max_width=mw,
                                        allow_mem=mem, allow_rom=(mem and i % 2 == 0))
            pyrtl.synthesize()
            if len(pyrtl.working_block().logic) <= 110:
                break
        d.block = pyrtl.working_block()
        d.inputs = sorted(d.block.wirevector_subset(pyrtl.Input), key=lambda w: w.name)
        d.outputs = sorted(d.block.wirevector_subset(pyrtl.Output), key=lambda w: w.name)
        d.regs = sorted(d.block.wirevector_subset(pyrtl.Register), key=lambda w: w.name)
        return d
    d = gen_designs.make_design(rng, wide_prob=0.1)
    if i % 2 == 0:
        add_repeated_args(ctx.sub_rng('repeated-args', i), d)
    if i % 5 == 3:
        # the public name setter is part of building a design: wires renamed to a fresh name, renamed back,
        # and assigned the name they already have (what output_to_firrtl does to every Const)
        ws = sorted((w for w in d.block.wirevector_set), key=lambda w: w.name)
        for w in rng.sample(ws, min(len(ws), rng.randint(2, 6))):
            kind = rng.choice(['same', 'fresh', 'there-and-back'])
            old_name = w.name
            if isinstance(w, (pyrtl.Input, pyrtl.Output)) and kind == 'fresh':
                kind = 'there-and-back'          # keep the interface names
            if kind == 'same':
                w.name = w.name
            elif kind == 'fresh':
                w.name = 'renamed_%s' % old_name.replace("'", '_')
            else:
                w.name = 'via_%s' % old_name.replace("'", '_')
                w.name = old_name
    if i % 5 == 4:
        block = d.block
        pyrtl.reset_working_block()
        scratch = gen_designs.make_design(rng, wide_prob=0.0, n_ops=rng.randint(1, 3), allow_mem=False,
                                          allow_rom=False, name_prefix='scratch_')
        del scratch
        pyrtl.set_working_block(block, no_sanity_check=True)
        gen_designs.extend_design(rng, d, k=rng.randint(2, 4))
    return d


def run(ctx):
    ndesigns = 40 if ctx.tier == 'quick' else 400
    nseeds = 6 if ctx.tier == 'quick' else 32
    sites_per_fault = 2 if ctx.tier == 'quick' else 5
    exprs = []
    meta = []
    block_exprs, block_meta = [], []
    gen_ok, line2ord = gen_guards(ctx)
    if not wire_classes_disjoint():
        ctx.model_mismatch('Input/Output/Const/Register are no longer pairwise unrelated WireVector subclasses: '
                           'the kind tests of Gen/SanityNet.v do not model isinstance', {})
    # ---- (a)+(c): schedules and acceptance of API-built designs
    for i in range(ndesigns):
        d = safe_build(ctx, i, 'a')
        if d is None:
            continue
        block = d.block
        if i % 2 == 1:
            make_foreign(insane_decoy=(i % 4 == 3))
            ctx.count('accepted_while_not_working_block', i % 4 == 3 and 'insane decoy' or 'sane decoy')
        ok, kind = real_accepts(block)
        if ok is not True:
            ctx.spec_violation('api-built-rejected', 'API-built design rejected by sanity_check/iterator (%s)' % kind,
                               {'seed': ctx.seed, 'design': i})
            continue
        try:
            pyrtl.Simulation(tracer=pyrtl.SimulationTrace(block=block), block=block)
            pyrtl.FastSimulation(tracer=pyrtl.SimulationTrace(block=block), block=block)
            if i % 8 == 0:
                pyrtl.CompiledSimulation(tracer=pyrtl.SimulationTrace(block=block), block=block)
        except Exception as e:
            ctx.spec_violation('api-built-sim-rejected', 'a simulator rejected an API-built design: %r' % e,
                               {'seed': ctx.seed, 'design': i})
        logic = list(block.logic)
        index = {id(n): k for k, n in enumerate(logic)}
        bad_conn = net_connections_wrong(block)
        ctx.count('net_connections_checked', bad_conn is None)
        if bad_conn:
            ctx.model_mismatch('Block.net_connections is not the sink/source relation Netlist/Iter.v assumes: ' + bad_conn,
                               {'seed': ctx.seed, 'design': i})
        dump = NameDump(block, logic)
        nl = dump.coq()
        if gen_ok:
            exprs.append('hyp_case %s' % nl)
            meta.append(('hyp', i))
        if sync_ids(block):
            exprs.append('memsync_case %s %s' % (nl, nlx.zlist(sync_ids(block))))
            meta.append(('memsync', i, 'none', real_memsync(block), {'seed': ctx.seed, 'design': i}))
        for s in range(nseeds):
            try:
                if s == 0:
                    order, choices = list(block), None   # CPython's own set order
                else:
                    order, choices = with_iter_seed(block, 1000 * ctx.seed + s)
            except Exception as e:
                ctx.spec_violation('api-built-iter-raises',
                                   'iterating an API-built design that sanity_check accepts raised under worklist '
                                   'schedule %s: %r' % (s, e),
                                   {'seed': ctx.seed, 'design': i, 'schedule_seed': s,
                                    'hook': 'PYRTL_VERIF_ITER_SEED=%d' % (1000 * ctx.seed + s) if s else 'none (CPython set order)',
                                    'nets': sorted(str(n) for n in logic)[:60]})
                continue
            real_idx = [index[id(n)] for n in order]
            # the real order, checked by the Coq definition of dependency order
            perm = '[%s]' % '; '.join('mkNet_at %d' % k for k in real_idx)
            exprs.append('order_case %s %s' % (nl, nlx.zlist(real_idx)))
            meta.append(('order', i, s, real_idx, len(logic)))
            if choices is not None:
                exprs.append('iter_case %s [%s]' % (nl, '; '.join('%d%%nat' % c for c in choices)))
                meta.append(('model', i, s, real_idx, len(logic)))
            ctx.count('nets_per_design', min(len(logic) // 10 * 10, 60))
    # ---- (e): the walk of sanity_check_memory_sync on its own, accepted and rejected index logic
    for i in range(30 if ctx.tier == 'quick' else 400):
        try:
            d = memsync_probe(ctx, i)
        except Exception as e:
            ctx.spec_violation('api-build-raises:%s' % type(e).__name__,
                               'the construction API raised while building probe design %s: %r' % (i, e),
                               {'seed': ctx.seed, 'probe': i})
            continue
        block = d.block
        real = real_memsync(block)
        ctx.count('memsync_probe_outcome', real)
        full, _ = real_accepts(block)
        if (real == 0) != (full is True):
            ctx.spec_violation('memsync-vs-sanity_check',
                               'API-built design with a synchronous memory: sanity_check_memory_sync class %s but '
                               'sanity_check accepted=%s' % (real, full), {'seed': ctx.seed, 'probe': i})
        exprs.append('memsync_case %s %s' % (NameDump(block, list(block.logic)).coq(), nlx.zlist(sync_ids(block))))
        meta.append(('memsync', 'p%d' % i, 'probe', real, {'seed': ctx.seed, 'probe': i}))
        ctx.case(('memsync', i, real), nontrivial=True)
    # ---- (b): fault injection
    for i in range(ndesigns):
        for fault in FAULTS:
            for site in range(sites_per_fault if i % 5 != 1 else (1 if ctx.tier == 'quick' else 2)):
                d = safe_build(ctx, i, 'b')
                if d is None:
                    break
                block = d.block
                rng = ctx.sub_rng('fault', i, fault, site)
                used_before = rng.random() < 0.5
                if used_before:
                    # the block has a history: it was iterated and simulated before being edited
                    try:
                        list(block)
                        sim0 = pyrtl.Simulation(tracer=pyrtl.SimulationTrace(block=block), block=block)
                        sim0.step({w.name: 0 for w in d.inputs})
                        list(block)
                    except (pyrtl.PyrtlError, pyrtl.PyrtlInternalError):
                        ctx.count('fault_base_design_rejected', fault)   # already reported by part (a)
                        continue
                ctx.count('fault_after_prior_use', used_before)
                try:
                    desc = inject(block, fault, rng)
                except (IndexError, ValueError):
                    desc = None
                if desc is None:
                    ctx.count('fault_not_applicable', fault)
                    continue
                ctx.count('faults', fault)
                foreign = rng.random() < 0.5
                if foreign:
                    make_foreign(insane_decoy=False)
                ctx.count('fault_checked_while_not_working_block', foreign)
                ok, kind = real_accepts(block)
                rep = {'seed': ctx.seed, 'design': i, 'fault': fault, 'site': site, 'what': desc,
                       'block_iterated_and_simulated_before_edit': used_before,
                       'another_block_is_working_block': foreign}
                if ok is not False:
                    ctx.spec_violation('malformed-accepted:%s:%s' % (fault, kind or 'accepted'),
                                       'malformed netlist (%s: %s) not rejected with a PyRTL error by '
                                       'sanity_check/iteration (%s)' % (fault, desc, kind or 'accepted'), rep)
                bad = sims_reject(block, with_compiled=(site == 0 and i % 10 == 0))
                if bad:
                    ctx.spec_violation('malformed-simulated:%s:%s' % (fault, bad[0][1]),
                                       'malformed netlist (%s: %s) not rejected by %s (%s)' % (fault, desc, bad[0][0], bad[0][1]),
                                       rep)
                ctx.case(('fault', i, fault, site, desc), nontrivial=len(block.logic) >= 4,
                         sample=rep if (i == 0 and site == 0) else None)
                if fault not in UNREPRESENTABLE:
                    logic = list(block.logic)
                    try:
                        dump = NameDump(block, logic)
                        if gen_ok and fault not in ORDINAL_TIE_SKIP:
                            real_ord = [net_raise_ordinal(block, n, line2ord) for n in logic]
                            for k in real_ord:
                                ctx.count('raise_ordinal_hit', k)
                            exprs.append('(fun nl => (sanity_case nl [], check_case nl)) %s' % dump.coq())
                            meta.append(('sanity', i, fault, ok, rep, real_ord, [str(n) for n in logic]))
                        else:
                            exprs.append('(sanity_case %s [], (@nil Z))' % dump.coq())
                            meta.append(('sanity', i, fault, ok, rep, None, None))
                        if fault not in ORDINAL_TIE_SKIP and fault != 'foreign_wire':
                            rc = real_connectivity(block)
                            if rc is not None:
                                block_exprs.append('block_guard_case %s' % dump.coq())
                                block_meta.append((i, fault, rc, rep))
                        if fault in MEMSYNC_TIE_FAULTS and sync_ids(block):
                            exprs.append('memsync_case %s %s' % (dump.coq(), nlx.zlist(sync_ids(block))))
                            meta.append(('memsync', i, fault, real_memsync(block), rep))
                    except Exception as e:
                        ctx.notes.append('dump failed for fault %s: %r' % (fault, e))
    imports = IMPORTS + '''
Definition order_case (nl : netlist) (idx : list Z) : list Z :=
  let l := map (fun i => nth (Z.to_nat i) (nets nl) (mkNet OpW [] 0)) idx in
  [b2z (topo_sortedb nl l); b2z (is_perm_idx (map Z.to_nat idx) (length (nets nl)))].
'''
    if gen_ok:
        imports = imports.replace(IMPORTS, IMPORTS_GEN)
    results = ctx.coq_eval(exprs, imports, tag='c10', shard=80 if ctx.tier == 'quick' else 30, jobs=12)
    # (f) the regenerated connectivity checks of sanity_check (Gen/SanityBlock.v) vs the check the real one raises
    try:
        bres = ctx.coq_eval(block_exprs, IMPORTS_BLOCK, tag='c10blk', shard=120, jobs=12)
    except Exception as e:
        bres = None
        ctx.model_mismatch('Gen/SanityBlock.v / Netlist/SanityBlockGen.v could not be evaluated: %s' % str(e)[-400:], {})
    for (i, fault, rc, rep), r in zip(block_meta, bres or []):
        first = next((k + 1 for k, e in enumerate(r) if e == 0), 0)
        ctx.count('connectivity_guard_hit', '%d' % rc)
        if first != rc:
            ctx.model_mismatch('the regenerated connectivity checks (Gen/SanityBlock.block_guards) and the real sanity_check '
                               'disagree: real raises check %d, generated first non-empty set %d (emptiness %s); '
                               '1 unknown wires, 2 declared but not connected, 3 used but never driven, 0 none'
                               % (rc, first, r), dict(rep, fault=fault))
    for m, r in zip(meta, results):
        if m[0] == 'order':
            _, i, s, real_idx, nn = m
            ctx.case(('order', i, tuple(real_idx)), nontrivial=nn >= 4,
                     sample={'design': i, 'schedule_seed': s, 'yield_order': real_idx[:12]} if (i < 2 and s < 2) else None)
            if r != [1, 1]:
                ctx.spec_violation('iter-not-topological',
                                   'Block.__iter__ yielded an order that is not a dependency order / not a permutation '
                                   '(topo=%s perm=%s)' % (r[0], r[1]),
                                   {'seed': ctx.seed, 'design': i, 'schedule_seed': s, 'order': real_idx})
        elif m[0] == 'model':
            _, i, s, real_idx, nn = m
            if r[0] != [0] or r[1] != real_idx:
                ctx.model_mismatch('Netlist/Iter.v replaying the hook choices yields a different order than Block.__iter__',
                                   {'seed': ctx.seed, 'design': i, 'schedule_seed': s, 'real': real_idx, 'model': r})
        elif m[0] == 'memsync':
            _, i, fault, real, rep = m
            codes = [x[0] for x in r]
            ctx.count('memsync_tie', '%s:%s' % (fault if fault in ('none', 'probe') else 'fault', real))
            agree = (real == 0 and all(c == 0 for c in codes)) or (real in (1, 2) and real in codes)
            if not agree or 3 in codes:
                ctx.model_mismatch('Netlist/MemSync.v and Block.sanity_check_memory_sync disagree (real class %s, model per-port '
                                   'codes %s; 0 ok, 1 PyrtlError, 2 KeyError, 3 out of fuel)' % (real, codes),
                                   dict(rep, fault=fault))
        elif m[0] == 'hyp':
            _, i = m
            ctx.count('completeness_hypotheses_hold', r == [1, 1, 1])
            if r != [1, 1, 1]:
                ctx.model_mismatch('an API-built design does not satisfy the netlist hypotheses of the iterator '
                                   'completeness theorem [sanity_block, comb_dest_not_reg, no generated guard fires] = %s'
                                   % r, {'seed': ctx.seed, 'design': i})
        else:
            _, i, fault, ok, rep, real_ord, netstrs = m
            sc, gen_ord = r
            model_accept = (sc[0] == 1 and sc[1] == 0)
            if ok is not None and model_accept != ok:
                ctx.model_mismatch('Netlist/Sanity.v and Block.sanity_check disagree on a faulted design '
                                   '(model accepts=%s, real accepts=%s)' % (model_accept, ok), rep)
            if real_ord is not None and list(gen_ord) != real_ord:
                bad = [(k, netstrs[k], real_ord[k], gen_ord[k]) for k in range(min(len(real_ord), len(gen_ord)))
                       if real_ord[k] != gen_ord[k]][:3]
                ctx.model_mismatch('Gen/SanityNet.check (regenerated guard list) and the real sanity_check_net hit different '
                                   'raises on a net of a faulted design: (index, net, real ordinal, generated ordinal) = %r'
                                   % (bad,), rep)


def replay(ctx, data):
    print(data)
    run(ctx)
