"""C20 worker: runs in a FRESH subprocess whose PYTHONHASHSEED was chosen by the
parent (py/checks/C20.py) and perturbs the allocator before building each design,
so that every id-hashed set (Block.wirevector_set, Block.logic, ...) iterates in a
schedule-dependent order.  It never monkey-patches PyRTL.

  python c20_worker.py <job.json> <out.json>

job = {'noise': int, 'textdir': path, 'designs': [spec, ...], 'mode': 'export'|'passes'|'readonly'}
spec = {'key': str, 'seed': str, 'cls': 'plain'|'sani'|'zeros'|'both'|'memtie'|'samename'|'romonly'|'case'|'genlike'|'cond'|'blif'|'iscas', ...}

Design generation is a pure function of spec['seed'] (random.Random seeded with a
str is independent of the hash seed; gen_designs iterates lists only).  The
structural fingerprint of each design is returned so the parent can verify that
all schedules really built the same design."""
import contextlib
import gc
import hashlib
import io
import json
import os
import random
import re
import sys

HERE = os.path.dirname(os.path.abspath(__file__))
sys.path.insert(0, HERE)

import pyrtl  # noqa: E402
import gen_designs  # noqa: E402

# ------------------------------------------------------------------ name pools

SANI_POOL = ['w 0', 'w 1', 'a b', 'x-y', 'p.q', 'd[3]', '1st', "q'x", 'wire', 'reg', 'module', 'input',
             'output', 'always', 'begin', 'end', 'assign', 'if', 'case', 'x y z', 'a+b', 'sig#', '2x4',
             'h~', 'not', 'or', 'and', 'xor', 'signed', 'time', 'w 00', 'w 01']
ZERO_FAMILIES = [['x1', 'x01', 'x001'], ['y2', 'y02'], ['n0', 'n00', 'n000'], ['a1b2', 'a01b2', 'a1b02'],
                 ['k7', 'k07', 'k007', 'k0007'], ['z_3', 'z_03'], ['v10', 'v010']]
# user wire names that look like identifiers the exporters / simulators generate themselves
GENLIKE_POOL = ['_ver_out_tmp_0', '_ver_out_tmp_1', '_ver_out_tmp_2', '_vcd_tmp_0', '_vcd_tmp_1', '_vcd_tmp_2',
                '_ver_out_tmp_01', '_vcd_tmp_00', '_fastsim_tmp_0', '_sani_temp0', 'mem_0', 'mem_1', 'mem_2', 'mem_12',
                'tb_iter', 'block', 'T_0', 'T_1', 'toplevel', 'tb']
# names differing only in letter case, and in case + leading zeros (a case-insensitive key would tie them)
CASE_FAMILIES = [['data', 'DATA', 'Data'], ['q1', 'Q1', 'q01', 'Q01'], ['sel', 'SEL'], ['bus_7', 'BUS_7', 'Bus_07'],
                 ['ack', 'Ack', 'ACK', 'aCK'], ['r2d2', 'R2D2', 'r02d2']]
PLAIN_POOL = ['alpha', 'beta2', 'beta10', 'g_1', 'g_2', 'g_11', 'sum', 'carry', 'state', 'nxt', 'Data9', 'data10',
              'acc', 'acc_1', 'q', 'p3', 'p20', 'p100', 'sel', 'en', 'we', 'addr', 'din', 'dout', '_u', 'u$1',
              'A', 'a', 'B7', 'b70x']


# output_to_verilog has no rendering for the 'n' (nand) op: designs to export avoid it
OPS_NO_NAND = ['&', '|', '^', '~', '+', '-', '*', '<', '>', '==', '!=', '<=', '>=', 'mux', 'concat', 'slice',
               'index', 'const', 'trunc', 'zext', 'sext', 'memrd', 'romrd', 'select']


def needs_sanitising(name):
    """specification-level predicate, written from the Verilog-2005 identifier rule and
    the documented reserved list -- NOT by calling the code under test"""
    return not re.match(r'[_A-Za-z][_a-zA-Z0-9$]*\Z', name) or name in _RESERVED or name == 'clk' or len(name) > 1024


_RESERVED = frozenset('''always and assign automatic begin buf bufif0 bufif1 case casex casez cell cmos
 config deassign default defparam design disable edge else end endcase endconfig endfunction endgenerate
 endmodule endprimitive endspecify endtable endtask event for force forever fork function generate genvar
 highz0 highz1 if ifnone incdir include initial inout input instance integer join large liblist library
 localparam macromodule medium module nand negedge nmos nor noshowcancelled not notif0 notif1 or output
 parameter pmos posedge primitive pull0 pull1 pulldown pullup pulsestyle_onevent
 pulsestyle_ondetect rcmos real realtime reg release repeat rnmos rpmos rtran rtranif0 rtranif1
 scalared showcancelled signed small specify specparam strong0 strong1 supply0 supply1 table task time
 tran tranif0 tranif1 tri tri0 tri1 triand trior trireg unsigned use vectored wait wand weak0 weak1 while
 wire wor xnor xor'''.split())


def strip_zeros(name):
    """canonical form under which two names tie for a natural sort without tie-break"""
    return re.sub(r'\d+', lambda m: str(int(m.group(0))), name)


# ------------------------------------------------------------------ allocation noise

class _Dummy(object):
    pass


_KEEP = []


def allocation_noise(noise, salt):
    """Allocate `noise`*k objects of the size classes PyRTL uses (instances with a dict,
    small tuples, small lists), then free a seeded-random subset: the holes are reused in
    free-list order by the next allocations, so object addresses -- hence id()-based hashes
    -- of the wires created afterwards are permuted relative to creation order."""
    if noise <= 0:
        return
    r = random.Random('noise:%d:%s' % (noise, salt))
    objs = []
    for i in range(noise * 37):
        k = r.randrange(5)
        if k == 0:
            o = _Dummy()
            o.a = i
        elif k == 1:
            o = (i, i + 1, None, None)
        elif k == 2:
            o = [i] * r.randrange(1, 6)
        elif k == 3:
            o = {'k': i}
        else:
            o = _Dummy()
        objs.append(o)
    r.shuffle(objs)
    cut = r.randrange(len(objs) // 4, 3 * len(objs) // 4)
    _KEEP.append(objs[:cut])      # stays alive: shifts pool occupancy
    del objs[:]                   # the rest is freed -> holes
    gc.collect()


# ------------------------------------------------------------------ design construction

def gen_blif(rng):
    """a small BLIF model: 2-3 multi-bit input vectors (+ scalars), vector and scalar outputs, gates as
    single-output covers, latches with init values; some vector names differ only in letter case"""
    vec_names = rng.sample(['a', 'b', 'din', 'data', 'DATA', 'op', 'Op', 'v10', 'v9', 'x01', 'x1'], rng.randint(2, 3))
    ins = []
    for v in vec_names:
        ins += ['%s[%d]' % (v, i) for i in range(rng.randint(2, 4))]
    scal = rng.sample(['en', 'c', 'go', 'EN'], rng.randint(0, 2))
    ins += scal
    lines = ['.model top']
    pool = list(ins)
    nl = rng.randint(0, 3)
    lat_q = ['q[%d]' % i for i in range(nl)] if nl != 1 else ['q']
    pool += lat_q
    body = ['.names $false', '.names $true', '1']
    covers = {1: [['0 1'], ['1 1']], 2: [['11 1'], ['1- 1', '-1 1'], ['10 1', '01 1'], ['00 1'], ['0- 1', '-0 1']],
              3: [['1-0 1', '-11 1'], ['111 1'], ['1-- 1', '-1- 1', '--1 1'], ['100 1', '010 1', '001 1', '111 1']]}
    gates = []
    for g in range(rng.randint(4, 14)):
        k = rng.choice([1, 2, 2, 2, 3])
        args = [rng.choice(pool) for _ in range(k)]
        nm_ = 'n%d' % g
        body.append('.names %s %s' % (' '.join(args), nm_))
        body += rng.choice(covers[k])
        pool.append(nm_)
        gates.append(nm_)
    out_vecs = rng.sample(['y', 'res', 'Res', 'out7', 'out07'], rng.randint(1, 2))
    outs = []
    for v in out_vecs:
        outs += ['%s[%d]' % (v, i) for i in range(rng.randint(2, 3))]
    outs += rng.sample(['z', 'ok'], rng.randint(0, 1))
    for o in outs:
        body.append('.names %s %s' % (rng.choice(gates + ins), o))
        body.append('1 1')
    for q in lat_q:
        init = rng.choice(['0', '1', '2', '3', ''])
        body.append(('.latch %s %s re clk %s' % (rng.choice(gates), q, init)).rstrip())
    lines.append('.inputs clk ' + ' '.join(ins))
    lines.append('.outputs ' + ' '.join(outs + lat_q))
    return '\n'.join(lines + body + ['.end', ''])


def gen_bench(rng):
    """a small ISCAS .bench netlist with numeric and alphanumeric signal names and DFFs"""
    numeric = rng.random() < 0.5
    def nm_(i):
        return str(i) if numeric else 'G%d' % i
    n_in = rng.randint(3, 6)
    sigs = [nm_(i) for i in range(1, n_in + 1)]
    lines = ['# generated', ''] + ['INPUT(%s)' % x for x in sigs]
    defs = []
    cur = n_in + 1
    for g in range(rng.randint(4, 12)):
        op = rng.choice(['AND', 'OR', 'NOR', 'XOR', 'NOT', 'BUFF', 'DFF'])   # NAND -> 'n' nets, which Verilog export rejects
        k = 1 if op in ('NOT', 'BUFF', 'DFF') else 2
        args = [rng.choice(sigs) for _ in range(k)]
        name = nm_(cur * rng.choice([1, 1, 3]))
        while name in sigs:
            cur += 1
            name = nm_(cur)
        cur += 1
        defs.append('%s = %s(%s)' % (name, op, ', '.join(args)))
        sigs.append(name)
    outs = rng.sample(sigs[n_in:], min(len(sigs) - n_in, rng.randint(1, 3)))
    lines += ['OUTPUT(%s)' % x for x in outs] + [''] + defs + ['']
    return '\n'.join(lines)


def build_imported(spec, noise):
    """design built by an IMPORTER (input_from_blif / input_from_iscas_bench) instead of the construction API"""
    allocation_noise(noise, spec['seed'])
    rng = random.Random(spec['seed'])
    pyrtl.reset_working_block()
    block = pyrtl.working_block()
    if spec['cls'] == 'blif':
        text = gen_blif(rng)
        pyrtl.input_from_blif(text, merge_io_vectors=(rng.random() < 0.8))
    else:
        text = gen_bench(rng)
        pyrtl.input_from_iscas_bench(text)
    block.sanity_check()
    d = gen_designs.Design(block)
    d.inputs = sorted(block.wirevector_subset(pyrtl.Input), key=lambda w: w.name)
    d.outputs = sorted(block.wirevector_subset(pyrtl.Output), key=lambda w: w.name)
    d.regs = sorted(block.wirevector_subset(pyrtl.Register), key=lambda w: w.name)
    d.source_text = text
    ncycles = rng.randint(3, 6)
    inputs = [{w.name: gen_designs.boundary_value(rng, len(w)) for w in d.inputs} for _ in range(ncycles)]
    opts = {'track_all': rng.random() < 0.5,
            'add_reset': rng.choice([True, True, False, 'asynchronous']),
            'base': rng.choice([2, 8, 10, 16]), 'compact': rng.random() < 0.3,
            'include_clock': rng.random() < 0.3}
    return d, ({}, {}, inputs), opts


def build(spec, noise):
    """-> (design, tracked_mode, stimulus) ; deterministic in spec['seed'] only"""
    try:    # a build that raised inside `with conditional_assignment` must not poison the next design
        pyrtl.conditional._reset_conditional_state()
    except Exception:
        pass
    if spec['cls'] in ('blif', 'iscas'):
        return build_imported(spec, noise)
    allocation_noise(noise, spec['seed'])
    rng = random.Random(spec['seed'])
    cls = spec['cls']
    d = gen_designs.make_design(rng, wide_prob=0.05, n_ops=rng.randint(4, spec.get('max_ops', 18)),
                                allow_rom=(cls not in ('memtie', 'romonly')), allow_mem=(cls != 'romonly'),
                                ops_subset=OPS_NO_NAND)
    block = d.block
    sweep = []
    if cls == 'memtie':
        _add_shared_enable_ports(d, rng)
    if cls == 'samename':
        _add_same_name_memories(d, rng)
    if cls == 'romonly':
        sweep = _add_swept_roms(d, rng)
    if cls == 'cond':
        _add_conditional_blocks(d, rng)
    # renaming through the public `name` property
    named = list(d.inputs) + list(d.outputs) + list(d.regs)
    inner = sorted([w for w in block.wirevector_set
                    if w.name.startswith('tmp')], key=lambda w: int(w.name[3:]))
    if cls in ('sani', 'both'):
        k = rng.randint(2, 6)
        targets = rng.sample(named, min(len(named), rng.randint(1, 3))) + \
            rng.sample(inner, min(len(inner), k))
        names = rng.sample(SANI_POOL, len(targets))
        for w, nm in zip(targets, names):
            w.name = nm
    if cls in ('zeros', 'both'):
        fams = rng.sample(ZERO_FAMILIES, rng.randint(1, 3))
        free_named = [w for w in named if w.name not in SANI_POOL]
        free_inner = [w for w in inner if w.name.startswith('tmp')]
        for fam in fams:
            # one family entirely among same-kind wires when possible (so the tie shows in one list)
            kinds = [[w for w in free_named if isinstance(w, pyrtl.Output)],
                     [w for w in free_named if isinstance(w, pyrtl.Input)],
                     [w for w in free_named if isinstance(w, pyrtl.Register)],
                     free_inner]
            kinds = [k for k in kinds if len(k) >= 2]
            if not kinds:
                continue
            grp = rng.choice(kinds)
            n = min(len(fam), len(grp))
            chosen = rng.sample(grp, n)
            for w, nm in zip(chosen, rng.sample(fam, n)):
                w.name = nm
                for lst in (free_named, free_inner):
                    lst[:] = [x for x in lst if x is not w]
    if cls == 'genlike':
        pool_w = [w for w in named + inner]
        k = min(len(pool_w), rng.randint(3, 7))
        chosen = rng.sample(pool_w, k)
        nms = rng.sample(GENLIKE_POOL, max(1, k - 2)) + rng.sample(SANI_POOL, 2)
        rng.shuffle(nms)
        for w, nm_ in zip(chosen, nms):
            w.name = nm_
    if cls == 'case':
        # whole families spread over wires of ANY kind (print_trace / print_vcd sort all traced names
        # together; the Verilog lists sort per kind), at least one family inside one kind
        pool_w = [w for w in named + inner]
        for fam in rng.sample(CASE_FAMILIES, rng.randint(2, 4)):
            if len(pool_w) < 2:
                break
            n = min(len(fam), len(pool_w))
            same_kind = [w for w in pool_w if type(w) is type(pool_w[0])]
            src = same_kind if (len(same_kind) >= n and rng.random() < 0.5) else pool_w
            chosen = rng.sample(src, n)
            for w, nm_ in zip(chosen, rng.sample(fam, n)):
                w.name = nm_
                pool_w[:] = [x for x in pool_w if x is not w]
    if cls == 'plain' and rng.random() < 0.7:
        cands = [w for w in named + inner]
        targets = rng.sample(cands, min(len(cands), rng.randint(1, 8)))
        for w, nm in zip(targets, rng.sample(PLAIN_POOL, len(targets))):
            w.name = nm
    block.sanity_check()
    ncycles = rng.randint(2, 6)
    if sweep:
        ncycles = max(1 << w.bitwidth for w in sweep) + 1
    regmap, memmap, inputs = gen_designs.make_stimulus(rng, d, ncycles)
    for w in sweep:      # every ROM address is read, the last one included
        for t, step in enumerate(inputs):
            step[w.name] = ((1 << w.bitwidth) - 1 - t) % (1 << w.bitwidth)
    opts = {'track_all': rng.random() < 0.5,
            'add_reset': rng.choice([True, True, False, 'asynchronous']),
            'base': rng.choice([2, 8, 10, 16]), 'compact': rng.random() < 0.3,
            'include_clock': rng.random() < 0.3}
    return d, (regmap, memmap, inputs), opts


def _add_shared_enable_ports(d, rng):
    """2-4 write ports of one memory sharing ONE write-enable wire (provably distinct addresses)"""
    pool = list(d.inputs) + list(d.regs)
    src = rng.choice(pool)
    m = pyrtl.MemBlock(bitwidth=rng.choice([1, 2, 4]), addrwidth=3, name='shmem',
                       max_read_ports=None, max_write_ports=None, asynchronous=True)
    en = pyrtl.WireVector(1, 'shared_we')
    en <<= src[0]
    hi = gen_designs.fit(rng, rng.choice(pool), 1)
    for low in rng.sample(range(4), rng.randint(2, 4)):
        addr = pyrtl.concat(hi, pyrtl.Const(low, bitwidth=2))
        data = gen_designs.fit(rng, rng.choice(pool), m.bitwidth)
        m[addr] <<= pyrtl.MemBlock.EnabledWrite(data, en)
    o = pyrtl.Output(m.bitwidth, 'shmem_rd')
    o <<= m[gen_designs.fit(rng, rng.choice(pool), 3)]
    d.outputs.append(o)
    d.mems.append(m)


def _add_conditional_blocks(d, rng):
    """1-2 `with conditional_assignment(defaults=...)` blocks: 2-5 targets (wires, registers, sometimes a
    memory write port) assigned under nested / alternative / otherwise conditions, with explicit
    defaults for none, one or several of the assigned targets (and sometimes for an unassigned one)"""
    pool = list(d.inputs) + list(d.regs)

    def bit():
        w = rng.choice(pool)
        return w[rng.randrange(len(w))]

    def val(width):
        if rng.random() < 0.35:
            return rng.getrandbits(width)
        return gen_designs.fit(rng, rng.choice(pool), width)

    for b in range(rng.randint(1, 2)):
        targets = []
        for k in range(rng.randint(2, 5)):
            w = rng.choice([1, 2, 3, 4, 8])
            if rng.random() < 0.35:
                r = pyrtl.Register(w, 'cr%d_%d' % (b, k))
                o = pyrtl.Output(w, 'cro%d_%d' % (b, k))
                o <<= r
                d.regs.append(r)
                targets.append(('reg', r, w))
            else:
                t = pyrtl.WireVector(w, 'cw%d_%d' % (b, k))
                o = pyrtl.Output(w, 'co%d_%d' % (b, k))
                o <<= t
                targets.append(('wire', t, w))
            d.outputs.append(o)
        mem = None
        if rng.random() < 0.3:
            mem = pyrtl.MemBlock(bitwidth=4, addrwidth=2, name='cmem%d' % b, asynchronous=True)
            o = pyrtl.Output(4, 'cmo%d' % b)
            o <<= mem[gen_designs.fit(rng, rng.choice(pool), 2)]
            d.outputs.append(o)
            d.mems.append(mem)
        # which targets get an explicit default: none / one / several / all
        k = rng.choice([0, 1, 2, 2, 3, len(targets), len(targets)])
        defaulted = rng.sample(targets, min(k, len(targets)))
        defaults = {t: val(w) for _, t, w in defaulted}
        c1, c2, c3 = bit(), bit(), bit()
        plan = {i: rng.sample(['c1', 'c1c3', 'c2', 'otherwise'], rng.randint(1, 3)) for i in range(len(targets))}
        for i in plan:      # c1 and c1&c3 on one target would conflict
            if 'c1' in plan[i] and 'c1c3' in plan[i]:
                plan[i].remove('c1c3')
        memslot = rng.choice(['c1', 'c2', 'otherwise'])

        def assign(slot):
            for i, (kind, t, w) in enumerate(targets):
                if slot in plan[i]:
                    if kind == 'reg':
                        t.next |= val(w)
                    else:
                        t |= val(w)
            if mem is not None and slot == memslot:
                mem[gen_designs.fit(rng, rng.choice(pool), 2)] |= val(4)

        with pyrtl.conditional_assignment(defaults=defaults):
            with c1:
                assign('c1')
                with c3:
                    assign('c1c3')
            with c2:
                assign('c2')
            with pyrtl.otherwise:
                assign('otherwise')


def _rom_data(rng, kind, aw, bw, partial_prob=0.5):
    """-> (romdata, pad_with_zeros)"""
    vals = [gen_designs.boundary_value(rng, bw) for _ in range(1 << aw)]
    vals[-1] = vals[-1] or 1      # the last address holds a non-zero value: dropping it is visible
    if kind == 'list':
        return list(vals), False
    if kind == 'dict':
        if rng.random() < partial_prob:
            keep = {a: v for a, v in enumerate(vals) if a == len(vals) - 1 or rng.random() < 0.6}
            return keep, True
        return {a: v for a, v in enumerate(vals)}, False
    return (lambda vs: (lambda a: vs[a]))(vals), False


def _add_same_name_memories(d, rng):
    """distinct memory objects carrying EQUAL names: (i) a build_new_roms ROM with one read port per copy,
    read 3-5 times (PyRTL clones it under the same name), (ii) two MemBlocks and two ROMs that were
    simply given the same name (the API does not object)"""
    pool = list(d.inputs) + list(d.regs)
    aw = rng.randint(1, 3)
    bw = rng.choice([2, 3, 4, 8])
    data, pad = _rom_data(rng, rng.choice(['list', 'dict', 'func']), aw, bw)
    crom = pyrtl.RomBlock(bw, aw, data, name='crom', max_read_ports=1, build_new_roms=True,
                          asynchronous=True, pad_with_zeros=pad)
    for k in range(rng.randint(3, 5)):
        o = pyrtl.Output(bw, 'crom_q%d' % k)
        o <<= crom[gen_designs.fit(rng, rng.choice(pool), aw)]
        d.outputs.append(o)
    for k in range(2):
        bwm = rng.choice([1, 2, 4])
        m = pyrtl.MemBlock(bitwidth=bwm, addrwidth=2, name='dupmem', max_read_ports=None,
                           max_write_ports=None, asynchronous=True)
        en = rng.choice(pool)
        m[gen_designs.fit(rng, rng.choice(pool), 2)] <<= pyrtl.MemBlock.EnabledWrite(
            gen_designs.fit(rng, rng.choice(pool), bwm), en[rng.randrange(len(en))])
        o = pyrtl.Output(bwm, 'dupmem_q%d' % k)
        o <<= m[gen_designs.fit(rng, rng.choice(pool), 2)]
        d.outputs.append(o)
        d.mems.append(m)
    for k in range(2):
        data, pad = _rom_data(rng, rng.choice(['list', 'dict', 'func']), 2, 4)
        r = pyrtl.RomBlock(4, 2, data, name='duprom', asynchronous=True, pad_with_zeros=pad)
        o = pyrtl.Output(4, 'duprom_q%d' % k)
        o <<= r[gen_designs.fit(rng, rng.choice(pool), 2)]
        d.outputs.append(o)
        d.roms.append(r)


def _add_swept_roms(d, rng):
    """ROMs with list, dict and FUNCTION romdata, each addressed by its own Input so that the
    stimulus can read every address; returns those Inputs"""
    kinds = ['func'] + rng.sample(['list', 'dict', 'func'], rng.randint(1, 2))
    rng.shuffle(kinds)
    sweep = []
    for k, kind in enumerate(kinds):
        aw = rng.randint(1, 4)
        bw = rng.choice([1, 3, 4, 8])
        # (output_to_firrtl raises KeyError on a sparse dict ROM; keep most designs free of it so that the
        # export runs to completion and every ROM, function-valued ones included, is materialised)
        data, pad = _rom_data(rng, kind, aw, bw, partial_prob=0.2)
        rom = pyrtl.RomBlock(bw, aw, data, name='rrom%d' % k, asynchronous=rng.random() < 0.5,
                             pad_with_zeros=pad)
        ra = pyrtl.Input(aw, 'ra%d' % k)
        o = pyrtl.Output(bw, 'rq%d' % k)
        o <<= rom[ra]
        d.inputs.append(ra)
        d.outputs.append(o)
        d.roms.append(rom)
        sweep.append(ra)
    return sweep


def fingerprint(block):
    """order-independent structural description (names, kinds, widths, nets)"""
    wires = sorted((w.name, type(w).__name__, w.bitwidth,
                    getattr(w, 'val', None), getattr(w, 'reset_value', None)) for w in block.wirevector_set)
    nets = sorted(_net_str(n) for n in block.logic)
    return hashlib.sha256(repr((wires, nets)).encode()).hexdigest()[:20]


def _net_str(n):
    p = n.op_param
    if n.op in 'm@':
        p = (p[0], p[1].name, p[1].bitwidth, p[1].addrwidth)
    return repr((n.op, p, tuple(a.name for a in n.args), tuple(x.name for x in n.dests)))


def simulate(block, stim, track='all', use_maps=True):
    regmap, memmap, inputs = stim
    wires = 'all' if track == 'all' else None
    tracer = pyrtl.SimulationTrace(wires_to_track=wires, block=block)
    kw = {}
    if use_maps:
        kw = dict(register_value_map=dict(regmap),
                  memory_value_map={m: dict(c) for m, c in memmap.items()})
    sim = pyrtl.Simulation(tracer=tracer, block=block, **kw)
    for step in inputs:
        sim.step(dict(step))
    return sim, tracer


def output_trace(block, stim, use_maps=True):
    sim, tracer = simulate(block, stim, track='all', use_maps=use_maps)
    outs = sorted(w.name for w in block.wirevector_subset(pyrtl.Output))
    return {nm: list(tracer.trace[nm]) for nm in outs}


def fast_output_trace(block, stim):
    regmap, memmap, inputs = stim
    tracer = pyrtl.SimulationTrace(wires_to_track='all', block=block)
    sim = pyrtl.FastSimulation(register_value_map=dict(regmap),
                               memory_value_map={m: dict(c) for m, c in memmap.items()},
                               tracer=tracer, block=block)
    for step in inputs:
        sim.step(dict(step))
    outs = sorted(w.name for w in block.wirevector_subset(pyrtl.Output))
    return {nm: list(tracer.trace[nm]) for nm in outs}


def sha(s):
    return hashlib.sha256(s.encode('utf-8', 'surrogatepass')).hexdigest()[:24]


def store(textdir, key, text):
    h = sha(text)
    d = os.path.join(textdir, re.sub(r'[^A-Za-z0-9_.-]', '_', key))
    os.makedirs(d, exist_ok=True)
    p = os.path.join(d, h + '.txt')
    # always written (never "skip if present"): the allocation pattern of this process must not depend
    # on what earlier runs left on disk, or the schedule would not replay
    tmp = p + '.%010d.tmp' % os.getpid()
    with open(tmp, 'w', encoding='utf-8', errors='surrogatepass') as f:
        f.write(text)
    os.replace(tmp, p)
    return h


# ------------------------------------------------------------------ mode: export

def duplicate_identifiers(exporter, text):
    """identifiers an emitted text DECLARES more than once (specification-level parse of the text)"""
    ids = []
    if exporter.endswith('print_vcd'):
        for line in text.split('\n'):
            if line.startswith('$var '):
                ids.append(line.split(' ')[3])
    elif exporter.endswith('output_to_verilog') or exporter.endswith('output_verilog_testbench'):
        for line in text.split('\n'):
            m = re.match(r'    (?:input|output|reg|wire|integer)(?:\[\d+:0\])? ([^\s;\[]+)(?:\[\d+:0\])?;', line)
            if m:
                ids.append(m.group(1))
        m = re.search(r'^    toplevel (\S+)\(', text, flags=re.M)
        if m:
            ids.append(m.group(1))
    seen, dup = set(), []
    for x in ids:
        if x in seen and x not in dup:
            dup.append(x)
        seen.add(x)
    return dup


def export_texts(block, tracer, opts, order, prefix=''):
    """the four text exporters on one block/trace, called in the given ORDER (a permutation of 0..3),
    then all called once more: the second text of each must equal the first (an export must not
    change what a later export prints)"""
    def verilog():
        f = io.StringIO()
        pyrtl.output_to_verilog(f, add_reset=opts['add_reset'], block=block)
        return f.getvalue()

    def testbench():
        f = io.StringIO()
        pyrtl.output_verilog_testbench(f, simulation_trace=tracer, add_reset=opts['add_reset'],
                                       cmd='$display("%d", 1);', block=block)
        return f.getvalue()

    def vcd():
        f = io.StringIO()
        tracer.print_vcd(f, include_clock=opts['include_clock'])
        return f.getvalue()

    def trace():
        f = io.StringIO()
        tracer.print_trace(f, base=opts['base'], compact=opts['compact'])
        return f.getvalue()

    calls = [('output_to_verilog', verilog), ('output_verilog_testbench', testbench),
             ('print_vcd', vcd), ('print_trace', trace)]
    texts, again = {}, {}
    for k in order:
        nm_, fn = calls[k]
        try:
            texts[prefix + nm_] = fn()
        except Exception as e:
            texts[prefix + nm_] = 'ERR %s: %s' % (type(e).__name__, str(e)[:120])
    for nm_, fn in calls:
        try:
            again[prefix + nm_] = fn()
        except Exception as e:
            again[prefix + nm_] = 'ERR %s: %s' % (type(e).__name__, str(e)[:120])
    changed = sorted(k for k in texts if texts[k] != again[k])
    return texts, changed


ORDERS = [(0, 1, 2, 3), (2, 3, 0, 1), (3, 2, 1, 0), (1, 0, 3, 2), (2, 0, 3, 1), (0, 2, 1, 3)]


def run_export(spec, noise, textdir, order_id=0):
    d, stim, opts = build(spec, noise)
    block = d.block
    order = ORDERS[order_id % len(ORDERS)]
    res = {'key': spec['key'], 'fp': fingerprint(block), 'order': list(order)}
    names = [w.name for w in block.wirevector_set]          # the schedule, as observed
    res['set_order'] = names
    res['kinds'] = [type(w).__name__ for w in block.wirevector_set]     # parallel to set_order
    # nets in Block.logic iteration order:
    # [op, dest name, memid, str(write-enable), write-enable name, str(addr), str(data)]
    res['nets'] = [[n.op, n.dests[0].name if n.dests else None,
                    n.op_param[0] if n.op in 'm@' else None,
                    str(n.args[2]) if n.op == '@' else None,
                    n.args[2].name if n.op == '@' else None,
                    str(n.args[0]) if n.op == '@' else None,
                    str(n.args[1]) if n.op == '@' else None] for n in block.logic]
    sim, tracer = simulate(block, stim, track='all' if opts['track_all'] else 'named')
    res['tracked_order'] = [w.name for w in tracer.wires_to_track]
    res['trace_keys'] = list(tracer.trace)
    # the trace dict as it is (iteration order included): [name, bitwidth, values]
    res['trace_items'] = [[k, tracer._wires[k].bitwidth, list(tracer.trace[k])] for k in tracer.trace]
    texts, changed = export_texts(block, tracer, opts, order)
    res['changed_on_second_call'] = changed
    texts['simulation_trace'] = json.dumps(sorted((k, list(v)) for k, v in tracer.trace.items()))
    # the same exporters on a copy_block() copy of the design (names are preserved by the copy)
    try:
        cp = pyrtl.copy_block(block, update_working_block=False)
        csim, ctracer = simulate(cp, ({}, {}, stim[2]), track='all' if opts['track_all'] else 'named')
        ctexts, cchanged = export_texts(cp, ctracer, opts, order, prefix='copy:')
        ctexts['copy:simulation_trace'] = json.dumps(sorted((k, list(v)) for k, v in ctracer.trace.items()))
        res['changed_on_second_call'] += cchanged
        res['copy_fp_same'] = (fingerprint(cp) == res['fp'])
    except Exception as e:
        ctexts = {'copy:output_to_verilog': 'ERR %s: %s' % (type(e).__name__, str(e)[:160])}
    texts.update(ctexts)
    # CompiledSimulation (traces Inputs/Outputs only; rebuilds the tracer's wire collection itself)
    if spec.get('compiled'):
        ks = None
        try:
            ktr = pyrtl.SimulationTrace(block=block)
            ks = pyrtl.CompiledSimulation(register_value_map=dict(stim[0]),
                                          memory_value_map={m: dict(c) for m, c in stim[1].items()},
                                          tracer=ktr, block=block)
            for step in stim[2]:
                ks.step(dict(step))
        except Exception as e:
            # building / running the compiled simulator (gcc, dlopen, temp dir) is C02's concern and may
            # depend on the environment: recorded, not reported as an exporter error
            res['compiled_unavailable'] = '%s: %s' % (type(e).__name__, str(e)[:120])
            ks = None
        try:
            if ks is None:
                raise LookupError('skip')
            f = io.StringIO()
            ktr.print_vcd(f, include_clock=opts['include_clock'])
            texts['compiled:print_vcd'] = f.getvalue()
            f = io.StringIO()
            ktr.print_trace(f, base=opts['base'], compact=opts['compact'])
            texts['compiled:print_trace'] = f.getvalue()
            f = io.StringIO()
            pyrtl.output_verilog_testbench(f, simulation_trace=ktr, add_reset=opts['add_reset'], block=block)
            texts['compiled:output_verilog_testbench'] = f.getvalue()
            texts['compiled:simulation_trace'] = json.dumps(sorted((k, list(v)) for k, v in ktr.trace.items()))
        except LookupError:
            pass
        except Exception as e:
            texts['compiled:print_vcd'] = 'ERR %s: %s' % (type(e).__name__, str(e)[:160])
    res['duplicate_identifiers'] = {k: duplicate_identifiers(k, v) for k, v in texts.items()
                                    if duplicate_identifiers(k, v)}
    res['export_errors'] = {k: v[:200] for k, v in texts.items() if v.startswith('ERR ')}
    # FastSimulation: its generated code names wires through a _PythonSanitizer fed in set order; the
    # trace it produces must nevertheless be the same under every schedule
    try:
        ftr = pyrtl.SimulationTrace(wires_to_track='all' if opts['track_all'] else None, block=block)
        fs = pyrtl.FastSimulation(register_value_map=dict(stim[0]),
                                  memory_value_map={m: dict(c) for m, c in stim[1].items()},
                                  tracer=ftr, block=block)
        for step in stim[2]:
            fs.step(dict(step))
        texts['fastsim_trace'] = json.dumps(sorted((k, list(v)) for k, v in ftr.trace.items()))
    except Exception as e:
        texts['fastsim_trace'] = 'ERR %s' % type(e).__name__
    res['fast_equals_sim'] = (texts['fastsim_trace'] == texts['simulation_trace'])
    # informational only (not in the property's byte-identical list)
    extra = {}
    try:
        with contextlib.redirect_stdout(io.StringIO()):
            extra['block_to_graphviz_string'] = pyrtl.block_to_graphviz_string(block)
    except Exception as e:  # pragma: no cover
        extra['block_to_graphviz_string'] = 'ERR ' + type(e).__name__
    f = io.StringIO()
    try:
        tracer.render_trace(file=f, renderer=pyrtl.simulation.WaveRenderer(
            pyrtl.simulation.AsciiRendererConstants()))
        extra['render_trace'] = f.getvalue()
    except Exception as e:  # pragma: no cover
        extra['render_trace'] = 'ERR ' + type(e).__name__
    f = io.StringIO()
    try:
        pyrtl.output_to_trivialgraph(f, block=block)
        extra['output_to_trivialgraph'] = f.getvalue()
    except Exception as e:  # pragma: no cover
        extra['output_to_trivialgraph'] = 'ERR ' + type(e).__name__
    res['sha'] = {k: store(textdir, spec['key'] + '.' + k, v) for k, v in texts.items()}
    # last, because it rewrites the block in place
    f = io.StringIO()
    try:
        pyrtl.output_to_firrtl(f, block=block)
        extra['output_to_firrtl'] = f.getvalue()
    except Exception as e:
        extra['output_to_firrtl'] = 'ERR ' + type(e).__name__
    res['extra_sha'] = {k: sha(v) for k, v in extra.items()}
    res['n_invalid'] = sum(1 for nm in names if needs_sanitising(nm))
    res['n_invalid_tracked'] = sum(1 for nm in res['tracked_order'] if needs_sanitising(nm))
    res['opts'] = {k: str(v) for k, v in opts.items()}
    res['nwires'] = len(names)
    res['nnets'] = len(block.logic)
    return res


# ------------------------------------------------------------------ mode: passes

def _p_synth():
    pyrtl.synthesize()


def _p_opt():
    pyrtl.optimize()


def _p_synth_opt():
    pyrtl.synthesize()
    pyrtl.optimize()


def _p_nand():
    pyrtl.synthesize()
    pyrtl.passes.nand_synth()


def _p_aig():
    pyrtl.synthesize()
    pyrtl.passes.and_inverter_synth()


def _p_lower():
    pyrtl.passes.one_bit_selects()
    pyrtl.passes.two_way_concat()


def _p_cse_only():
    pyrtl.passes.common_subexp_elimination()


def _p_constprop():
    pyrtl.passes.constant_propagation(pyrtl.working_block(), silence_unexpected_net_warnings=True)


def _p_fanout():
    pyrtl.passes.two_way_fanout()


PIPELINES = [('synthesize', _p_synth), ('optimize', _p_opt), ('synthesize+optimize', _p_synth_opt),
             ('synthesize+nand_synth', _p_nand), ('synthesize+and_inverter_synth', _p_aig),
             ('one_bit_selects+two_way_concat', _p_lower), ('common_subexp_elimination', _p_cse_only),
             ('constant_propagation', _p_constprop), ('two_way_fanout', _p_fanout)]


def run_passes(spec, noise, textdir):
    res = {'key': spec['key'], 'pipelines': {}}
    for pname, fn in PIPELINES:
        d, stim, opts = build(spec, noise)
        block = d.block
        if 'fp' not in res:
            res['fp'] = fingerprint(block)
            res['reference'] = output_trace(block, stim, use_maps=False)
        try:
            fn()
            wb = pyrtl.working_block()
            tr = output_trace(wb, stim, use_maps=False)
            res['pipelines'][pname] = {'outputs': tr, 'fp_after': fingerprint(wb),
                                       'nnets': len(wb.logic)}
        except Exception as e:
            # the message may name whichever offending net the set iteration met first: compare the class only
            res['pipelines'][pname] = {'error': type(e).__name__, 'message': str(e)[:200]}
    return res


# ------------------------------------------------------------------ mode: readonly

def readonly_calls(d, tracer_box):
    block = d.block

    def sio():
        return io.StringIO()

    def c_verilog():
        pyrtl.output_to_verilog(sio(), block=block)

    def c_verilog_noreset():
        pyrtl.output_to_verilog(sio(), add_reset=False, block=block)

    def c_testbench():
        pyrtl.output_verilog_testbench(sio(), simulation_trace=tracer_box[0], block=block)

    def c_testbench_notrace():
        pyrtl.output_verilog_testbench(sio(), block=block)

    def c_vcd():
        tracer_box[0].print_vcd(sio(), include_clock=True)

    def c_trace():
        tracer_box[0].print_trace(sio())
        tracer_box[0].print_trace(sio(), base=16, compact=True)

    def c_render():
        tracer_box[0].render_trace(file=sio(), renderer=pyrtl.simulation.WaveRenderer(
            pyrtl.simulation.AsciiRendererConstants()))

    def c_graphviz():
        pyrtl.block_to_graphviz_string(block)
        pyrtl.block_to_graphviz_string(block, split_state=False, maintain_arg_order=True)

    def c_graphviz_detailed():
        ta = pyrtl.TimingAnalysis(block=block)
        pyrtl.block_to_graphviz_string(block, namer=pyrtl.graphviz_detailed_namer(
            extra_node_info=None, extra_edge_info=ta.timing_map))

    def c_output_to_graphviz():
        pyrtl.output_to_graphviz(sio(), block=block)

    def c_svg():
        try:
            pyrtl.block_to_svg(block)
        except pyrtl.PyrtlError:
            pass   # python-graphviz not installed: the call still must not touch the block

    def c_trivialgraph():
        pyrtl.output_to_trivialgraph(sio(), block=block)

    def c_net_graph():
        pyrtl.net_graph(block)
        pyrtl.net_graph(block, split_state=True)

    def c_timing():
        ta = pyrtl.TimingAnalysis(block=block)
        ta.max_length()
        ta.max_freq()
        with contextlib.redirect_stdout(sio()):
            ta.critical_path(print_cp=True, cp_limit=20)
            ta.print_max_length()

    def c_area():
        pyrtl.area_estimation(block=block)

    def c_paths():
        p = pyrtl.analysis.paths(block=block)
        p.print(file=sio())
        ins = sorted(block.wirevector_subset(pyrtl.Input), key=lambda w: w.name)
        outs = sorted(block.wirevector_subset(pyrtl.Output), key=lambda w: w.name)
        pyrtl.analysis.paths(src=ins[0], dst=outs[0], block=block)

    def c_fanout():
        for w in sorted(block.wirevector_subset((pyrtl.Input, pyrtl.Register)), key=lambda w: w.name):
            pyrtl.analysis.fanout(w)

    def c_distance():
        ins = sorted(block.wirevector_subset(pyrtl.Input), key=lambda w: w.name)
        outs = sorted(block.wirevector_subset(pyrtl.Output), key=lambda w: w.name)
        pyrtl.analysis.distance(ins[0], outs[0], lambda n: 1, block=block)

    def c_net_connections():
        block.net_connections()
        block.net_connections(include_virtual_nodes=True)

    def c_sanity_iter_str():
        block.sanity_check()
        list(block)
        str(block)

    def c_simulate():
        pass   # the before/after simulation itself is a read-only call that is always exercised

    def c_fastsim():
        fs = pyrtl.FastSimulation(tracer=pyrtl.SimulationTrace(block=block), block=block)
        fs.step({w.name: 0 for w in block.wirevector_subset(pyrtl.Input)})

    read_mems = {n.op_param[1] for n in block.logic_subset('m')}
    roms = sorted((m for m in read_mems if isinstance(m, pyrtl.RomBlock)), key=lambda m: m.id)
    # output_to_firrtl(rom_blocks=...) assumes EVERY read port belongs to a listed ROM (it raises
    # AttributeError otherwise), so rom_blocks is passed only for ROM-only designs
    rom_only = bool(roms) and len(roms) == len(read_mems) and not block.logic_subset('@')

    def c_firrtl():
        pyrtl.output_to_firrtl(sio(), rom_blocks=roms if rom_only else None, block=block)

    return [('output_to_verilog', c_verilog, True), ('output_to_verilog(add_reset=False)', c_verilog_noreset, True),
            ('output_verilog_testbench', c_testbench, True),
            ('output_verilog_testbench(no trace)', c_testbench_notrace, True),
            ('print_vcd', c_vcd, True), ('print_trace', c_trace, True), ('render_trace', c_render, True),
            ('block_to_graphviz_string', c_graphviz, True),
            ('block_to_graphviz_string(detailed)', c_graphviz_detailed, True),
            ('output_to_graphviz', c_output_to_graphviz, True), ('block_to_svg', c_svg, True),
            ('output_to_trivialgraph', c_trivialgraph, True), ('net_graph', c_net_graph, True),
            ('TimingAnalysis', c_timing, True), ('area_estimation', c_area, True), ('paths', c_paths, True),
            ('fanout', c_fanout, True), ('distance', c_distance, True),
            ('net_connections', c_net_connections, True), ('sanity_check/iter/str', c_sanity_iter_str, True),
            ('Simulation', c_simulate, True), ('FastSimulation', c_fastsim, True),
            ('output_to_firrtl(rom_blocks=[...])' if rom_only else 'output_to_firrtl', c_firrtl, False)]
    # False: structure may change, behaviour may not


def run_readonly(spec, noise, textdir):
    d, stim, opts = build(spec, noise)
    block = d.block
    res = {'key': spec['key'], 'fp': fingerprint(block), 'calls': []}
    sim, tracer = simulate(block, stim, track='all')
    box = [tracer]
    ref = output_trace(block, stim)
    ref_fast = fast_output_trace(block, stim)
    res['fast_equals_sim'] = (ref == ref_fast)
    res['rom_kinds'] = sorted(type(m.data).__name__ for m in d.roms)
    fp = fingerprint(block)
    for cname, fn, structural in readonly_calls(d, box):
        entry = {'call': cname}
        try:
            fn()
        except Exception as e:
            entry['error'] = '%s: %s' % (type(e).__name__, str(e)[:300])
        try:
            fp2 = fingerprint(block)
            out2 = output_trace(block, stim)
            out2_fast = fast_output_trace(block, stim)
        except Exception as e:
            entry['post_error'] = '%s: %s' % (type(e).__name__, str(e)[:300])
            res['calls'].append(entry)
            break
        entry['fp_same'] = (fp2 == fp)
        entry['beh_same'] = (out2 == ref)
        entry['beh_same_fast'] = (out2_fast == ref_fast)
        if out2_fast != ref_fast:
            bad = sorted(k for k in set(ref_fast) | set(out2_fast) if ref_fast.get(k) != out2_fast.get(k))
            entry['diff_fast'] = {'outputs': bad[:4], 'expected': {k: ref_fast.get(k) for k in bad[:2]},
                                  'got': {k: out2_fast.get(k) for k in bad[:2]}}
            ref_fast = out2_fast
        if not structural:
            entry['fp_same'] = None
        if out2 != ref:
            bad = sorted(k for k in set(ref) | set(out2) if ref.get(k) != out2.get(k))
            entry['diff'] = {'outputs': bad[:4], 'expected': {k: ref.get(k) for k in bad[:2]},
                             'got': {k: out2.get(k) for k in bad[:2]}}
            ref = out2
        fp = fp2
        res['calls'].append(entry)
    return res


MODES = {'export': run_export, 'passes': run_passes, 'readonly': run_readonly}


def main():
    job = json.load(open(sys.argv[1]))
    out = {'hashseed': os.environ.get('PYTHONHASHSEED'), 'noise': job['noise'], 'results': []}
    fn = MODES[job['mode']]
    for spec in job['designs']:
        try:
            if job['mode'] == 'export':
                out['results'].append(fn(spec, job['noise'], job['textdir'], job.get('order', 0)))
            else:
                out['results'].append(fn(spec, job['noise'], job['textdir']))
        except Exception as e:
            import traceback
            out['results'].append({'key': spec['key'], 'worker_error': traceback.format_exc()[-1500:]})
    with open(sys.argv[2], 'w') as f:
        json.dump(out, f)


if __name__ == '__main__':
    main()
