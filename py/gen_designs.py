"""Seeded random design generator: builds PyRTL designs through the public
construction API only.  Every random choice comes from the `random.Random`
passed in, so a case replays from its seed alone.

make_design(rng, **opts) -> Design  (a fresh pyrtl.Block plus metadata)
make_stimulus(rng, design, ncycles) -> (regmap, memmap, inputs)
"""
import random
import pyrtl

SMALL_WIDTHS = [1, 1, 2, 2, 3, 3, 4, 5, 7, 8]
WIDE_WIDTHS = [31, 32, 33, 63, 64, 65, 127, 128, 129, 130]


class Design(object):
    def __init__(self, block):
        self.block = block
        self.inputs = []      # Input wires
        self.outputs = []     # Output wires
        self.regs = []        # Register wires
        self.mems = []        # MemBlock (non-ROM)
        self.roms = []        # RomBlock
        self.ops = []         # op log (for distribution statistics)
        self.seed = None


def pick_width(rng, wide_prob):
    if rng.random() < wide_prob:
        return rng.choice(WIDE_WIDTHS)
    return rng.choice(SMALL_WIDTHS)


def boundary_value(rng, w):
    """value in [0, 2^w) biased to boundaries"""
    r = rng.random()
    top = (1 << w) - 1
    if r < 0.12:
        return 0
    if r < 0.24:
        return top
    if r < 0.30:
        return 1 & top
    if r < 0.36:
        return 1 << (w - 1)
    if r < 0.42:
        return top >> 1
    return rng.getrandbits(w)


def fit(rng, w, width):
    """return a wire of exactly `width` bits derived from w (truncate / zero-extend / sign-extend)"""
    if len(w) == width:
        return w
    if len(w) > width:
        return w[:width] if rng.random() < 0.8 else w[len(w) - width:]
    if rng.random() < 0.7:
        return w.zero_extended(width)
    return w.sign_extended(width)


def make_design(rng, n_ops=None, wide_prob=0.15, allow_mem=True, allow_rom=True,
                allow_reg=True, max_width=None, ops_subset=None, probe_all=False,
                name_prefix='', sparse_rom_prob=0.0):
    pyrtl.reset_working_block()
    block = pyrtl.working_block()
    d = Design(block)
    pool = []

    def W():
        w = pick_width(rng, wide_prob)
        if max_width:
            w = min(w, max_width)
        return w

    n_in = rng.randint(1, 4)
    for i in range(n_in):
        w = pyrtl.Input(W(), name_prefix + 'in%d' % i)
        d.inputs.append(w)
        pool.append(w)

    if allow_reg:
        for i in range(rng.choice([0, 1, 1, 2, 3])):
            bw = W()
            rv = None
            if rng.random() < 0.6:
                rv = boundary_value(rng, bw)
            r = pyrtl.Register(bw, name_prefix + 'r%d' % i, reset_value=rv)
            d.regs.append(r)
            pool.append(r)

    mems = []
    if allow_mem:
        for i in range(rng.choice([0, 0, 1, 1, 2])):
            aw = rng.randint(1, 4)
            bw = W()
            m = pyrtl.MemBlock(bitwidth=bw, addrwidth=aw, name=name_prefix + 'mem%d' % i,
                               max_read_ports=None, max_write_ports=None,
                               asynchronous=True)
            d.mems.append(m)
            mems.append(m)
    roms = []
    if allow_rom:
        for i in range(rng.choice([0, 0, 0, 1]) if not sparse_rom_prob else rng.choice([0, 1, 1, 2])):
            aw = rng.randint(1, 4)
            bw = min(W(), 70)
            vals = [boundary_value(rng, bw) for _ in range(1 << aw)]
            kind = rng.choice(['list', 'dict', 'func'])
            pad = False
            if sparse_rom_prob and rng.random() < sparse_rom_prob and kind != 'func' and aw >= 2:
                # partially populated ROM read through pad_with_zeros (sparse dict with keys
                # beyond len(dict), or a list shorter than the address space)
                pad = True
                if kind == 'list':
                    keep = rng.randint(1, (1 << aw) - 1)
                    vals = vals[:keep] + [0] * ((1 << aw) - keep)
                    data = list(vals[:keep])
                else:
                    keys = sorted(rng.sample(range(1 << aw), rng.randint(1, max(1, (1 << aw) // 2))))
                    if (1 << aw) - 1 not in keys and rng.random() < 0.7:
                        keys.append((1 << aw) - 1)
                    data = {a: (vals[a] or 1) for a in keys}
                    vals = [data.get(a, 0) for a in range(1 << aw)]
            elif kind == 'list':
                data = list(vals)
            elif kind == 'dict':
                data = {a: v for a, v in enumerate(vals)}
            else:
                data = (lambda vs: (lambda a: vs[a]))(vals)
            rom = pyrtl.RomBlock(bitwidth=bw, addrwidth=aw, romdata=data,
                                 name=name_prefix + 'rom%d' % i, max_read_ports=None,
                                 asynchronous=True, pad_with_zeros=pad)
            rom._verif_table = list(vals)
            d.roms.append(rom)
            roms.append(rom)

    all_ops = ['&', '|', '^', '~', 'nand', '+', '-', '*', '<', '>', '==', '!=', '<=', '>=',
               'mux', 'concat', 'slice', 'index', 'const', 'trunc', 'zext', 'sext',
               'memrd', 'romrd', 'select']
    if ops_subset:
        all_ops = [o for o in all_ops if o in ops_subset]

    def operand():
        return rng.choice(pool)

    def const_operand(width):
        v = boundary_value(rng, width)
        k = rng.random()
        if k < 0.5:
            return pyrtl.Const(v, bitwidth=width)
        if k < 0.75:
            return pyrtl.Const("%d'd%d" % (width, v))
        return pyrtl.Const(v)

    if n_ops is None:
        n_ops = rng.randint(4, 22)
    for _ in range(n_ops):
        op = rng.choice(all_ops)
        a = operand()
        res = None
        if op in ('&', '|', '^', '+', '-', '*', '<', '>', '==', '!=', '<=', '>=', 'nand'):
            b = operand() if rng.random() < 0.8 else const_operand(rng.choice([len(a), W()]))
            if op == '*' and len(a) + len(b) > 140:
                op = '+'
            if rng.random() < 0.15 and not isinstance(b, pyrtl.Const):
                b = a  # same wire twice
            if op == '&':
                res = a & b
            elif op == '|':
                res = a | b
            elif op == '^':
                res = a ^ b
            elif op == 'nand':
                res = a.nand(b)
            elif op == '+':
                res = a + b
            elif op == '-':
                res = a - b
            elif op == '*':
                res = a * b
            elif op == '<':
                res = a < b
            elif op == '>':
                res = a > b
            elif op == '==':
                res = a == b
            elif op == '!=':
                res = a != b
            elif op == '<=':
                res = a <= b
            elif op == '>=':
                res = a >= b
        elif op == '~':
            res = ~a
        elif op in ('mux', 'select'):
            s = operand()
            s1 = s[rng.randrange(len(s))]
            b = operand()
            res = pyrtl.select(s1, a, b)
        elif op == 'concat':
            k = rng.randint(2, 4)
            parts = [operand() for _ in range(k)]
            if sum(len(p) for p in parts) > 200:
                parts = parts[:2]
            if sum(len(p) for p in parts) > 260:
                continue
            res = pyrtl.concat(*parts)
        elif op == 'slice':
            n = len(a)
            lo = rng.randint(-n, n)
            hi = rng.randint(-n, n)
            step = rng.choice([1, 1, 1, 2, -1, -2, 3])
            lo_ = None if rng.random() < 0.2 else lo
            hi_ = None if rng.random() < 0.2 else hi
            sl = slice(lo_, hi_, step)
            if len(range(n)[sl]) == 0:
                continue
            res = a[sl]
        elif op == 'index':
            n = len(a)
            res = a[rng.randint(-n, n - 1)]
        elif op == 'const':
            res = const_operand(W())
            # consts must be used: combine with an operand
            res = fit(rng, a, len(res)) ^ res
        elif op == 'trunc':
            res = a.truncate(rng.randint(1, len(a)))
        elif op == 'zext':
            res = a.zero_extended(len(a) + rng.randint(1, 5))
        elif op == 'sext':
            res = a.sign_extended(len(a) + rng.randint(1, 5))
        elif op == 'memrd':
            if not mems:
                continue
            m = rng.choice(mems)
            res = pyrtl.as_wires(m[fit(rng, a, m.addrwidth)])
        elif op == 'romrd':
            if not roms:
                continue
            m = rng.choice(roms)
            res = pyrtl.as_wires(m[fit(rng, a, m.addrwidth)])
        if res is None:
            continue
        d.ops.append(op)
        pool.append(res)

    # memory writes: one or two ports with provably distinct addresses
    for m in mems:
        nports = rng.choice([1, 1, 2]) if m.addrwidth >= 2 else 1
        if nports == 1:
            addr = fit(rng, operand(), m.addrwidth)
            data = fit(rng, operand(), m.bitwidth)
            if rng.random() < 0.7:
                en = operand()
                en = en[rng.randrange(len(en))]
                m[addr] <<= pyrtl.MemBlock.EnabledWrite(data, en)
            else:
                m[addr] <<= data
            d.ops.append('memwr')
        else:
            hi = fit(rng, operand(), m.addrwidth - 1)
            for lsb in (0, 1):
                addr = pyrtl.concat(hi, pyrtl.Const(lsb, bitwidth=1))
                data = fit(rng, operand(), m.bitwidth)
                en = operand()
                en = en[rng.randrange(len(en))]
                m[addr] <<= pyrtl.MemBlock.EnabledWrite(data, en)
                d.ops.append('memwr')
    # memories need at least one read port to be observable (and to be legal)
    for m in mems:
        if not m.readport_nets:
            pool.append(pyrtl.as_wires(m[fit(rng, operand(), m.addrwidth)]))
            d.ops.append('memrd')

    # register next values
    for r in d.regs:
        src = operand()
        r.next <<= fit(rng, src, len(r))

    # outputs: every wire that nobody reads becomes (part of) an Output, plus a few more
    _, dst_nets = block.net_connections()
    unread = [w for w in pool if w not in dst_nets and not isinstance(w, pyrtl.Input)
              or (isinstance(w, pyrtl.Input) and w not in dst_nets)]
    extra = [operand() for _ in range(rng.randint(1, 3))]
    outs = []
    seen = set()
    for w in unread + extra:
        if id(w) in seen:
            continue
        seen.add(id(w))
        outs.append(w)
    if probe_all:
        for w in pool:
            if id(w) not in seen:
                seen.add(id(w))
                outs.append(w)
    for i, w in enumerate(outs):
        ow = len(w)
        r = rng.random()
        if r < 0.15 and len(w) > 1:
            ow = len(w) - 1  # truncating assignment
        elif r < 0.25:
            ow = len(w) + 2  # extending assignment
        o = pyrtl.Output(ow, name_prefix + 'out%d' % i)
        o <<= w
        d.outputs.append(o)
    return d


def make_stimulus(rng, d, ncycles, default_value=0):
    regmap = {}
    for r in d.regs:
        if rng.random() < 0.4:
            regmap[r] = boundary_value(rng, len(r))
    memmap = {}
    for m in d.mems:
        if rng.random() < 0.6:
            memmap[m] = {a: boundary_value(rng, m.bitwidth)
                         for a in range(1 << m.addrwidth) if rng.random() < 0.5}
    inputs = []
    for _ in range(ncycles):
        inputs.append({w.name: boundary_value(rng, len(w)) for w in d.inputs})
    return regmap, memmap, inputs


class AssertFired(Exception):
    """raised by the rtl_assert wires that decorate() adds"""


RAW_OPS = ['w', '~', '&', '|', '^', 'n', '+', '-', '*', 'x', 'c', 's', 'r']


def decorate(rng, d, n_raw=3, n_dangling=2, n_assert=1):
    """post-process a design built by make_design with what the '<<=' sugar never produces:
      raw      nets added with Block.add_net whose destination is NARROWER than the natural result width
               (legal: sanity_check_net only rejects wider destinations; documented semantics: truncate),
               for every primitive including a register whose next-input is wider than the register;
      dangling driven wires that nothing reads and that are not Outputs (read back through inspect);
      asserts  rtl_assert on a 1-bit wire (the caller catches AssertFired and keeps stepping).
    Consumes only `rng`, so make_design's stream is unchanged."""
    block = d.block
    src = [w for w in block.wirevector_set
           if not isinstance(w, (pyrtl.Output, pyrtl.Const)) and len(w) >= 2]
    src.sort(key=lambda w: w.name)
    d.dangling = []
    k = 0

    def same_width(a):
        c = [w for w in src if len(w) == len(a)]
        return rng.choice(c)

    def finish(dest, how):
        if how == 'out':
            o = pyrtl.Output(len(dest), 'rawout%d' % len(d.outputs))
            o <<= dest
            d.outputs.append(o)
        else:
            d.dangling.append(dest)

    for _ in range(n_raw if src else 0):
        op = rng.choice(RAW_OPS)
        a = rng.choice(src)
        k += 1
        if op in 'w~':
            args, nat, par = (a,), len(a), None
        elif op in '&|^n':
            args, nat, par = (a, same_width(a)), len(a), None
        elif op in '+-':
            args, nat, par = (a, same_width(a)), len(a) + 1, None
        elif op == '*':
            if len(a) > 66:
                continue
            args, nat, par = (a, same_width(a)), 2 * len(a), None
        elif op == 'x':
            s = rng.choice(src)
            s1 = s[rng.randrange(len(s))]
            args, nat, par = (s1, a, same_width(a)), len(a), None
        elif op == 'c':
            b = rng.choice(src)
            if len(a) + len(b) > 200:
                continue
            args, nat, par = (a, b), len(a) + len(b), None
        elif op == 's':
            par = tuple(rng.randrange(len(a)) for _ in range(rng.randint(2, 6)))
            args, nat = (a,), len(par)
        else:   # 'r': a register narrower than its next-input, driven by a raw net
            dw = rng.randint(1, len(a) - 1)
            rv = boundary_value(rng, dw) if rng.random() < 0.5 else None
            r = pyrtl.Register(dw, 'rawreg%d' % k, reset_value=rv)
            block.add_net(pyrtl.LogicNet('r', None, (a,), (r,)))
            d.regs.append(r)
            d.ops.append('raw-r')
            finish(r, 'out')
            continue
        dw = rng.randint(1, nat - 1)
        dest = pyrtl.WireVector(dw, 'raw%d' % k)
        block.add_net(pyrtl.LogicNet(op, par, args, (dest,)))
        d.ops.append('raw-' + op)
        finish(dest, 'out' if rng.random() < 0.7 else 'dangling')

    for _ in range(n_dangling if src else 0):
        a = rng.choice(src)
        k += 1
        dest = pyrtl.WireVector(len(a), 'dangle%d' % k)
        dest <<= ~a if rng.random() < 0.5 else a
        d.dangling.append(dest)
        d.ops.append('dangling')

    d.asserts = []
    for _ in range(n_assert if src else 0):
        a = rng.choice(src)
        k += 1
        cond = pyrtl.WireVector(1, 'acond%d' % k)
        cond <<= a[rng.randrange(len(a))] | a[rng.randrange(len(a))]
        d.asserts.append(pyrtl.rtl_assert(cond, AssertFired('acond%d' % k), block=block))
        d.ops.append('rtl_assert')
    return d


def extend_design(rng, d, k=3, prefix='x'):
    """second building phase on an existing design (its block must be the working block again): k more expression
    trees over existing wires, each with fresh automatically named temporaries and constants, ending in an Output"""
    block = d.block
    src = sorted((w for w in block.wirevector_set if not isinstance(w, (pyrtl.Output, pyrtl.Const))),
                 key=lambda w: w.name)
    base = len(d.outputs)
    for j in range(k):
        a, b, c = rng.choice(src), rng.choice(src), rng.choice(src)
        w = max(len(a), len(b))
        e = (a.zero_extended(w) ^ b.zero_extended(w)) + pyrtl.Const(boundary_value(rng, 3), bitwidth=3)
        e = pyrtl.select(c[rng.randrange(len(c))], e, ~e)
        o = pyrtl.Output(len(e), '%sout%d' % (prefix, base + j))
        o <<= e
        d.outputs.append(o)
        d.ops.append('phase2')
    return d


def add_sync_memory(rng, d, name='smem'):
    """a synchronous (default) MemBlock: its read addresses may only come from Inputs/Registers/Consts through
    wire/concat/select nets, which is what sanity_check_memory_sync walks"""
    block = d.block
    srcs = sorted((w for w in list(d.inputs) + list(d.regs)), key=lambda w: w.name)
    aw = rng.randint(2, 4)
    m = pyrtl.MemBlock(bitwidth=rng.randint(1, 8), addrwidth=aw, name=name, max_read_ports=None,
                       max_write_ports=None)

    def addr():
        parts = []
        while sum(len(p) for p in parts) < aw:
            s = rng.choice(srcs)
            lo = rng.randrange(len(s))
            parts.append(s[lo:lo + rng.randint(1, 2)])
        return pyrtl.concat(*parts)[:aw]
    for _ in range(rng.randint(1, 2)):
        o = pyrtl.Output(m.bitwidth, 'smout%d' % len(d.outputs))
        o <<= m[addr()]
        d.outputs.append(o)
        d.ops.append('syncmemrd')
    data = rng.choice(srcs)
    m[addr()] <<= pyrtl.MemBlock.EnabledWrite(fit(rng, data, m.bitwidth), data[0])
    d.ops.append('memwr')
    d.mems.append(m)
    return m


def rebind(d, new_block):
    """the same design record for a block derived from d.block by copy_block (wires found again by name,
    memories by id): returns a new Design; regmap / memmap keyed by the old objects are translated with .remap"""
    n = Design(new_block)
    byname = new_block.wirevector_by_name
    n.inputs = [byname[w.name] for w in d.inputs]
    n.outputs = [byname[w.name] for w in d.outputs]
    n.regs = [byname[w.name] for w in d.regs]
    mems = {}
    for net in new_block.logic:
        if net.op in 'm@':
            mems[net.op_param[1].id] = net.op_param[1]
    n.mems = [mems[m.id] for m in d.mems if m.id in mems]
    n.roms = [mems[m.id] for m in d.roms if m.id in mems]
    n.ops = list(d.ops) + ['copy_block']
    n.dangling = [byname[w.name] for w in getattr(d, 'dangling', []) if w.name in byname]
    n.asserts = []
    n.remap_reg = {r: byname[r.name] for r in d.regs}
    n.remap_mem = {m: mems[m.id] for m in d.mems if m.id in mems}
    return n
