"""Shared harness for every property check.

  ./check <ID> [--tier quick|thorough] [--seed N] [--replay file]

Per run:
  1. regenerate coq/theories/Gen/*.v from /repo (translator tie), `make` the
     property's proof files, re-run coqc on Props/<ID>.v to collect
     `Print Assumptions` for every theorem -> obligations / discharged;
  2. run the property's correspondence + search module (py/checks/<ID>.py);
  3. classify: concrete failing input vs the specification -> VIOLATION (or
     KNOWN-FINDING when listed in known_findings.json); broken proof or broken
     correspondence with no failing input -> VIOLATION ... no-failing-input-found;
  4. write evidence/<ID>.json.
"""
import argparse
import fcntl
import hashlib
import importlib
import json
import os
import random
import re
import subprocess
import sys
import time
import traceback

ROOT = os.path.dirname(os.path.dirname(os.path.abspath(__file__)))
COQ = os.path.join(ROOT, 'coq')
REPO = os.environ.get('PYRTL_REPO', '/repo')
WORK = os.path.join(ROOT, 'work')

ALLOWED_AXIOMS = {
    # standard-library axioms a proof may depend on; each is named in DESIGN.md section 7
    'functional_extensionality_dep', 'FunctionalExtensionality.functional_extensionality_dep',
    'Classical_Prop.classic', 'classic', 'Eqdep.Eq_rect_eq.eq_rect_eq', 'eq_rect_eq',
    'JMeq_eq', 'JMeq.JMeq_eq', 'proof_irrelevance', 'ProofIrrelevance.proof_irrelevance',
    'propositional_extensionality', 'PropExtensionality.propositional_extensionality',
}

FORBIDDEN = re.compile(r'\b(Admitted|admit|Axiom|Parameter|Conjecture|Unset\s+Guard|bypass_check|'
                       r'Admit\s+Obligations|type-in-type|Hypothesis\s|Variable\s)')

TRUSTED_BASE = [
    'Coq 8.16.1 kernel (coqc, full .vo build; vm_compute used, native_compute not used)',
    'py/pyfrag.py + py/gen_coq.py: Python-fragment -> Gallina translator (Gen/*.v regenerated every run)',
    'py/nlx.py netlist dump, py/coqrun.py output parser, py/checks/* correspondence harness',
    'hand-written specifications: Netlist/Sem.v (documented op table + cycle semantics)',
]


def sh(cmd, timeout=1800, cwd=None, env=None):
    p = subprocess.run(cmd, shell=True, capture_output=True, text=True, timeout=timeout,
                       cwd=cwd, env=env)
    return p.returncode, p.stdout, p.stderr


class Lock(object):
    def __init__(self, path):
        self.path = path

    def __enter__(self):
        os.makedirs(os.path.dirname(self.path), exist_ok=True)
        self.f = open(self.path, 'w')
        fcntl.flock(self.f, fcntl.LOCK_EX)

    def __exit__(self, *a):
        fcntl.flock(self.f, fcntl.LOCK_UN)
        self.f.close()


def ensure_makefile():
    mk = os.path.join(COQ, 'Makefile')
    vfiles = []
    for dp, dn, fn in os.walk(os.path.join(COQ, 'theories')):
        for f in fn:
            if f.endswith('.v'):
                vfiles.append(os.path.relpath(os.path.join(dp, f), COQ))
    vfiles.sort()
    listing = os.path.join(COQ, '.vfiles')
    old = open(listing).read() if os.path.exists(listing) else None
    new = '\n'.join(vfiles)
    if old != new or not os.path.exists(mk):
        rc, out, err = sh('coq_makefile -f _CoqProject %s -o Makefile' % ' '.join(vfiles), cwd=COQ)
        if rc != 0:
            raise RuntimeError('coq_makefile failed: ' + err)
        with open(listing, 'w') as f:
            f.write(new)


def regenerate():
    """run the translator against /repo's working tree"""
    rc, out, err = sh('%s %s' % (sys.executable, os.path.join(ROOT, 'py', 'gen_coq.py')),
                      env=dict(os.environ, PYRTL_REPO=REPO))
    try:
        status = json.loads(out.strip().split('\n')[-1])
    except Exception:
        status = {'error': (out + err)[-500:]}
    return rc, status


def build(targets, jobs=16):
    """make the given .vo targets (relative to coq/). Returns (ok, log)."""
    with Lock(os.path.join(WORK, '.buildlock')):
        ensure_makefile()
        rc, out, err = sh('timeout 1700 make -j%d %s' % (jobs, ' '.join(targets)), cwd=COQ,
                          timeout=1800)
    return rc == 0, out + err


def theorems_in(vfile):
    txt = open(vfile).read()
    # strip comments (non-nested is enough for Props files)
    txt = re.sub(r'\(\*.*?\*\)', '', txt, flags=re.S)
    return re.findall(r'^\s*(?:Theorem|Lemma|Example|Corollary)\s+([A-Za-z0-9_\']+)', txt, flags=re.M)


def check_props_file(relpath):
    """coqc Props file; returns dict theorem -> {'ok':bool,'assumptions':[...]} and log"""
    path = os.path.join(COQ, relpath)
    names = theorems_in(path)
    res = {n: {'ok': False, 'assumptions': None} for n in names}
    with Lock(os.path.join(WORK, '.buildlock')):
        rc, out, err = sh('timeout 900 coqc -Q theories PyRTL %s' % relpath, cwd=COQ, timeout=1000)
    if rc != 0:
        # find the first failing theorem: everything before the error line compiled
        m = re.search(r'line (\d+)', err)
        bad_line = int(m.group(1)) if m else 0
        lines = open(path).read().split('\n')
        for n in names:
            for i, l in enumerate(lines):
                if re.match(r'\s*(Theorem|Lemma|Example|Corollary)\s+%s\b' % re.escape(n), l):
                    # ok if its Qed comes before the failing line
                    j = i
                    while j < len(lines) and not re.search(r'\b(Qed|Defined)\.', lines[j]):
                        j += 1
                    res[n]['ok'] = (j + 1) < bad_line
                    res[n]['assumptions'] = ['(not printed: file failed to compile)']
        return res, False, (out + err)[-3000:]
    # parse Print Assumptions blocks in order of appearance
    printed = re.findall(r'Print Assumptions\s+([A-Za-z0-9_\']+)\.', open(path).read())
    blocks = []
    cur = None
    for line in out.split('\n'):
        if line.startswith('Closed under the global context'):
            blocks.append([])
            cur = None
        elif line.startswith('Axioms:'):
            cur = []
            blocks.append(cur)
        elif cur is not None and line.strip():
            m = re.match(r'^([A-Za-z0-9_\.\']+)\s*:', line)
            if m:
                cur.append(m.group(1))
    for n, b in zip(printed, blocks):
        if n in res:
            res[n]['assumptions'] = b
    for n in names:
        a = res[n]['assumptions']
        if a is None:
            # Examples without Print Assumptions: compiled, counted as discharged
            res[n]['ok'] = True
            res[n]['assumptions'] = ['(not printed)']
        else:
            res[n]['ok'] = all(x in ALLOWED_AXIOMS or x.split('.')[-1] in ALLOWED_AXIOMS for x in a)
    return res, True, out[-3000:]


def dep_closure(props_files):
    """.v files the given Props files depend on (transitively), from coqdep."""
    rc, out, err = sh('coqdep -Q theories PyRTL $(find theories -name "*.v")', cwd=COQ)
    deps = {}
    for line in out.split('\n'):
        if ':' not in line:
            continue
        lhs, rhs = line.split(':', 1)
        tgt = [t for t in lhs.split() if t.endswith('.vo')]
        if not tgt:
            continue
        v = tgt[0][:-1]
        deps[v] = [d[:-1] for d in rhs.split() if d.endswith('.vo') and d.startswith('theories/')]
    seen = set()
    todo = list(props_files)
    while todo:
        v = todo.pop()
        if v in seen:
            continue
        seen.add(v)
        todo.extend(deps.get(v, []))
    return seen


def hygiene(props_files=None):
    bad = []
    scope = None
    if props_files:
        try:
            scope = dep_closure(props_files)
        except Exception:
            scope = None
    for dp, dn, fn in os.walk(os.path.join(COQ, 'theories')):
        for f in fn:
            if not f.endswith('.v'):
                continue
            p = os.path.join(dp, f)
            if scope is not None and os.path.relpath(p, COQ) not in scope:
                continue
            txt = re.sub(r'\(\*.*?\*\)', '', open(p).read(), flags=re.S)
            in_section = 0
            for i, line in enumerate(txt.split('\n')):
                if re.match(r'\s*Section\s', line):
                    in_section += 1
                if re.match(r'\s*End\s', line) and in_section:
                    in_section -= 1
                m = FORBIDDEN.search(line)
                if m:
                    word = m.group(1).strip()
                    if word in ('Hypothesis', 'Variable') and in_section:
                        continue
                    bad.append('%s:%d: %s' % (os.path.relpath(p, COQ), i + 1, line.strip()[:80]))
    return bad


class Ctx(object):
    def __init__(self, pid, tier, seed):
        self.pid = pid
        self.tier = tier
        self.seed = seed
        self.rng = random.Random((seed * 1000003) ^ int(hashlib.sha256(pid.encode()).hexdigest()[:8], 16))
        self.t0 = time.time()
        self.evaluations = 0
        self.hashes = set()
        self.samples = []
        self.dist = {}
        self.spec_fail = []      # concrete failing inputs vs the property
        self.model_fail = []     # impl != model (correspondence broken)
        self.known_hits = {}
        self.notes = []
        self.rule = ''
        self.obligations = {}
        self.build_ok = True
        self.build_log = ''
        self.gen_status = {}
        self.extra_cov = {}
        self.assumptions = []
        self.workdir = os.path.join(WORK, pid, 'run%d' % os.getpid())   # private per run: concurrent runs never clash
        os.makedirs(self.workdir, exist_ok=True)
        kf = os.path.join(ROOT, 'known_findings.json')
        self.known = json.load(open(kf)) if os.path.exists(kf) else {'findings': [], 'fixed': []}

    # -- bookkeeping
    def count(self, key, sub=None, n=1):
        d = self.dist.setdefault(key, {})
        k = str(sub)
        d[k] = d.get(k, 0) + n

    def case(self, key, nontrivial=True, sample=None):
        """record one evaluated case; key identifies it for distinctness"""
        self.evaluations += 1
        if nontrivial:
            h = hashlib.sha1(repr(key).encode()).hexdigest()[:16]
            self.hashes.add(h)
        if sample is not None and len(self.samples) < 6:
            self.samples.append(sample)

    def sub_rng(self, *key):
        return random.Random(repr((self.seed, self.pid) + key))

    def known_signature(self, signature):
        for f in self.known.get('findings', []):
            if f.get('property') == self.pid and f.get('signature') == signature:
                return f
        return None

    def spec_violation(self, signature, what, replay):
        """a concrete input on which the implementation contradicts the property"""
        f = self.known_signature(signature)
        if f is not None:
            self.known_hits.setdefault(signature, f.get('what', what))
            return
        # keep at most 3 reports per signature (and 60 overall) so one frequent failure cannot hide another
        n_sig = sum(1 for s0, _, _ in self.spec_fail if s0 == signature)
        if n_sig < 3 and len(self.spec_fail) < 60:
            self.spec_fail.append((signature, what, replay))

    def model_mismatch(self, what, replay):
        """implementation and Coq model disagree (tie broken), no spec failure established"""
        if len(self.model_fail) < 50:
            self.model_fail.append((what, replay))

    def coq_eval(self, exprs, imports, tag='cases', shard=60, jobs=8):
        import coqrun
        return coqrun.eval_exprs(exprs, imports, self.workdir, tag, shard=shard, jobs=jobs)

    def write_replay(self, name, data):
        d = os.path.join(ROOT, 'replays')
        os.makedirs(d, exist_ok=True)
        h = hashlib.sha1(json.dumps(data, sort_keys=True, default=str).encode()).hexdigest()[:10]
        path = os.path.join(d, '%s-%s-%s.json' % (self.pid, name, h))
        with open(path, 'w') as f:
            json.dump(data, f, indent=1, sort_keys=True, default=str)
        return path


def run_check(pid, tier, seed, replay=None):
    sys.path.insert(0, os.path.join(ROOT, 'py'))
    sys.path.insert(0, os.path.join(ROOT, 'py', 'checks'))
    ctx = Ctx(pid, tier, seed)
    mod = importlib.import_module(pid)
    props_files = getattr(mod, 'PROPS_FILES', ['theories/Props/%s.v' % pid])
    extra_targets = getattr(mod, 'COQ_TARGETS', [])

    # 1. translator + proofs
    gen_rc, gen_status = regenerate()
    targets = [p[:-2] + '.vo' for p in props_files] + list(extra_targets)
    # only the generated files this property's proofs/harness depend on concern this check
    try:
        scope = dep_closure(list(props_files) + [t[:-1] for t in extra_targets])
        mine = {k: v for k, v in gen_status.items()
                if ('theories/Gen/%s.v' % k) in scope or k == 'error'}
    except Exception:
        mine = gen_status
    ctx.gen_status = mine
    gen_bad = [k for k, v in mine.items() if str(v).startswith('UNTRANSLATABLE') or k == 'error']
    ok, log = build(targets)
    ctx.build_ok = ok and not gen_bad
    ctx.build_log = log[-4000:]
    obligations = {}
    for pf in props_files:
        res, fok, flog = check_props_file(pf)
        obligations.update(res)
        if not fok:
            ctx.build_ok = False
            ctx.build_log += '\n' + flog
    ctx.obligations = obligations
    bad = hygiene(props_files)
    if bad:
        ctx.build_ok = False
        ctx.build_log += '\nHYGIENE: ' + '; '.join(bad[:10])

    # 1a. the translator refused a fragment: the obligations above have failed closed and stay failed.  So that the
    # correspondence and the search can still look for a concrete failing input, the harness is rebuilt against the
    # LAST KNOWN model of that fragment (coq/baseline_gen/<Name>.v, a committed snapshot of what the translator
    # produced for the unchanged tree; tools/snapshot_gen.sh).  Nothing evaluated this way can discharge an obligation.
    if gen_bad:
        used = []
        for name in gen_bad:
            base = os.path.join(COQ, 'baseline_gen', name + '.v')
            if os.path.exists(base):
                with open(os.path.join(COQ, 'theories', 'Gen', name + '.v'), 'w') as f:
                    f.write('(* FALLBACK: last known model of this fragment; the translator refused the current source: %s *)\n'
                            % str(mine.get(name)).replace('*)', '* )') + open(base).read())
                used.append(name)
        if used:
            fb_ok, fb_log = build(['-k'] + targets)
            ctx.notes.append('translator refused %s; harness rebuilt against the last known model of these fragments '
                             '(build ok=%s) so that the search can run; obligations stay undischarged' % (used, fb_ok))
            ctx.extra_cov['fallback_model_fragments'] = used

    # 1b. thorough tier: independent re-check of the compiled proofs with coqchk
    if tier == 'thorough' and ctx.build_ok:
        mods = ' '.join('PyRTL.' + pf[len('theories/'):-2].replace('/', '.') for pf in props_files)
        with Lock(os.path.join(WORK, '.buildlock')):
            crc, cout, cerr = sh('timeout 2400 coqchk -silent -o -Q theories PyRTL %s' % mods, cwd=COQ,
                                 timeout=2500)
        summ = (cout + cerr)
        k = summ.find('CONTEXT SUMMARY')
        ctx.extra_cov['coqchk'] = {'exit': crc, 'summary': summ[k:k + 1500] if k >= 0 else summ[-1500:]}
        if crc != 0:
            ctx.build_ok = False
            ctx.build_log += '\ncoqchk failed: ' + summ[-1500:]

    # 2. correspondence + search
    run_error = None
    try:
        if replay:
            mod.replay(ctx, json.load(open(replay)))
        else:
            mod.run(ctx)
    except Exception:
        run_error = traceback.format_exc()
        ctx.notes.append('check module raised: ' + run_error[-1500:])

    # 3. classify
    rc = 0
    lines = []
    for sig, what in sorted(ctx.known_hits.items()):
        lines.append('KNOWN-FINDING: property=%s %s' % (pid, what))
    seen_sig = set()
    for sig, what, rep in ctx.spec_fail:
        if sig in seen_sig:
            continue
        seen_sig.add(sig)
        path = ctx.write_replay('fail', {'property': pid, 'signature': sig, 'what': what, 'replay': rep})
        lines.append('VIOLATION property=%s replay=%s' % (pid, path))
        rc = 1
    undischarged = [n for n, r in ctx.obligations.items() if not r['ok']]
    broken = []
    if not ctx.build_ok or undischarged:
        broken.append({'kind': 'proof', 'undischarged': undischarged, 'gen': ctx.gen_status,
                       'log': ctx.build_log[-2500:]})
    if ctx.model_fail:
        broken.append({'kind': 'correspondence',
                       'cases': [{'what': w, 'replay': r} for w, r in ctx.model_fail[:5]]})
    if run_error:
        broken.append({'kind': 'harness-error', 'log': run_error[-2500:]})
    if broken and rc == 0:
        path = ctx.write_replay('broken', {'property': pid, 'broken': broken,
                                           'note': 'no concrete failing input was found by the search; '
                                                   'the property is no longer shown to hold'})
        lines.append('VIOLATION property=%s replay=%s no-failing-input-found' % (pid, path))
        rc = 1
    elif broken:
        ctx.notes.append('also broken: ' + json.dumps(broken)[:1500])

    # 4. evidence
    nobl = len(ctx.obligations)
    ndis = sum(1 for r in ctx.obligations.values() if r['ok'])
    axioms = sorted({a for r in ctx.obligations.values() for a in (r['assumptions'] or [])
                     if not a.startswith('(')})
    ev = {
        'property_id': pid, 'tier': tier, 'seed': seed, 'level': 'proof',
        'coverage': dict({
            'obligations': max(nobl, 0), 'discharged': ndis,
            'checker_cmd': 'cd /verif/coq && make ' + ' '.join(targets) +
                           ' && coqc -Q theories PyRTL ' + ' '.join(props_files),
            'trusted_base': TRUSTED_BASE + getattr(mod, 'TRUSTED', []) +
                            ['axioms reported by Print Assumptions: ' + (', '.join(axioms) or 'none (closed under the global context)')],
            'theorems': {n: r for n, r in sorted(ctx.obligations.items())},
            'translator_status': ctx.gen_status,
            'evaluations': ctx.evaluations,
            'distinct_nontrivial': len(ctx.hashes),
            'rule': ctx.rule or getattr(mod, 'RULE', ''),
            'samples': ctx.samples or [{'note': 'no samples recorded'}],
            'distribution': ctx.dist,
            'known_findings_hit': sorted(ctx.known_hits),
            'notes': ctx.notes,
        }, **ctx.extra_cov),
        'assumptions': getattr(mod, 'ASSUMPTIONS', []) + ctx.assumptions,
        'wall_s': round(time.time() - ctx.t0, 2),
        'violations': sum(1 for l in lines if l.startswith('VIOLATION')),
    }
    os.makedirs(os.path.join(ROOT, 'evidence'), exist_ok=True)
    with open(os.path.join(ROOT, 'evidence', pid + '.json'), 'w') as f:
        json.dump(ev, f, indent=1, sort_keys=True, default=str)
    try:
        import shutil
        shutil.rmtree(ctx.workdir, ignore_errors=True)
    except Exception:
        pass
    for l in lines:
        print(l)
    print('%s tier=%s seed=%d obligations=%d/%d evaluations=%d distinct=%d wall=%.1fs rc=%d' % (
        pid, tier, seed, ndis, nobl, ctx.evaluations, len(ctx.hashes), time.time() - ctx.t0, rc))
    return rc


def main():
    ap = argparse.ArgumentParser()
    ap.add_argument('pid')
    ap.add_argument('--tier', default=os.environ.get('VERIF_TIER', 'quick'))
    ap.add_argument('--seed', type=int, default=int(os.environ.get('VERIF_SEED', '1')))
    ap.add_argument('--replay', default=None)
    a = ap.parse_args()
    sys.exit(run_check(a.pid, a.tier, a.seed, a.replay))


if __name__ == '__main__':
    main()
