"""C18 translator plug-in: regenerate coq/theories/Gen/AesTables.v from the CURRENT text of
/repo/pyrtl/rtllib/aes.py (AST only, nothing is imported or executed).

Extracted (fail closed -- any unexpected shape raises Untranslatable):
  * the nine class-level literal tables `_x_data = libutils.str_to_int_array('''hex hex ...''')`
    (semantics of str_to_int_array replicated: whitespace split, int(tok, 16));
  * `_build_memories`: which data table backs self.sbox / self.inv_sbox / self.rcon / self.GMk, and
    the `_galois_mults` dict {multiplier: self.GMk}, resolved to (multiplier, table) pairs;
  * the index tuples of `_shift_rows` / `_inv_shift_rows` (concat_list((a[i], ...)));
  * the multiplier lists of `_mix_columns` (`[..] if inverse else [..]`);
  * the byte rotation tuple of `_g` (`for index in (3, 0, 1, 2)`);
  * the round counts: `range(10)` of `_key_gen`, `range(1, 11)` and `round != 10` of
    encryption/decryption.
"""
import ast
import os
import re
import sys

import gen_coq
import pyfrag
from pyfrag import Untranslatable

TABLES = ['_sbox_data', '_inv_sbox_data', '_rcon_data', '_GM2_data', '_GM3_data', '_GM9_data',
          '_GM11_data', '_GM13_data', '_GM14_data']
HEXTOK = re.compile(r'^[0-9a-fA-F]{1,2}$')


def _class(tree, name):
    for node in tree.body:
        if isinstance(node, ast.ClassDef) and node.name == name:
            return node
    raise Untranslatable('class %s not found' % name)


def _method(cls, name):
    found = [n for n in cls.body if isinstance(n, ast.FunctionDef) and n.name == name]
    if len(found) != 1:
        raise Untranslatable('method %s: expected exactly one definition' % name)
    return found[0]


def literal_table(cls, attr):
    found = [st for st in cls.body if isinstance(st, ast.Assign) and len(st.targets) == 1
             and isinstance(st.targets[0], ast.Name) and st.targets[0].id == attr]
    if len(found) != 1:
        raise Untranslatable('class attribute %s: expected exactly one assignment' % attr)
    v = found[0].value
    ok = (isinstance(v, ast.Call) and not v.keywords and len(v.args) == 1
          and isinstance(v.func, ast.Attribute) and v.func.attr == 'str_to_int_array'
          and isinstance(v.func.value, ast.Name) and v.func.value.id == 'libutils'
          and isinstance(v.args[0], ast.Constant) and isinstance(v.args[0].value, str))
    if not ok:
        raise Untranslatable('%s is not libutils.str_to_int_array(<string literal>)' % attr)
    toks = v.args[0].value.split()
    for t in toks:
        if not HEXTOK.match(t):
            raise Untranslatable('%s: token %r is not a 1-2 digit hex byte' % (attr, t))
    return [int(t, 16) for t in toks]


def _self_attr(node):
    if isinstance(node, ast.Attribute) and isinstance(node.value, ast.Name) and node.value.id == 'self':
        return node.attr
    return None


def memories(cls):
    """self.<mem> = build_mem(self.<data>) assignments and the _galois_mults dict"""
    fn = _method(cls, '_build_memories')
    backing = {}
    gm = None
    for st in fn.body:
        if isinstance(st, ast.Assign) and len(st.targets) == 1:
            tgt = _self_attr(st.targets[0])
            v = st.value
            if tgt and isinstance(v, ast.Call) and isinstance(v.func, ast.Name) and v.func.id == 'build_mem':
                if len(v.args) != 1 or v.keywords or _self_attr(v.args[0]) is None:
                    raise Untranslatable('unexpected build_mem call for %s' % tgt)
                if tgt in backing:
                    raise Untranslatable('memory %s built twice' % tgt)
                backing[tgt] = _self_attr(v.args[0])
            elif tgt == '_galois_mults':
                if not isinstance(v, ast.Dict):
                    raise Untranslatable('_galois_mults is not a dict literal')
                gm = []
                for k, val in zip(v.keys, v.values):
                    if not (isinstance(k, ast.Constant) and isinstance(k.value, int)) or _self_attr(val) is None:
                        raise Untranslatable('_galois_mults entry is not <int>: self.<mem>')
                    gm.append((k.value, _self_attr(val)))
    if gm is None:
        raise Untranslatable('_galois_mults not found')
    if len({k for k, _ in gm}) != len(gm):
        raise Untranslatable('_galois_mults has duplicate keys')
    # build_mem itself must be a RomBlock(bitwidth=8, addrwidth=8, romdata=data, ...)
    bm = [n for n in fn.body if isinstance(n, ast.FunctionDef) and n.name == 'build_mem']
    if len(bm) != 1 or not isinstance(bm[0].body[-1], ast.Return):
        raise Untranslatable('build_mem not found')
    call = bm[0].body[-1].value
    kw = {k.arg: k.value for k in getattr(call, 'keywords', [])}
    if not (isinstance(call, ast.Call) and isinstance(call.func, ast.Attribute) and call.func.attr == 'RomBlock'
            and isinstance(kw.get('bitwidth'), ast.Constant) and kw['bitwidth'].value == 8
            and isinstance(kw.get('addrwidth'), ast.Constant) and kw['addrwidth'].value == 8
            and isinstance(kw.get('romdata'), ast.Name) and kw['romdata'].id == bm[0].args.args[0].arg):
        raise Untranslatable('build_mem is not RomBlock(bitwidth=8, addrwidth=8, romdata=<arg>, ...)')
    return backing, gm


def index_tuple(cls, name):
    """return pyrtl.concat_list((a[i0], a[i1], ...)) -> [i0, i1, ...]"""
    fn = _method(cls, name)
    ret = fn.body[-1]
    if not (isinstance(ret, ast.Return) and isinstance(ret.value, ast.Call) and len(ret.value.args) == 1
            and isinstance(ret.value.func, ast.Attribute) and ret.value.func.attr == 'concat_list'
            and isinstance(ret.value.args[0], ast.Tuple)):
        raise Untranslatable('%s does not end in return pyrtl.concat_list((...))' % name)
    first = fn.body[0]
    ok = (isinstance(first, ast.Assign) and isinstance(first.targets[0], ast.Name) and first.targets[0].id == 'a'
          and isinstance(first.value, ast.Call) and isinstance(first.value.func, ast.Attribute)
          and first.value.func.attr == 'partition_wire' and len(first.value.args) == 2
          and isinstance(first.value.args[1], ast.Constant) and first.value.args[1].value == 8
          and len(fn.body) == 2)
    if not ok:
        raise Untranslatable('%s: expected `a = libutils.partition_wire(in_vector, 8)` then return' % name)
    out = []
    for e in ret.value.args[0].elts:
        if not (isinstance(e, ast.Subscript) and isinstance(e.value, ast.Name) and e.value.id == 'a'):
            raise Untranslatable('%s: tuple element is not a[<int>]' % name)
        s = e.slice
        if isinstance(s, ast.Index):  # py<3.9
            s = s.value
        if not (isinstance(s, ast.Constant) and isinstance(s.value, int)):
            raise Untranslatable('%s: tuple element is not a[<int>]' % name)
        out.append(s.value)
    return out


def _int_list(node, what):
    if not isinstance(node, (ast.List, ast.Tuple)):
        raise Untranslatable('%s is not a list/tuple literal' % what)
    out = []
    for e in node.elts:
        if not (isinstance(e, ast.Constant) and isinstance(e.value, int)):
            raise Untranslatable('%s has a non-integer element' % what)
        out.append(e.value)
    return out


def mix_mults(cls):
    fn = _method(cls, '_mix_columns')
    v = pyfrag.find_assign_in(fn, 'igm_mults')
    if not (isinstance(v, ast.IfExp) and isinstance(v.test, ast.Name) and v.test.id == 'inverse'):
        raise Untranslatable('igm_mults is not `<list> if inverse else <list>`')
    return _int_list(v.orelse, 'mix multipliers'), _int_list(v.body, 'inverse mix multipliers')


def g_rotation(cls):
    fn = _method(cls, '_g')
    v = pyfrag.find_assign_in(fn, 'sub')
    if not (isinstance(v, ast.ListComp) and len(v.generators) == 1):
        raise Untranslatable('_g: sub is not a single list comprehension')
    return _int_list(v.generators[0].iter, '_g byte rotation')


def _range_args(node, what):
    if not (isinstance(node, ast.Call) and isinstance(node.func, ast.Name) and node.func.id == 'range'
            and not node.keywords):
        raise Untranslatable('%s is not a range(...) call' % what)
    return _int_list(ast.Tuple(elts=node.args), what)


def round_counts(cls):
    out = {}
    kg = _method(cls, '_key_gen')
    loops = [n for n in ast.walk(kg) if isinstance(n, ast.For)]
    if len(loops) != 1:
        raise Untranslatable('_key_gen: expected one for loop')
    r = _range_args(loops[0].iter, '_key_gen loop')
    if len(r) != 1:
        raise Untranslatable('_key_gen loop is not range(n)')
    out['key_gen_rounds'] = r[0]
    for name in ('encryption', 'decryption'):
        fn = _method(cls, name)
        loops = [n for n in ast.walk(fn) if isinstance(n, ast.For)]
        if len(loops) != 1:
            raise Untranslatable('%s: expected one for loop' % name)
        r = _range_args(loops[0].iter, name + ' loop')
        if len(r) != 2:
            raise Untranslatable('%s loop is not range(a, b)' % name)
        tests = [n.test for n in ast.walk(loops[0]) if isinstance(n, ast.If)]
        if len(tests) != 1:
            raise Untranslatable('%s: expected one `if round != k`' % name)
        t = tests[0]
        if not (isinstance(t, ast.Compare) and isinstance(t.left, ast.Name) and t.left.id == 'round'
                and len(t.ops) == 1 and isinstance(t.ops[0], ast.NotEq)
                and isinstance(t.comparators[0], ast.Constant) and isinstance(t.comparators[0].value, int)):
            raise Untranslatable('%s: the conditional is not `round != <int>`' % name)
        out[name + '_first_round'] = r[0]
        out[name + '_stop_round'] = r[1]
        out[name + '_nomix_round'] = t.comparators[0].value
    return out


def zlist(vals):
    lines = []
    for k in range(0, len(vals), 16):
        lines.append('   ' + '; '.join(str(v) for v in vals[k:k + 16]))
    return '[\n' + ';\n'.join(lines) + ' ]'


def extract(repo):
    tree = pyfrag.parse_file(os.path.join(repo, 'pyrtl', 'rtllib', 'aes.py'))
    cls = _class(tree, 'AES')
    data = {t: literal_table(cls, t) for t in TABLES}
    backing, gm = memories(cls)
    for mem in ('sbox', 'inv_sbox', 'rcon'):
        if backing.get(mem) not in data:
            raise Untranslatable('self.%s is not built from a known literal table' % mem)
    gmres = []
    for k, mem in gm:
        if backing.get(mem) not in data:
            raise Untranslatable('_galois_mults[%d] is not built from a known literal table' % k)
        gmres.append((k, backing[mem]))
    mm, imm = mix_mults(cls)
    return dict(data=data, backing=backing, gm=gmres, shift=index_tuple(cls, '_shift_rows'),
                inv_shift=index_tuple(cls, '_inv_shift_rows'), mix=mm, inv_mix=imm,
                g_rot=g_rotation(cls), rounds=round_counts(cls))


def _register(name):
    """register in gen_coq.GENERATORS and, when gen_coq.py runs as a script (module `__main__`, a
    different module object from the imported `gen_coq`), in that script's table as well"""
    def deco(f):
        gen_coq.GENERATORS[name] = f
        main = sys.modules.get('__main__')
        if main is not None and getattr(main, '__file__', '').endswith('gen_coq.py') \
                and hasattr(main, 'GENERATORS'):
            main.GENERATORS[name] = f
        return f
    return deco


@_register('AesTables')
def gen_aes_tables(repo):
    x = extract(repo)
    out = ['(* GENERATED by py/genfrag_C18.py from pyrtl/rtllib/aes.py (class AES literal tables, '
           'index tuples, multiplier lists) -- do not edit. *)',
           'From Coq Require Import ZArith List.', 'Import ListNotations.', 'Open Scope Z_scope.', '']
    for t in TABLES:
        out.append('(* AES.%s *)' % t)
        out.append('Definition tbl%s : list Z := %s.\n' % (t, zlist(x['data'][t])))
    out.append('(* _build_memories: self.sbox / self.inv_sbox / self.rcon *)')
    for mem in ('sbox', 'inv_sbox', 'rcon'):
        out.append('Definition mem_%s : list Z := tbl%s.' % (mem, x['backing'][mem]))
    out.append('\n(* self._galois_mults, each memory resolved to the table it was built from *)')
    out.append('Definition galois_mults : list (Z * list Z) := [%s].' % '; '.join(
        '(%d, tbl%s)' % (k, t) for k, t in x['gm']))
    out.append('\n(* _shift_rows / _inv_shift_rows: concat_list((a[i], ...)) index tuples *)')
    out.append('Definition shift_rows_idx : list nat := [%s]%%nat.' % '; '.join(map(str, x['shift'])))
    out.append('Definition inv_shift_rows_idx : list nat := [%s]%%nat.' % '; '.join(map(str, x['inv_shift'])))
    out.append('\n(* _mix_columns: igm_mults *)')
    out.append('Definition mix_mults : list Z := [%s].' % '; '.join(map(str, x['mix'])))
    out.append('Definition inv_mix_mults : list Z := [%s].' % '; '.join(map(str, x['inv_mix'])))
    out.append('\n(* _g: `for index in (...)` *)')
    out.append('Definition g_rot_idx : list nat := [%s]%%nat.' % '; '.join(map(str, x['g_rot'])))
    out.append('\n(* loop bounds of _key_gen / encryption / decryption *)')
    for k, v in sorted(x['rounds'].items()):
        out.append('Definition %s : nat := %d%%nat.' % (k, v))
    return '\n'.join(out) + '\n'
