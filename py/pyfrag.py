"""Fail-closed translator from a small pure subset of Python to Gallina text.

Used to regenerate coq/theories/Gen/*.v from /repo's current sources on every
run, so that the theorems proved over those files are re-checked against what
the code says *now*.  Anything outside the subset raises Untranslatable, which
the caller reports as a broken tie (never silently skipped).

Types: every Python expression is typed 'Z' (int) or 'bool'.  Coercions follow
Python: a bool used as an int is b2z; an int used as a condition is (x != 0).
"""
import ast
import inspect
import textwrap


class Untranslatable(Exception):
    pass


def _fail(node, why):
    raise Untranslatable('%s at line %s: %s' % (why, getattr(node, 'lineno', '?'),
                                                 ast.dump(node)[:200]))


BINOPS = {
    ast.BitAnd: 'Z.land', ast.BitOr: 'Z.lor', ast.BitXor: 'Z.lxor',
    ast.Add: 'Z.add', ast.Sub: 'Z.sub', ast.Mult: 'Z.mul',
    ast.LShift: 'Z.shiftl', ast.RShift: 'Z.shiftr',
    ast.FloorDiv: 'Z.div', ast.Mod: 'Z.modulo',
}
CMPOPS = {
    ast.Lt: 'Z.ltb', ast.Gt: 'Z.gtb', ast.LtE: 'Z.leb', ast.GtE: 'Z.geb',
    ast.Eq: 'Z.eqb',
}


class ExprTr(object):
    """Translate expressions.  `env` maps Python names to (coq_text, type).
    `attr_hook(node)` may translate Attribute/Subscript/Call nodes the caller
    knows about (returning (text, type)) or return None."""

    def __init__(self, env=None, hook=None):
        self.env = dict(env or {})
        self.hook = hook

    # -- coercions
    def as_Z(self, t):
        txt, ty = t
        return txt if ty == 'Z' else '(b2z %s)' % txt

    def as_bool(self, t):
        txt, ty = t
        return txt if ty == 'bool' else '(negb (Z.eqb %s 0))' % txt

    def tr(self, n):
        if self.hook is not None:
            r = self.hook(self, n)
            if r is not None:
                return r
        m = getattr(self, 'tr_' + type(n).__name__, None)
        if m is None:
            _fail(n, 'unsupported expression')
        return m(n)

    def tr_Name(self, n):
        if n.id in self.env:
            return self.env[n.id]
        _fail(n, 'unknown name %r' % n.id)

    def tr_Constant(self, n):
        if n.value is True:
            return ('true', 'bool')
        if n.value is False:
            return ('false', 'bool')
        if isinstance(n.value, int):
            return ('(%d)%%Z' % n.value, 'Z')
        _fail(n, 'unsupported constant')

    def tr_BinOp(self, n):
        if isinstance(n.op, ast.Pow):
            base = self.tr(n.left)
            if base[0] != '(2)%Z':
                _fail(n, 'only 2**e is supported')
            return ('(Z.pow 2 %s)' % self.as_Z(self.tr(n.right)), 'Z')
        f = BINOPS.get(type(n.op))
        if f is None:
            _fail(n, 'unsupported binary operator')
        return ('(%s %s %s)' % (f, self.as_Z(self.tr(n.left)), self.as_Z(self.tr(n.right))), 'Z')

    def tr_UnaryOp(self, n):
        if isinstance(n.op, ast.Invert):
            return ('(Z.lnot %s)' % self.as_Z(self.tr(n.operand)), 'Z')
        if isinstance(n.op, ast.USub):
            return ('(Z.opp %s)' % self.as_Z(self.tr(n.operand)), 'Z')
        if isinstance(n.op, ast.Not):
            return ('(negb %s)' % self.as_bool(self.tr(n.operand)), 'bool')
        _fail(n, 'unsupported unary operator')

    def tr_Compare(self, n):
        parts = []
        left = n.left
        for op, right in zip(n.ops, n.comparators):
            lt, rt = self.tr(left), self.tr(right)
            if isinstance(op, ast.NotEq):
                parts.append('(negb (Z.eqb %s %s))' % (self.as_Z(lt), self.as_Z(rt)))
            elif isinstance(op, ast.Is) and isinstance(right, ast.Constant) and right.value is None:
                if lt[1] != 'optZ':
                    _fail(n, '`is None` on a non-optional')
                parts.append('(match %s with None => true | Some _ => false end)' % lt[0])
            elif isinstance(op, ast.IsNot) and isinstance(right, ast.Constant) and right.value is None:
                if lt[1] != 'optZ':
                    _fail(n, '`is not None` on a non-optional')
                parts.append('(match %s with None => false | Some _ => true end)' % lt[0])
            else:
                f = CMPOPS.get(type(op))
                if f is None:
                    _fail(n, 'unsupported comparison')
                parts.append('(%s %s %s)' % (f, self.as_Z(lt), self.as_Z(rt)))
            left = right
        txt = parts[0]
        for p in parts[1:]:
            txt = '(andb %s %s)' % (txt, p)
        return (txt, 'bool')

    def tr_BoolOp(self, n):
        f = 'andb' if isinstance(n.op, ast.And) else 'orb'
        vals = [self.as_bool(self.tr(v)) for v in n.values]
        txt = vals[0]
        for v in vals[1:]:
            txt = '(%s %s %s)' % (f, txt, v)
        return (txt, 'bool')

    def tr_IfExp(self, n):
        c = self.as_bool(self.tr(n.test))
        a, b = self.tr(n.body), self.tr(n.orelse)
        if a[1] == b[1]:
            return ('(if %s then %s else %s)' % (c, a[0], b[0]), a[1])
        return ('(if %s then %s else %s)' % (c, self.as_Z(a), self.as_Z(b)), 'Z')

    def tr_Call(self, n):
        if n.keywords:
            _fail(n, 'keyword arguments unsupported')
        f = n.func
        if isinstance(f, ast.Name):
            if f.id == 'int' and len(n.args) == 1:
                return (self.as_Z(self.tr(n.args[0])), 'Z')
            if f.id == 'bool' and len(n.args) == 1:
                return (self.as_bool(self.tr(n.args[0])), 'bool')
            if f.id == 'abs' and len(n.args) == 1:
                return ('(Z.abs %s)' % self.as_Z(self.tr(n.args[0])), 'Z')
            if f.id in ('min', 'max') and len(n.args) == 2:
                return ('(Z.%s %s %s)' % (f.id, self.as_Z(self.tr(n.args[0])),
                                          self.as_Z(self.tr(n.args[1]))), 'Z')
            if f.id == 'len' and len(n.args) == 1:
                a = n.args[0]
                # len(bin(x))
                if (isinstance(a, ast.Call) and isinstance(a.func, ast.Name)
                        and a.func.id == 'bin' and len(a.args) == 1):
                    # callers subtract 2 themselves; len(bin(x)) = len_bin x + 2 for x >= 0
                    return ('(Z.add (len_bin_signed %s) 2)' % self.as_Z(self.tr(a.args[0])), 'Z')
        if isinstance(f, ast.Attribute) and f.attr == 'bit_length' and not n.args:
            return ('(bit_length %s)' % self.as_Z(self.tr(f.value)), 'Z')
        _fail(n, 'unsupported call')


def coq_ident(name):
    return 'v_' + name


def translate_lambda(lam, hook=None):
    """lam: ast.Lambda -> (list of coq arg names, body text as Z)."""
    if lam.args.vararg or lam.args.kwarg or lam.args.defaults or lam.args.kwonlyargs:
        _fail(lam, 'only plain positional lambda arguments')
    names = [a.arg for a in lam.args.args]
    env = {nm: (coq_ident(nm), 'Z') for nm in names}
    tr = ExprTr(env, hook)
    body = tr.as_Z(tr.tr(lam.body))
    return [coq_ident(nm) for nm in names], body


def find_class_attr(tree, classname, attr):
    for node in ast.walk(tree):
        if isinstance(node, ast.ClassDef) and node.name == classname:
            for st in node.body:
                if isinstance(st, ast.Assign) and len(st.targets) == 1 \
                        and isinstance(st.targets[0], ast.Name) and st.targets[0].id == attr:
                    return st.value
    raise Untranslatable('class attribute %s.%s not found' % (classname, attr))


def find_def(tree, qualname):
    """qualname like 'Class.method' or 'func' or 'func.inner'."""
    parts = qualname.split('.')
    scope = tree
    for p in parts:
        found = None
        for node in ast.walk(scope):
            if isinstance(node, (ast.FunctionDef, ast.ClassDef)) and node.name == p and node is not scope:
                found = node
                break
        if found is None:
            raise Untranslatable('definition %s not found' % qualname)
        scope = found
    return scope


def find_assign_in(fn, name):
    for node in ast.walk(fn):
        if isinstance(node, ast.Assign) and len(node.targets) == 1 \
                and isinstance(node.targets[0], ast.Name) and node.targets[0].id == name:
            return node.value
    raise Untranslatable('assignment to %s not found' % name)


OPCHAR = {
    'w': 'OpW', '~': 'OpNot', '&': 'OpAnd', '|': 'OpOr', '^': 'OpXor', 'n': 'OpNand',
    '+': 'OpAdd', '-': 'OpSub', '*': 'OpMul', '<': 'OpLt', '>': 'OpGt', '=': 'OpEq',
    'x': 'OpMux', 'c': 'OpConcat', 's': 'OpSelect _', 'r': 'OpReg',
    'm': 'OpMemRd _', '@': 'OpMemWr _',
}


def lambda_table(dictnode, hook=None):
    """dict literal {'<op>': lambda ...} -> list of (opchar, argnames, body)."""
    if not isinstance(dictnode, ast.Dict):
        _fail(dictnode, 'expected a dict literal')
    rows = []
    for k, v in zip(dictnode.keys, dictnode.values):
        if not (isinstance(k, ast.Constant) and isinstance(k.value, str)):
            _fail(k, 'table key must be a string literal')
        if not isinstance(v, ast.Lambda):
            _fail(v, 'table value must be a lambda')
        args, body = translate_lambda(v, hook)
        rows.append((k.value, args, body))
    return rows


def op_table_to_coq(name, rows, header):
    out = [header, 'Definition %s (o : op) (a : list Z) : option Z :=' % name, '  match o, a with']
    seen = set()
    for ch, args, body in rows:
        if ch not in OPCHAR:
            raise Untranslatable('unknown op char %r' % ch)
        if ch in seen:
            raise Untranslatable('duplicate op char %r' % ch)
        seen.add(ch)
        out.append('  | %s, [%s] => Some %s' % (OPCHAR[ch], '; '.join(args), body))
    out.append('  | _, _ => None')
    out.append('  end.')
    return '\n'.join(out) + '\n'


def parse_file(path):
    with open(path) as f:
        return ast.parse(f.read(), filename=path)


# ---------------------------------------------------------------------------
# Statement-level translation (appended for C16; generic).
#
# Straight-line function bodies made of `if/elif/else`, assignment to a plain
# name (also `+=` style), `return` and `raise` become one Gallina expression of
# type `res T` (constructors `Ok : T -> res T`, `Err : Z -> res T`; the type is
# supplied by the generated file's header).  `raise` number k in source order
# (1-based, counted over the whole function) becomes `Err k`.  The continuation
# of an `if` is duplicated into both branches, so typing is per path; an
# optional parameter (type 'optZ') is refined to 'Z' by `if x is None` /
# `if x is not None` tests, which become a `match`.  Anything else aborts.

class ExprTrOpt(ExprTr):
    """ExprTr + optional ints ('optZ'), `isinstance(<int or bool>, <non-int class>)`
    = false, comparison of an optional with an int, calls to already translated
    functions (`calls`: python name -> (coq name, [arg types], result type))."""

    NONINT_CLASSES = ('WireVector',)

    def __init__(self, env=None, hook=None, calls=None):
        ExprTr.__init__(self, env, hook)
        self.calls = dict(calls or {})

    def as_Z(self, t):
        if t[1] == 'optZ':
            raise Untranslatable('optional value used as an integer: %s' % t[0])
        if t[1] not in ('Z', 'bool'):
            raise Untranslatable('value of type %s used as an integer: %s' % (t[1], t[0]))
        return ExprTr.as_Z(self, t)

    def as_bool(self, t):
        if t[1] == 'optZ':
            return ('(match %s with None => false | Some z__ => negb (Z.eqb z__ 0) end)' % t[0])
        if t[1] not in ('Z', 'bool'):
            raise Untranslatable('value of type %s used as a condition: %s' % (t[1], t[0]))
        return ExprTr.as_bool(self, t)

    def tr_Compare(self, n):
        if len(n.ops) == 1 and isinstance(n.ops[0], (ast.Eq, ast.NotEq)):
            lt, rt = self.tr(n.left), self.tr(n.comparators[0])
            if (lt[1] == 'optZ') != (rt[1] == 'optZ'):
                o, z = (lt, rt) if lt[1] == 'optZ' else (rt, lt)
                eq = '(match %s with None => false | Some z__ => Z.eqb z__ %s end)' % (o[0], self.as_Z(z))
                return (eq if isinstance(n.ops[0], ast.Eq) else '(negb %s)' % eq, 'bool')
        if len(n.ops) == 1 and isinstance(n.ops[0], (ast.Is, ast.IsNot)):
            r = n.comparators[0]
            if isinstance(r, ast.Constant) and r.value is None:
                lt = self.tr(n.left)
                if lt[1] in ('Z', 'bool'):   # already refined on this path
                    return ('false' if isinstance(n.ops[0], ast.Is) else 'true', 'bool')
                if lt[1] == 'optZ':
                    a, b = ('true', 'false') if isinstance(n.ops[0], ast.Is) else ('false', 'true')
                    return ('(match %s with None => %s | Some _ => %s end)' % (lt[0], a, b), 'bool')
                _fail(n, '`is None` on a value of type %s' % lt[1])
        return ExprTr.tr_Compare(self, n)

    def tr_Call(self, n):
        f = n.func
        if isinstance(f, ast.Name) and f.id == 'isinstance' and len(n.args) == 2 and not n.keywords:
            cls = n.args[1]
            if isinstance(cls, ast.Name) and cls.id in self.NONINT_CLASSES:
                t = self.tr(n.args[0])
                if t[1] in ('Z', 'bool', 'optZ'):
                    return ('false', 'bool')
            # isinstance(<int>, numbers.Integral) is true (bool is Integral as well)
            if isinstance(cls, ast.Attribute) and isinstance(cls.value, ast.Name) \
                    and cls.value.id == 'numbers' and cls.attr == 'Integral':
                t = self.tr(n.args[0])
                if t[1] in ('Z', 'bool'):
                    return ('true', 'bool')
        if isinstance(f, ast.Name) and f.id in self.calls and not n.keywords:
            cname, argtys, rty = self.calls[f.id]
            if len(argtys) != len(n.args):
                _fail(n, 'arity mismatch calling %s' % f.id)
            args = []
            for a, ty in zip(n.args, argtys):
                t = self.tr(a)
                if ty == 'Z':
                    args.append(self.as_Z(t))
                elif ty == 'bool':
                    args.append(self.as_bool(t))
                elif ty == 'optZ':
                    args.append(t[0] if t[1] == 'optZ' else '(Some %s)' % self.as_Z(t))
                else:
                    _fail(n, 'unsupported argument type')
            return ('(%s %s)' % (cname, ' '.join(args)), rty)
        return ExprTr.tr_Call(self, n)


def raise_ordinals(fn):
    """Raise nodes of a function in source order -> 1-based ordinal."""
    rs = sorted((x for x in ast.walk(fn) if isinstance(x, ast.Raise)),
                key=lambda x: (x.lineno, x.col_offset))
    return {id(x): i + 1 for i, x in enumerate(rs)}


class StmtTr(object):
    """Translate a straight-line statement list to a Gallina term of type `res T`.

    params: list of (python name, type) with type in 'Z' | 'bool' | 'optZ'.
    tuple_ctors: names of constructors whose call `C(a, b)` is the tuple (a, b).
    """

    def __init__(self, fn, tuple_ctors=(), calls=None, hook=None):
        self.fn = fn
        self.ordinal = raise_ordinals(fn)
        self.tuple_ctors = set(tuple_ctors)
        self.calls = calls
        self.hook = hook

    def expr(self, env):
        return ExprTrOpt(env, self.hook, self.calls)

    def ret_value(self, node, env):
        e = self.expr(env)
        if isinstance(node, ast.Call) and isinstance(node.func, ast.Name) \
                and node.func.id in self.tuple_ctors and not node.keywords:
            return '(%s)' % ', '.join(e.as_Z(e.tr(a)) for a in node.args)
        if isinstance(node, ast.Tuple):
            return '(%s)' % ', '.join(e.as_Z(e.tr(a)) for a in node.elts)
        if node is None:
            _fail(self.fn, 'bare return')
        t = e.tr(node)
        if t[1] == 'res':      # tail call of a translated function returning res
            return None, t[0]
        return e.as_Z(t)

    def stmts(self, body, env, ind='  '):
        if not body:
            _fail(self.fn, 'control reaches the end of the fragment without return/raise')
        s, rest = body[0], list(body[1:])
        if isinstance(s, ast.Expr) and isinstance(s.value, ast.Constant) and isinstance(s.value.value, str):
            return self.stmts(rest, env, ind)          # docstring
        if isinstance(s, ast.Return):
            r = self.ret_value(s.value, env)
            if isinstance(r, tuple):
                return r[1]
            return '(Ok %s)' % r
        if isinstance(s, ast.Raise):
            return '(Err %d)' % self.ordinal[id(s)]
        if isinstance(s, (ast.Assign, ast.AugAssign)):
            if isinstance(s, ast.Assign):
                if len(s.targets) != 1 or not isinstance(s.targets[0], ast.Name):
                    _fail(s, 'only assignment to one plain name')
                name, value = s.targets[0].id, s.value
            else:
                if not isinstance(s.target, ast.Name):
                    _fail(s, 'only augmented assignment to a plain name')
                name = s.target.id
                value = ast.BinOp(left=ast.Name(id=name, ctx=ast.Load()), op=s.op, right=s.value)
                ast.copy_location(value, s)
            e = self.expr(env)
            if isinstance(value, ast.Constant) and value.value is None:
                t = ('(@None Z)', 'optZ')
            else:
                t = e.tr(value)
            if t[1] not in ('Z', 'bool', 'optZ'):
                _fail(s, 'assignment of a value of type %s' % t[1])
            env2 = dict(env)
            env2[name] = (coq_ident(name), t[1])
            return '(let %s := %s in\n%s%s)' % (coq_ident(name), t[0], ind, self.stmts(rest, env2, ind))
        if isinstance(s, ast.If):
            ref = self.refinement(s.test, env)
            if ref is not None:
                name, none_first = ref
                none_body, some_body = (s.body, s.orelse) if none_first else (s.orelse, s.body)
                env_some = dict(env)
                env_some[name] = (coq_ident(name) + "'", 'Z')
                env_none = dict(env)
                env_none[name] = ('(@None Z)', 'optZ')
                return ('(match %s with\n%s| None => %s\n%s| Some %s => %s\n%send)' % (
                    env[name][0], ind, self.stmts(list(none_body) + rest, env_none, ind + '  '),
                    ind, coq_ident(name) + "'", self.stmts(list(some_body) + rest, env_some, ind + '  '), ind))
            e = self.expr(env)
            c = e.as_bool(e.tr(s.test))
            return '(if %s\n%sthen %s\n%selse %s)' % (
                c, ind, self.stmts(list(s.body) + rest, env, ind + '  '),
                ind, self.stmts(list(s.orelse) + rest, env, ind + '  '))
        _fail(s, 'unsupported statement')

    @staticmethod
    def refinement(test, env):
        """`x is None` / `x is not None` on an optional name -> (name, none_branch_is_body)."""
        if isinstance(test, ast.Compare) and len(test.ops) == 1 and isinstance(test.left, ast.Name) \
                and isinstance(test.comparators[0], ast.Constant) and test.comparators[0].value is None \
                and isinstance(test.ops[0], (ast.Is, ast.IsNot)):
            nm = test.left.id
            if nm in env and env[nm][1] == 'optZ' and env[nm][0] != '(@None Z)':
                return nm, isinstance(test.ops[0], ast.Is)
        return None


COQ_TYPES = {'Z': 'Z', 'bool': 'bool', 'optZ': 'option Z'}


def check_params(fn, params, skip_self=False):
    a = fn.args
    if a.vararg or a.kwarg or a.kwonlyargs:
        _fail(fn, 'only plain positional parameters')
    names = [x.arg for x in a.args]
    if skip_self and names and names[0] == 'self':
        names = names[1:]
    if names != [p for p, _ in params]:
        raise Untranslatable('parameters of %s are %r, expected %r' % (fn.name, names, [p for p, _ in params]))
    # defaults must be None (optional) or a bool/int literal
    for d in a.defaults:
        if not isinstance(d, ast.Constant) or not (d.value is None or isinstance(d.value, (bool, int))):
            _fail(d, 'unsupported default value')


def function_to_coq(fn, coq_name, params, result_type, tuple_ctors=(), calls=None, body=None,
                    extra_env=None, skip_self=False):
    """Whole function (or, with `body`, a given statement sub-list with the free
    variables typed by `params`) -> `Definition coq_name (params) : res result_type := ...`."""
    if body is None:
        check_params(fn, params, skip_self)
        body = fn.body
    env = {p: (coq_ident(p), ty) for p, ty in params}
    env.update(extra_env or {})
    tr = StmtTr(fn, tuple_ctors, calls)
    term = tr.stmts(list(body), env)
    binders = ' '.join('(%s : %s)' % (coq_ident(p), COQ_TYPES[ty]) for p, ty in params)
    return 'Definition %s %s : res (%s) :=\n  %s.\n' % (coq_name, binders, result_type, term)


def guard_list_to_coq(fn, coq_name, params, start_after=None):
    """Top-level `if <cond>: raise ...` statements of fn (no else), in order ->
    `Definition coq_name (params) : option Z` = ordinal of the first guard that fires."""
    ordn = raise_ordinals(fn)
    env = {p: (coq_ident(p), ty) for p, ty in params}
    guards = []
    for s in fn.body:
        if isinstance(s, ast.If) and len(s.body) == 1 and isinstance(s.body[0], ast.Raise) and not s.orelse:
            e = ExprTrOpt(env)
            guards.append((e.as_bool(e.tr(s.test)), ordn[id(s.body[0])]))
    if not guards:
        raise Untranslatable('no `if ...: raise` guards found in %s' % fn.name)
    term = 'None'
    for c, k in reversed(guards):
        term = '(if %s then Some (%d)%%Z else\n   %s)' % (c, k, term)
    binders = ' '.join('(%s : %s)' % (coq_ident(p), COQ_TYPES[ty]) for p, ty in params)
    return 'Definition %s %s : option Z :=\n  %s.\n' % (coq_name, binders, term), len(guards)


# ---------------------------------------------------------------------------
# Net-shape hook (appended for C02; generic, changes no existing behaviour).
#
# Tables such as FastSimulation._no_mask_bitwidth are lambdas over a LogicNet
# that only look at its *shape*: `len(net.args[i])`, `net.args[i].bitwidth`,
# `len(net.dests[0])`, `len(net.args)`, `len(net.op_param)` and
# `sum(len(a) for a in net.args)`.  `net_shape_hook` turns those attribute paths
# into Gallina parameters: the list of argument widths, the destination width
# and the length of op_param.  Anything else rooted at the net falls through to
# ExprTr, which fails closed.

def _const_index(sub):
    idx = sub.slice
    if isinstance(idx, ast.Constant) and isinstance(idx.value, int) and not isinstance(idx.value, bool) \
            and idx.value >= 0:
        return idx.value
    return None


def net_shape_hook(net='net', argw='v_argw', destw='v_destw', nparam='v_nparam'):
    def is_net_attr(n, attr):
        return (isinstance(n, ast.Attribute) and n.attr == attr
                and isinstance(n.value, ast.Name) and n.value.id == net)

    def wire_width(n):
        """net.args[i] / net.dests[0] -> Gallina text of its bitwidth, else None"""
        if isinstance(n, ast.Subscript):
            i = _const_index(n)
            if i is None:
                return None
            if is_net_attr(n.value, 'args'):
                return '(nth %d %s 0)' % (i, argw)
            if is_net_attr(n.value, 'dests') and i == 0:
                return destw
        return None

    def hook(tr, n):
        if isinstance(n, ast.Call) and isinstance(n.func, ast.Name) and not n.keywords and len(n.args) == 1:
            a = n.args[0]
            if n.func.id == 'len':
                w = wire_width(a)
                if w is not None:
                    return (w, 'Z')
                if is_net_attr(a, 'args'):
                    return ('(Z.of_nat (length %s))' % argw, 'Z')
                if is_net_attr(a, 'op_param'):
                    return (nparam, 'Z')
            if n.func.id == 'sum' and isinstance(a, ast.GeneratorExp) and len(a.generators) == 1:
                g = a.generators[0]
                if (isinstance(g.target, ast.Name) and not g.ifs and not g.is_async
                        and is_net_attr(g.iter, 'args')):
                    v = g.target.id
                    e = a.elt
                    is_len = (isinstance(e, ast.Call) and isinstance(e.func, ast.Name) and e.func.id == 'len'
                              and len(e.args) == 1 and not e.keywords
                              and isinstance(e.args[0], ast.Name) and e.args[0].id == v)
                    is_bw = (isinstance(e, ast.Attribute) and e.attr == 'bitwidth'
                             and isinstance(e.value, ast.Name) and e.value.id == v)
                    if is_len or is_bw:
                        return ('(fold_right Z.add 0 %s)' % argw, 'Z')
        if isinstance(n, ast.Attribute) and n.attr == 'bitwidth':
            w = wire_width(n.value)
            if w is not None:
                return (w, 'Z')
        return None
    return hook


def shape_table_to_coq(name, rows, header, params='(v_argw : list Z) (v_nparam : Z)'):
    """rows from lambda_table over a one-parameter (`net`) lambda table ->
    `Definition name (o : op) params : option Z` (None for ops not in the table)."""
    out = [header, 'Definition %s (o : op) %s : option Z :=' % (name, params), '  match o with']
    seen = set()
    for ch, args, body in rows:
        if ch not in OPCHAR:
            raise Untranslatable('unknown op char %r' % ch)
        if ch in seen:
            raise Untranslatable('duplicate op char %r' % ch)
        if len(args) != 1:
            raise Untranslatable('table entry %r must take exactly the net' % ch)
        seen.add(ch)
        out.append('  | %s => Some %s' % (OPCHAR[ch], body))
    if seen != set(OPCHAR):
        out.append('  | _ => None')
    out.append('  end.')
    return '\n'.join(out) + '\n'


# ---------------------------------------------------------------------------
# Shape matching and loop-body translation (appended for C01; generic, changes
# no existing behaviour).
#
# `same_ast` / `require_same` compare a statement or expression with the AST of
# a given source text (comments, whitespace and redundant parentheses are not
# part of the AST; everything else is).  `assign_chain` turns the body of a
# simple accumulator loop -- a list of assignments to plain local names -- into
# one Gallina expression for the final value of the accumulator.
# `reversed_slice` recognises the iteration direction `X` / `X[::-1]`.

def strip_docstring(body):
    body = list(body)
    if body and isinstance(body[0], ast.Expr) and isinstance(body[0].value, ast.Constant) \
            and isinstance(body[0].value.value, str):
        body = body[1:]
    return body


def ast_of(src, mode='stmt'):
    """AST of one statement (mode 'stmt') or one expression (mode 'expr') given as text."""
    if mode == 'expr':
        return ast.parse(textwrap.dedent(src).strip(), mode='eval').body
    body = ast.parse(textwrap.dedent(src)).body
    if len(body) != 1:
        raise ValueError('ast_of: expected exactly one statement')
    return body[0]


def dump_noctx(node):
    """ast.dump without the Load/Store/Del context (it is determined by the position in the parent)"""
    import re
    return re.sub(r'(, )?ctx=(Load|Store|Del)\(\)', '', ast.dump(node))


def same_ast(node, src, mode='stmt'):
    return node is not None and dump_noctx(node) == dump_noctx(ast_of(src, mode))


def require_same(node, src, what, mode='stmt'):
    """Fail closed unless `node` is exactly the statement/expression `src`."""
    if not same_ast(node, src, mode):
        got = '<missing>' if node is None else ast.unparse(node)
        raise Untranslatable('%s: expected `%s`, found `%s` (line %s)' % (
            what, ' '.join(textwrap.dedent(src).split()), ' '.join(got.split())[:160],
            getattr(node, 'lineno', '?')))


def reversed_slice(node):
    """`X[::-1]` -> (X, True); any other expression -> (node, False)."""
    if isinstance(node, ast.Subscript) and isinstance(node.slice, ast.Slice):
        s = node.slice
        if s.lower is None and s.upper is None and isinstance(s.step, ast.UnaryOp) \
                and isinstance(s.step.op, ast.USub) and isinstance(s.step.operand, ast.Constant) \
                and s.step.operand.value == 1 and not isinstance(s.step.operand.value, bool):
            return node.value, True
        _fail(node, 'only the whole-sequence reversal [::-1] is supported')
    return node, False


def assign_chain(stmts, env, hook, result):
    """stmts: `name = expr` / `name op= expr` on plain local names, integer typed.
    -> Gallina text (type Z) of the value `result` holds after the last statement.
    `env` types the names that are live on entry (it must contain `result`)."""
    if not stmts:
        raise Untranslatable('empty statement list where assignments to %r were expected' % result)
    if result not in env:
        raise Untranslatable('%r is not bound before the statements' % result)
    entry = set(env)
    env = dict(env)
    lets = []
    for s in stmts:
        if isinstance(s, ast.Assign):
            if len(s.targets) != 1 or not isinstance(s.targets[0], ast.Name):
                _fail(s, 'only assignment to one plain name')
            name, value = s.targets[0].id, s.value
        elif isinstance(s, ast.AugAssign):
            if not isinstance(s.target, ast.Name):
                _fail(s, 'only augmented assignment to a plain name')
            name = s.target.id
            value = ast.BinOp(left=ast.Name(id=name, ctx=ast.Load()), op=s.op, right=s.value)
            ast.copy_location(value, s)
            ast.fix_missing_locations(value)
        else:
            _fail(s, 'unsupported statement in an accumulator loop body')
        if name != result and name in entry:
            _fail(s, 'loop-carried state other than %r (%r is live on entry and reassigned)' % (result, name))
        tr = ExprTr(env, hook)
        txt = tr.as_Z(tr.tr(value))
        lets.append((coq_ident(name), txt))
        env[name] = (coq_ident(name), 'Z')
    out = env[result][0]
    for nm, txt in reversed(lets):
        out = '(let %s := %s in %s)' % (nm, txt, out)
    return out


# ---------------------------------------------------------------------------
# Strings and calls that can raise (appended for C16's formatted-string functions; generic).
#
# Types: 'str' (list of character codes), 'char' (one code), 'strlist'.  Sub-expressions that can
# raise a Python built-in exception -- s[k], l[k], int(s[, base]), a shift by a negative count, a
# call of a translated function returning `res` -- are hoisted, in evaluation order, into
# `match <res expr> with Err k => Err k | Ok t__n => ... end` around the statement (the support
# functions str_index / nth_r / py_int_r / shift_count_r live in the importing Coq file).  Hoisting
# out of a short-circuited operand or a conditional-expression branch would change the evaluation
# order, so it is refused there.

class ExprTrStr(ExprTrOpt):
    EXTRA_TYPES = ('str', 'char', 'strlist')

    def __init__(self, env=None, hook=None, calls=None, counter=None):
        ExprTrOpt.__init__(self, env, hook, calls)
        self.binds = []
        self.counter = counter if counter is not None else [0]

    def bind(self, rexpr, ty):
        self.counter[0] += 1
        nm = 't__%d' % self.counter[0]
        self.binds.append((nm, rexpr))
        return (nm, ty)

    def _no_new_binds(self, node, f):
        n0 = len(self.binds)
        r = f()
        if len(self.binds) != n0:
            _fail(node, 'a call that can raise inside a short-circuited / conditional sub-expression')
        return r

    def tr_BoolOp(self, n):
        first = self.tr(n.values[0])          # the first operand is always evaluated
        f = 'andb' if isinstance(n.op, ast.And) else 'orb'
        txt = self.as_bool(first)
        for v in n.values[1:]:
            t = self._no_new_binds(v, lambda v=v: self.tr(v))
            txt = '(%s %s %s)' % (f, txt, self.as_bool(t))
        return (txt, 'bool')

    def tr_IfExp(self, n):
        c = self.as_bool(self.tr(n.test))
        a = self._no_new_binds(n.body, lambda: self.tr(n.body))
        b = self._no_new_binds(n.orelse, lambda: self.tr(n.orelse))
        if a[1] == b[1]:
            return ('(if %s then %s else %s)' % (c, a[0], b[0]), a[1])
        return ('(if %s then %s else %s)' % (c, self.as_Z(a), self.as_Z(b)), 'Z')

    def tr_Constant(self, n):
        if isinstance(n.value, str):
            if len(n.value) == 1:
                return ('(%d)%%Z' % ord(n.value), 'char')
            return ('[%s]' % '; '.join('(%d)%%Z' % ord(c) for c in n.value), 'str')
        return ExprTrOpt.tr_Constant(self, n)

    @staticmethod
    def _as_str(t):
        if t[1] == 'str':
            return t[0]
        if t[1] == 'char':
            return '[%s]' % t[0]
        raise Untranslatable('value of type %s used as a string: %s' % (t[1], t[0]))

    def tr_Compare(self, n):
        r0 = n.comparators[0]
        if len(n.ops) != 1 or (isinstance(n.ops[0], (ast.Is, ast.IsNot))):
            n0 = len(self.binds)
            r = ExprTrOpt.tr_Compare(self, n)
            if len(self.binds) != n0 and len(n.ops) != 1:
                _fail(n, 'chained comparison over calls that can raise')
            return r
        op = n.ops[0]
        lt, rt = self.tr(n.left), self.tr(r0)          # each operand translated (and hoisted) exactly once
        if isinstance(op, (ast.Eq, ast.NotEq)):
            if lt[1] in ('str', 'char') or rt[1] in ('str', 'char'):
                if lt[1] == 'char' and rt[1] == 'char':
                    eq = '(Z.eqb %s %s)' % (lt[0], rt[0])
                else:
                    eq = '(str_eqb %s %s)' % (self._as_str(lt), self._as_str(rt))
            elif (lt[1] == 'optZ') != (rt[1] == 'optZ'):
                o, z = (lt, rt) if lt[1] == 'optZ' else (rt, lt)
                eq = '(match %s with None => false | Some z__ => Z.eqb z__ %s end)' % (o[0], self.as_Z(z))
            else:
                eq = '(Z.eqb %s %s)' % (self.as_Z(lt), self.as_Z(rt))
            return (eq if isinstance(op, ast.Eq) else '(negb %s)' % eq, 'bool')
        f = CMPOPS.get(type(op))
        if f is None:
            _fail(n, 'unsupported comparison')
        return ('(%s %s %s)' % (f, self.as_Z(lt), self.as_Z(rt)), 'bool')

    def tr_BinOp(self, n):
        if isinstance(n.op, (ast.LShift, ast.RShift)):
            l = self.as_Z(self.tr(n.left))
            r = self.as_Z(self.tr(n.right))
            self.bind('(shift_count_r %s)' % r, 'Z')       # ValueError: negative shift count
            return ('(%s %s %s)' % (BINOPS[type(n.op)], l, r), 'Z')
        return ExprTrOpt.tr_BinOp(self, n)

    def tr_Subscript(self, n):
        sl = n.slice
        if isinstance(sl, ast.Index):       # python < 3.9
            sl = sl.value
        # hex(z)[2:] / bin(z)[2:]
        if isinstance(n.value, ast.Call) and isinstance(n.value.func, ast.Name) and n.value.func.id in ('hex', 'bin') \
                and len(n.value.args) == 1 and not n.value.keywords and isinstance(sl, ast.Slice) \
                and isinstance(sl.lower, ast.Constant) and sl.lower.value == 2 and sl.upper is None and sl.step is None:
            z = self.as_Z(self.tr(n.value.args[0]))
            return ('(%s %s)' % ('py_hex2' if n.value.func.id == 'hex' else 'py_bin2', z), 'str')
        v = self.tr(n.value)
        if isinstance(sl, ast.Constant) and isinstance(sl.value, int) and not isinstance(sl.value, bool) and sl.value >= 0:
            if v[1] == 'str':
                return self.bind('(str_index %s %d)' % (v[0], sl.value), 'char')      # IndexError
            if v[1] == 'strlist':
                return self.bind('(nth_r %s %d)' % (v[0], sl.value), 'str')           # IndexError
        if isinstance(sl, ast.Slice) and v[1] == 'str' and isinstance(sl.lower, ast.Constant) \
                and isinstance(sl.lower.value, int) and sl.lower.value >= 0 and sl.upper is None and sl.step is None:
            return ('(skipn %d %s)' % (sl.lower.value, v[0]), 'str')
        _fail(n, 'unsupported subscript')

    def tr_Call(self, n):
        f = n.func
        if isinstance(f, ast.Name) and not n.keywords:
            if f.id == 'int' and len(n.args) in (1, 2):
                a = self.tr(n.args[0])
                if a[1] in ('str', 'char'):
                    base = 10
                    if len(n.args) == 2:
                        b = n.args[1]
                        if not (isinstance(b, ast.Constant) and isinstance(b.value, int) and 2 <= b.value <= 36):
                            _fail(n, 'int(s, base) needs a literal base')
                        base = b.value
                    return self.bind('(py_int_r %d %s)' % (base, self._as_str(a)), 'Z')   # ValueError
                if len(n.args) == 1:
                    return (self.as_Z(a), 'Z')
            if f.id == 'str' and len(n.args) == 1:
                a = self.tr(n.args[0])
                if a[1] in ('Z', 'bool'):
                    return ('(py_str %s)' % self.as_Z(a), 'str')
                if a[1] == 'str':
                    return a
            if f.id == 'len' and len(n.args) == 1:
                a = self.tr(n.args[0])
                if a[1] in ('str', 'strlist') or a[1].endswith('list'):
                    return ('(Z.of_nat (length %s))' % a[0], 'Z')
                _fail(n, 'len of a value of type %s' % a[1])
            if f.id in self.calls and self.calls[f.id][2].startswith('res:'):
                cname, argtys, rty = self.calls[f.id]
                if len(argtys) != len(n.args):
                    _fail(n, 'arity mismatch calling %s' % f.id)
                args = [self.as_Z(self.tr(a)) if ty == 'Z' else self.as_bool(self.tr(a))
                        for a, ty in zip(n.args, argtys)]
                return self.bind('(%s %s)' % (cname, ' '.join(args)), rty[4:])
        if isinstance(f, ast.Attribute) and f.attr == 'split' and len(n.args) == 1 and not n.keywords \
                and isinstance(n.args[0], ast.Constant) and isinstance(n.args[0].value, str) and len(n.args[0].value) == 1:
            v = self.tr(f.value)
            if v[1] == 'str':
                return ('(split_on %d %s [])' % (ord(n.args[0].value), v[0]), 'strlist')
        return ExprTrOpt.tr_Call(self, n)


class StmtTrStr(StmtTr):
    """StmtTr over ExprTrStr: values of the string types may be assigned and returned; the hoisted
    raising sub-expressions of a statement are matched, in evaluation order, in front of it."""

    def __init__(self, fn, tuple_ctors=(), calls=None, hook=None, assignable=()):
        StmtTr.__init__(self, fn, tuple_ctors, calls, hook)
        self.counter = [0]
        self.assignable = ('Z', 'bool', 'optZ') + ExprTrStr.EXTRA_TYPES + tuple(assignable)

    def expr(self, env):
        return ExprTrStr(env, self.hook, self.calls, self.counter)

    @staticmethod
    def wrap(e, text, ind):
        for nm, rexpr in reversed(e.binds):
            text = '(match %s with\n%s| Err k__ => Err k__\n%s| Ok %s => %s\n%send)' % (rexpr, ind, ind, nm, text, ind)
        return text

    def stmts(self, body, env, ind='  '):
        if not body:
            _fail(self.fn, 'control reaches the end of the fragment without return/raise')
        s, rest = body[0], list(body[1:])
        if isinstance(s, ast.Expr) and isinstance(s.value, ast.Constant) and isinstance(s.value.value, str):
            return self.stmts(rest, env, ind)
        if isinstance(s, ast.Return):
            if s.value is None:
                _fail(s, 'bare return')
            e = self.expr(env)
            t = e.tr(s.value)
            if t[1] not in self.assignable or t[1] == 'optZ':
                _fail(s, 'return of a value of type %s' % t[1])
            return self.wrap(e, '(Ok %s)' % (e.as_Z(t) if t[1] == 'bool' else t[0]), ind)
        if isinstance(s, ast.Raise):
            return '(Err %d)' % self.ordinal[id(s)]
        if isinstance(s, ast.Assign):
            if len(s.targets) != 1 or not isinstance(s.targets[0], ast.Name):
                _fail(s, 'only assignment to one plain name')
            name = s.targets[0].id
            e = self.expr(env)
            t = e.tr(s.value)
            if t[1] not in self.assignable:
                _fail(s, 'assignment of a value of type %s' % t[1])
            env2 = dict(env)
            env2[name] = (coq_ident(name), t[1])
            return self.wrap(e, '(let %s := %s in\n%s%s)' % (coq_ident(name), t[0], ind,
                                                              self.stmts(rest, env2, ind)), ind)
        if isinstance(s, ast.If):
            if self.refinement(s.test, env) is not None:
                _fail(s, 'optional refinement is not supported together with strings')
            e = self.expr(env)
            c = e.as_bool(e.tr(s.test))
            return self.wrap(e, '(if %s\n%sthen %s\n%selse %s)' % (
                c, ind, self.stmts(list(s.body) + rest, env, ind + '  '),
                ind, self.stmts(list(s.orelse) + rest, env, ind + '  ')), ind)
        _fail(s, 'unsupported statement')


COQ_TYPES.update({'str': 'list Z', 'char': 'Z', 'strlist': 'list (list Z)'})
