"""Fail-closed translator from a small pure subset of Python to Gallina text.

Used to regenerate coq/theories/Gen/*.v from /repo's current sources on every
run, so that the theorems proved over those files are re-checked against what
the code says *now*.  Anything outside the subset raises Untranslatable, which
the caller reports as a broken tie (never silently skipped).

Types: every Python expression is typed 'Z' (int) or 'bool'.  Coercions follow
Python: a bool used as an int is b2z; an int used as a condition is (x != 0).
"""
import ast
import inspect
import textwrap


class Untranslatable(Exception):
    pass


def _fail(node, why):
    raise Untranslatable('%s at line %s: %s' % (why, getattr(node, 'lineno', '?'),
                                                 ast.dump(node)[:200]))


BINOPS = {
    ast.BitAnd: 'Z.land', ast.BitOr: 'Z.lor', ast.BitXor: 'Z.lxor',
    ast.Add: 'Z.add', ast.Sub: 'Z.sub', ast.Mult: 'Z.mul',
    ast.LShift: 'Z.shiftl', ast.RShift: 'Z.shiftr',
    ast.FloorDiv: 'Z.div', ast.Mod: 'Z.modulo',
}
CMPOPS = {
    ast.Lt: 'Z.ltb', ast.Gt: 'Z.gtb', ast.LtE: 'Z.leb', ast.GtE: 'Z.geb',
    ast.Eq: 'Z.eqb',
}


class ExprTr(object):
    """Translate expressions.  `env` maps Python names to (coq_text, type).
    `attr_hook(node)` may translate Attribute/Subscript/Call nodes the caller
    knows about (returning (text, type)) or return None."""

    def __init__(self, env=None, hook=None):
        self.env = dict(env or {})
        self.hook = hook

    # -- coercions
    def as_Z(self, t):
        txt, ty = t
        return txt if ty == 'Z' else '(b2z %s)' % txt

    def as_bool(self, t):
        txt, ty = t
        return txt if ty == 'bool' else '(negb (Z.eqb %s 0))' % txt

    def tr(self, n):
        if self.hook is not None:
            r = self.hook(self, n)
            if r is not None:
                return r
        m = getattr(self, 'tr_' + type(n).__name__, None)
        if m is None:
            _fail(n, 'unsupported expression')
        return m(n)

    def tr_Name(self, n):
        if n.id in self.env:
            return self.env[n.id]
        _fail(n, 'unknown name %r' % n.id)

    def tr_Constant(self, n):
        if n.value is True:
            return ('true', 'bool')
        if n.value is False:
            return ('false', 'bool')
        if isinstance(n.value, int):
            return ('(%d)%%Z' % n.value, 'Z')
        _fail(n, 'unsupported constant')

    def tr_BinOp(self, n):
        if isinstance(n.op, ast.Pow):
            base = self.tr(n.left)
            if base[0] != '(2)%Z':
                _fail(n, 'only 2**e is supported')
            return ('(Z.pow 2 %s)' % self.as_Z(self.tr(n.right)), 'Z')
        f = BINOPS.get(type(n.op))
        if f is None:
            _fail(n, 'unsupported binary operator')
        return ('(%s %s %s)' % (f, self.as_Z(self.tr(n.left)), self.as_Z(self.tr(n.right))), 'Z')

    def tr_UnaryOp(self, n):
        if isinstance(n.op, ast.Invert):
            return ('(Z.lnot %s)' % self.as_Z(self.tr(n.operand)), 'Z')
        if isinstance(n.op, ast.USub):
            return ('(Z.opp %s)' % self.as_Z(self.tr(n.operand)), 'Z')
        if isinstance(n.op, ast.Not):
            return ('(negb %s)' % self.as_bool(self.tr(n.operand)), 'bool')
        _fail(n, 'unsupported unary operator')

    def tr_Compare(self, n):
        parts = []
        left = n.left
        for op, right in zip(n.ops, n.comparators):
            lt, rt = self.tr(left), self.tr(right)
            if isinstance(op, ast.NotEq):
                parts.append('(negb (Z.eqb %s %s))' % (self.as_Z(lt), self.as_Z(rt)))
            elif isinstance(op, ast.Is) and isinstance(right, ast.Constant) and right.value is None:
                if lt[1] != 'optZ':
                    _fail(n, '`is None` on a non-optional')
                parts.append('(match %s with None => true | Some _ => false end)' % lt[0])
            elif isinstance(op, ast.IsNot) and isinstance(right, ast.Constant) and right.value is None:
                if lt[1] != 'optZ':
                    _fail(n, '`is not None` on a non-optional')
                parts.append('(match %s with None => false | Some _ => true end)' % lt[0])
            else:
                f = CMPOPS.get(type(op))
                if f is None:
                    _fail(n, 'unsupported comparison')
                parts.append('(%s %s %s)' % (f, self.as_Z(lt), self.as_Z(rt)))
            left = right
        txt = parts[0]
        for p in parts[1:]:
            txt = '(andb %s %s)' % (txt, p)
        return (txt, 'bool')

    def tr_BoolOp(self, n):
        f = 'andb' if isinstance(n.op, ast.And) else 'orb'
        vals = [self.as_bool(self.tr(v)) for v in n.values]
        txt = vals[0]
        for v in vals[1:]:
            txt = '(%s %s %s)' % (f, txt, v)
        return (txt, 'bool')

    def tr_IfExp(self, n):
        c = self.as_bool(self.tr(n.test))
        a, b = self.tr(n.body), self.tr(n.orelse)
        if a[1] == b[1]:
            return ('(if %s then %s else %s)' % (c, a[0], b[0]), a[1])
        return ('(if %s then %s else %s)' % (c, self.as_Z(a), self.as_Z(b)), 'Z')

    def tr_Call(self, n):
        if n.keywords:
            _fail(n, 'keyword arguments unsupported')
        f = n.func
        if isinstance(f, ast.Name):
            if f.id == 'int' and len(n.args) == 1:
                return (self.as_Z(self.tr(n.args[0])), 'Z')
            if f.id == 'bool' and len(n.args) == 1:
                return (self.as_bool(self.tr(n.args[0])), 'bool')
            if f.id == 'abs' and len(n.args) == 1:
                return ('(Z.abs %s)' % self.as_Z(self.tr(n.args[0])), 'Z')
            if f.id in ('min', 'max') and len(n.args) == 2:
                return ('(Z.%s %s %s)' % (f.id, self.as_Z(self.tr(n.args[0])),
                                          self.as_Z(self.tr(n.args[1]))), 'Z')
            if f.id == 'len' and len(n.args) == 1:
                a = n.args[0]
                # len(bin(x))
                if (isinstance(a, ast.Call) and isinstance(a.func, ast.Name)
                        and a.func.id == 'bin' and len(a.args) == 1):
                    # callers subtract 2 themselves; len(bin(x)) = len_bin x + 2 for x >= 0
                    return ('(Z.add (len_bin_signed %s) 2)' % self.as_Z(self.tr(a.args[0])), 'Z')
        if isinstance(f, ast.Attribute) and f.attr == 'bit_length' and not n.args:
            return ('(bit_length %s)' % self.as_Z(self.tr(f.value)), 'Z')
        _fail(n, 'unsupported call')


def coq_ident(name):
    return 'v_' + name


def translate_lambda(lam, hook=None):
    """lam: ast.Lambda -> (list of coq arg names, body text as Z)."""
    if lam.args.vararg or lam.args.kwarg or lam.args.defaults or lam.args.kwonlyargs:
        _fail(lam, 'only plain positional lambda arguments')
    names = [a.arg for a in lam.args.args]
    env = {nm: (coq_ident(nm), 'Z') for nm in names}
    tr = ExprTr(env, hook)
    body = tr.as_Z(tr.tr(lam.body))
    return [coq_ident(nm) for nm in names], body


def find_class_attr(tree, classname, attr):
    for node in ast.walk(tree):
        if isinstance(node, ast.ClassDef) and node.name == classname:
            for st in node.body:
                if isinstance(st, ast.Assign) and len(st.targets) == 1 \
                        and isinstance(st.targets[0], ast.Name) and st.targets[0].id == attr:
                    return st.value
    raise Untranslatable('class attribute %s.%s not found' % (classname, attr))


def find_def(tree, qualname):
    """qualname like 'Class.method' or 'func' or 'func.inner'."""
    parts = qualname.split('.')
    scope = tree
    for p in parts:
        found = None
        for node in ast.walk(scope):
            if isinstance(node, (ast.FunctionDef, ast.ClassDef)) and node.name == p and node is not scope:
                found = node
                break
        if found is None:
            raise Untranslatable('definition %s not found' % qualname)
        scope = found
    return scope


def find_assign_in(fn, name):
    for node in ast.walk(fn):
        if isinstance(node, ast.Assign) and len(node.targets) == 1 \
                and isinstance(node.targets[0], ast.Name) and node.targets[0].id == name:
            return node.value
    raise Untranslatable('assignment to %s not found' % name)


OPCHAR = {
    'w': 'OpW', '~': 'OpNot', '&': 'OpAnd', '|': 'OpOr', '^': 'OpXor', 'n': 'OpNand',
    '+': 'OpAdd', '-': 'OpSub', '*': 'OpMul', '<': 'OpLt', '>': 'OpGt', '=': 'OpEq',
    'x': 'OpMux', 'c': 'OpConcat', 's': 'OpSelect _', 'r': 'OpReg',
    'm': 'OpMemRd _', '@': 'OpMemWr _',
}


def lambda_table(dictnode, hook=None):
    """dict literal {'<op>': lambda ...} -> list of (opchar, argnames, body)."""
    if not isinstance(dictnode, ast.Dict):
        _fail(dictnode, 'expected a dict literal')
    rows = []
    for k, v in zip(dictnode.keys, dictnode.values):
        if not (isinstance(k, ast.Constant) and isinstance(k.value, str)):
            _fail(k, 'table key must be a string literal')
        if not isinstance(v, ast.Lambda):
            _fail(v, 'table value must be a lambda')
        args, body = translate_lambda(v, hook)
        rows.append((k.value, args, body))
    return rows


def op_table_to_coq(name, rows, header):
    out = [header, 'Definition %s (o : op) (a : list Z) : option Z :=' % name, '  match o, a with']
    seen = set()
    for ch, args, body in rows:
        if ch not in OPCHAR:
            raise Untranslatable('unknown op char %r' % ch)
        if ch in seen:
            raise Untranslatable('duplicate op char %r' % ch)
        seen.add(ch)
        out.append('  | %s, [%s] => Some %s' % (OPCHAR[ch], '; '.join(args), body))
    out.append('  | _, _ => None')
    out.append('  end.')
    return '\n'.join(out) + '\n'


def parse_file(path):
    with open(path) as f:
        return ast.parse(f.read(), filename=path)
