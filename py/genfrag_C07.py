"""C07 translator plug-in: regenerates coq/theories/Gen/CondRules.v from the CURRENT source of
pyrtl/conditional.py.

Translated (become Gallina definitions; Front/CondRules.v proves they are what Front/Cond.v models):
  _pred_sets_are_in_conflict   the loop condition and the two returned constants
  _push_condition              the predicate-width guard
  _current_select              WHOLE function: and_with_possible_none, between_otherwise_and_current (index of
                               the last otherwise, the slices), the two conjuncts added to `select` and the two
                               polarities added to `pred_set`; assembled as gen_current_select over the stack
  _finalize                    the default selection (declared / register itself / 0), the select step of
                               the wire fold, the three initial values and the three select steps of the
                               memory write-port fold
Shape-checked, fail closed (the hand-written state machine of Front/Cond.v was written against exactly
these statements, in this order):
  _reset_conditional_state, _ConditionalAssignment.__call__/__enter__/__exit__, _Otherwise.__enter__/
  __exit__, _push_condition, _pop_condition, _build, _check_and_add_pred_set, and_with_possible_none,
  between_otherwise_and_current, the loop skeleton of _current_select and of _finalize.
Anything else -> Untranslatable -> the generated file does not compile -> the tie is reported broken.
"""
import ast
import copy
import os
import textwrap

import pyfrag
from gen_coq import generator

U = pyfrag.Untranslatable


def _norm(node):
    """dump without ctx and without the message arguments of raise statements"""
    node = copy.deepcopy(node)
    for x in ast.walk(node):
        if isinstance(x, ast.Raise) and isinstance(x.exc, ast.Call):
            x.exc.args = []
            x.exc.keywords = []
    return pyfrag.dump_noctx(node)


def require_stmts(stmts, src, what):
    want = ast.parse(textwrap.dedent(src)).body
    if len(stmts) != len(want):
        raise U('%s: expected %d statements, found %d' % (what, len(want), len(stmts)))
    for k, (a, b) in enumerate(zip(stmts, want)):
        if _norm(a) != _norm(b):
            raise U('%s: statement %d: expected `%s`, found `%s` (line %s)' % (
                what, k + 1, ' '.join(ast.unparse(b).split())[:150], ' '.join(ast.unparse(a).split())[:150],
                getattr(a, 'lineno', '?')))


def body(fn):
    return pyfrag.strip_docstring(fn.body)


def argnames(fn):
    return [a.arg for a in fn.args.args]


def hole(name):
    return ast.Name(id=name, ctx=ast.Load())


# ------------------------------------------------------------------ expression translators
def tr_cond(node, env):
    """boolean condition over names typed 'Z' (object identity = id equality) or 'bool'"""
    if isinstance(node, ast.BoolOp):
        op = 'andb' if isinstance(node.op, ast.And) else 'orb'
        parts = [tr_cond(v, env) for v in node.values]
        out = parts[0]
        for p in parts[1:]:
            out = '(%s %s %s)' % (op, out, p)
        return out
    if isinstance(node, ast.UnaryOp) and isinstance(node.op, ast.Not):
        return '(negb %s)' % tr_cond(node.operand, env)
    if isinstance(node, ast.Constant) and isinstance(node.value, bool):
        return 'true' if node.value else 'false'
    if isinstance(node, ast.Compare) and len(node.ops) == 1:
        a, b, op = node.left, node.comparators[0], node.ops[0]
        if isinstance(a, ast.Name) and isinstance(b, ast.Name) and a.id in env and b.id in env:
            ta, tb = env[a.id], env[b.id]
            if ta != tb:
                raise U('comparison of %s:%s with %s:%s' % (a.id, ta, b.id, tb))
            eq = '(Z.eqb %s %s)' if ta == 'Z' else '(Bool.eqb %s %s)'
            eq = eq % (pyfrag.coq_ident(a.id), pyfrag.coq_ident(b.id))
            if isinstance(op, (ast.Is, ast.Eq)):
                if ta == 'Z' and isinstance(op, ast.Eq):
                    raise U('`==` on wires builds hardware; only `is` compares predicates')
                return eq
            if isinstance(op, (ast.IsNot, ast.NotEq)):
                if ta == 'Z' and isinstance(op, ast.NotEq):
                    raise U('`!=` on wires builds hardware; only `is not` compares predicates')
                return '(negb %s)' % eq
    raise U('condition not in the translatable subset: %s' % ast.unparse(node))


def tr_width_guard(node):
    """`predicate is not otherwise and len(predicate) > 1` over (is_otherwise : bool) (len_predicate : Z)"""
    if isinstance(node, ast.BoolOp):
        op = 'andb' if isinstance(node.op, ast.And) else 'orb'
        parts = [tr_width_guard(v) for v in node.values]
        out = parts[0]
        for p in parts[1:]:
            out = '(%s %s %s)' % (op, out, p)
        return out
    if isinstance(node, ast.Compare) and len(node.ops) == 1:
        a, b, op = node.left, node.comparators[0], node.ops[0]
        if isinstance(a, ast.Name) and a.id == 'predicate' and isinstance(b, ast.Name) and b.id == 'otherwise':
            if isinstance(op, ast.IsNot):
                return '(negb is_otherwise)'
            if isinstance(op, ast.Is):
                return 'is_otherwise'
        if pyfrag.same_ast(a, 'len(predicate)', 'expr') and isinstance(b, ast.Constant) \
                and isinstance(b.value, int) and not isinstance(b.value, bool):
            ops = {ast.Gt: '(len_predicate >? %d)', ast.GtE: '(len_predicate >=? %d)',
                   ast.NotEq: '(negb (len_predicate =? %d))', ast.Lt: '(len_predicate <? %d)',
                   ast.LtE: '(len_predicate <=? %d)', ast.Eq: '(len_predicate =? %d)'}
            for k, v in ops.items():
                if isinstance(op, k):
                    return v % b.value
    raise U('_push_condition guard not in the translatable subset: %s' % ast.unparse(node))


def tr_bexpr(node):
    """1-bit expression over the loop variable `predicate`"""
    if isinstance(node, ast.Name) and node.id == 'predicate':
        return '(BVar predicate)'
    if isinstance(node, ast.UnaryOp) and isinstance(node.op, ast.Invert):
        return '(BNot %s)' % tr_bexpr(node.operand)
    if isinstance(node, ast.BinOp) and isinstance(node.op, ast.BitAnd):
        return '(BAnd %s %s)' % (tr_bexpr(node.left), tr_bexpr(node.right))
    raise U('select conjunct not in the translatable subset: %s' % ast.unparse(node))


def tr_vexpr(node, names):
    """value expression: a local name, 0 / Const(0), select(sel, truecase, falsecase)"""
    if isinstance(node, ast.Name) and node.id in names:
        return node.id
    if isinstance(node, ast.Constant) and node.value == 0 and not isinstance(node.value, bool):
        return 'VZero'
    if isinstance(node, ast.Call) and isinstance(node.func, ast.Name):
        if node.func.id == 'Const' and len(node.args) == 1 and not node.keywords \
                and isinstance(node.args[0], ast.Constant) and node.args[0].value == 0:
            return 'VZero'
        if node.func.id == 'select':
            slots = ['sel', 'truecase', 'falsecase']
            got = {}
            for k, a in enumerate(node.args):
                got[slots[k]] = a
            for kw in node.keywords:
                if kw.arg not in slots or kw.arg in got:
                    raise U('select(): unexpected keyword %s' % kw.arg)
                got[kw.arg] = kw.value
            if set(got) != set(slots):
                raise U('select(): needs sel, truecase, falsecase')
            if not (isinstance(got['sel'], ast.Name) and got['sel'].id == 'p'):
                raise U('select(): the selector must be the recorded predicate `p`')
            return '(VSel p %s %s)' % (tr_vexpr(got['truecase'], names), tr_vexpr(got['falsecase'], names))
    raise U('value expression not in the translatable subset: %s' % ast.unparse(node))


def tr_default(node):
    if pyfrag.same_ast(node, 'defaults[lhs]', 'expr'):
        return 'DDeclared'
    if isinstance(node, ast.Name) and node.id == 'lhs':
        return 'DSelf'
    if isinstance(node, ast.Constant) and node.value == 0 and not isinstance(node.value, bool):
        return 'DZero'
    raise U('default not in the translatable subset: %s' % ast.unparse(node))


def assign_rhs(stmt, name, what):
    if not (isinstance(stmt, ast.Assign) and len(stmt.targets) == 1 and isinstance(stmt.targets[0], ast.Name)
            and stmt.targets[0].id == name):
        raise U('%s: expected an assignment to %s, found `%s`' % (what, name, ast.unparse(stmt)[:100]))
    return stmt.value


# ------------------------------------------------------------------ the fragments
def frag_conflict(tree, out):
    fn = pyfrag.find_def(tree, '_pred_sets_are_in_conflict')
    a, b = argnames(fn)
    st = body(fn)
    ok = (len(st) == 2 and isinstance(st[0], ast.For) and isinstance(st[1], ast.Return)
          and isinstance(st[0].iter, ast.Name) and st[0].iter.id == a and not st[0].orelse
          and len(st[0].body) == 1 and isinstance(st[0].body[0], ast.For))
    if not ok:
        raise U('_pred_sets_are_in_conflict: expected `for .. in %s: for .. in %s: if ..: return ..` then `return ..`' % (a, b))
    inner = st[0].body[0]
    ok = (isinstance(inner.iter, ast.Name) and inner.iter.id == b and not inner.orelse and len(inner.body) == 1
          and isinstance(inner.body[0], ast.If) and not inner.body[0].orelse and len(inner.body[0].body) == 1
          and isinstance(inner.body[0].body[0], ast.Return))
    if not ok:
        raise U('_pred_sets_are_in_conflict: inner loop is not `for .. in %s: if ..: return ..`' % b)

    def pair(t):
        if not (isinstance(t, ast.Tuple) and len(t.elts) == 2 and all(isinstance(e, ast.Name) for e in t.elts)):
            raise U('_pred_sets_are_in_conflict: loop target must be (pred, bool)')
        return t.elts[0].id, t.elts[1].id
    pa, ba = pair(st[0].target)
    pb, bb = pair(inner.target)

    def const(r):
        if not (isinstance(r.value, ast.Constant) and isinstance(r.value.value, bool)):
            raise U('_pred_sets_are_in_conflict: returns must be True/False')
        return 'true' if r.value.value else 'false'
    env = {pa: 'Z', pb: 'Z', ba: 'bool', bb: 'bool'}
    cond = tr_cond(inner.body[0].test, env)
    ids = [pyfrag.coq_ident(x) for x in (pa, ba, pb, bb)]
    out.append('(* _pred_sets_are_in_conflict: `%s` *)' % ast.unparse(inner.body[0].test))
    out.append('Definition gen_conflict_cond (%s : Z) (%s : bool) (%s : Z) (%s : bool) : bool :=\n  %s.' % (
        ids[0], ids[1], ids[2], ids[3], cond))
    out.append('Definition gen_conflict_hit : bool := %s.' % const(inner.body[0].body[0]))
    out.append('Definition gen_conflict_miss : bool := %s.' % const(st[1]))
    out.append('Definition gen_in_conflict (a b : list (Z * bool)) : bool :=\n'
               '  if existsb (fun la => existsb (fun lb => gen_conflict_cond (fst la) (snd la) (fst lb) (snd lb)) b) a\n'
               '  then gen_conflict_hit else gen_conflict_miss.')


def frag_state_machine(tree, out):
    require_stmts(body(pyfrag.find_def(tree, '_reset_conditional_state')), '''
        global _conditions_list_stack
        global _conflicts_map
        global _predicate_map
        global _depth
        _depth = 0
        _conditions_list_stack = [[]]
        _predicate_map = {}
        _conflicts_map = {}
        ''', '_reset_conditional_state')
    require_stmts(body(pyfrag.find_def(tree, '_ConditionalAssignment.__call__')), '''
        self.defaults = defaults
        return self
        ''', '_ConditionalAssignment.__call__')
    require_stmts(body(pyfrag.find_def(tree, '_ConditionalAssignment.__enter__')), '''
        global _depth
        _check_no_nesting()
        _depth = 1
        ''', '_ConditionalAssignment.__enter__')
    ex = body(pyfrag.find_def(tree, '_ConditionalAssignment.__exit__'))
    if not (len(ex) == 1 and isinstance(ex[0], ast.Try) and not ex[0].handlers and not ex[0].orelse):
        raise U('_ConditionalAssignment.__exit__: expected one try/finally')
    require_stmts(ex[0].body, '_finalize(self.defaults)', '__exit__ try body')
    fin = [_norm(s) for s in ex[0].finalbody]
    need = [_norm(ast.parse('_reset_conditional_state()').body[0]), _norm(ast.parse('self.defaults = {}').body[0])]
    if sorted(fin) != sorted(need):
        raise U('_ConditionalAssignment.__exit__: finally must reset the module state and the defaults '
                '(found `%s`)' % '; '.join(ast.unparse(s) for s in ex[0].finalbody))
    require_stmts(body(pyfrag.find_def(tree, '_Otherwise.__enter__')), '_push_condition(otherwise)', '_Otherwise.__enter__')
    require_stmts(body(pyfrag.find_def(tree, '_Otherwise.__exit__')), '_pop_condition()', '_Otherwise.__exit__')
    # _push_condition: translate the width guard, shape-check the rest
    push = copy.deepcopy(body(pyfrag.find_def(tree, '_push_condition')))
    guards = [s for s in push if isinstance(s, ast.If)]
    if len(guards) != 1 or guards[0].orelse or len(guards[0].body) != 1 or not isinstance(guards[0].body[0], ast.Raise):
        raise U('_push_condition: expected exactly one `if ..: raise` guard')
    test = guards[0].test
    out.append('(* _push_condition: `if %s: raise PyrtlError` *)' % ast.unparse(test))
    out.append('Definition gen_pred_too_wide (is_otherwise : bool) (len_predicate : Z) : bool :=\n  %s.' % tr_width_guard(test))
    guards[0].test = hole('GUARD')
    require_stmts(push, '''
        global _depth
        _check_under_condition()
        _depth += 1
        if GUARD:
            raise PyrtlError()
        _conditions_list_stack[-1].append(predicate)
        _conditions_list_stack.append([])
        ''', '_push_condition')
    require_stmts(body(pyfrag.find_def(tree, '_pop_condition')), '''
        global _depth
        _check_under_condition()
        _conditions_list_stack.pop()
        _depth -= 1
        ''', '_pop_condition')
    require_stmts(body(pyfrag.find_def(tree, '_build')), '''
        _check_under_condition()
        final_predicate, pred_set = _current_select()
        _check_and_add_pred_set(lhs, pred_set)
        _predicate_map.setdefault(lhs, []).append((final_predicate, rhs))
        ''', '_build')
    require_stmts(body(pyfrag.find_def(tree, '_check_and_add_pred_set')), '''
        for test_set in _conflicts_map.setdefault(lhs, []):
            if _pred_sets_are_in_conflict(pred_set, test_set):
                raise PyrtlError()
        _conflicts_map[lhs].append(pred_set)
        ''', '_check_and_add_pred_set')
    require_stmts(body(pyfrag.find_def(tree, '_check_under_condition')), '''
        if not currently_under_condition():
            raise PyrtlError()
        ''', '_check_under_condition')
    require_stmts(body(pyfrag.find_def(tree, '_check_no_nesting')), '''
        if _depth != 0:
            raise PyrtlError()
        ''', '_check_no_nesting')


# ------------------------------------------------------------------ the two inner helpers of _current_select
def tr_and_with_possible_none(fn):
    """`if a is None: return b` / `if b is None: return a` / `return a & b` over (a b : option bexpr)"""
    names = argnames(fn)
    if len(names) != 2:
        raise U('and_with_possible_none: two parameters expected')
    stmts = [s for s in body(fn) if not isinstance(s, ast.Assert)]   # an assert does not change the value

    def ret(e, somes):
        if isinstance(e, ast.Name) and e.id in names:
            return ('(Some %s\')' % e.id) if e.id in somes else e.id
        if isinstance(e, ast.BinOp) and isinstance(e.op, ast.BitAnd) and isinstance(e.left, ast.Name) \
                and isinstance(e.right, ast.Name) and e.left.id in somes and e.right.id in somes:
            return "(Some (BAnd %s' %s'))" % (e.left.id, e.right.id)
        raise U('and_with_possible_none: return value not translatable: %s' % ast.unparse(e))

    def go(k, somes):
        if k >= len(stmts):
            raise U('and_with_possible_none: falls off the end')
        st = stmts[k]
        if isinstance(st, ast.Return) and st.value is not None:
            return ret(st.value, somes)
        if isinstance(st, ast.If) and not st.orelse and len(st.body) == 1 and isinstance(st.body[0], ast.Return) \
                and isinstance(st.test, ast.Compare) and len(st.test.ops) == 1 and isinstance(st.test.ops[0], ast.Is) \
                and isinstance(st.test.left, ast.Name) and st.test.left.id in names and st.test.left.id not in somes \
                and isinstance(st.test.comparators[0], ast.Constant) and st.test.comparators[0].value is None:
            n = st.test.left.id
            return "match %s with None => %s | Some %s' => %s end" % (
                n, ret(st.body[0].value, somes), n, go(k + 1, somes | {n}))
        raise U('and_with_possible_none: statement not translatable: %s' % ast.unparse(st)[:80])
    return ('(* and_with_possible_none *)\nDefinition gen_and_with_possible_none (%s %s : option bexpr) : option bexpr :=\n  %s.'
            % (names[0], names[1], go(0, frozenset())))


def tr_between(fn):
    """between_otherwise_and_current(predlist): `acc = None; for i, p in enumerate(SLICE): if p is otherwise:
    acc = i` then `if acc is None: return SLICE else: return SLICE` over (predlist : list cond)"""
    (pl,) = argnames(fn)
    st = body(fn)
    if len(st) != 3:
        raise U('between_otherwise_and_current: expected init / loop / if-return')
    init, loop, fin = st
    if not (isinstance(init, ast.Assign) and len(init.targets) == 1 and isinstance(init.targets[0], ast.Name)
            and isinstance(init.value, ast.Constant) and init.value.value is None):
        raise U('between_otherwise_and_current: expected `<name> = None`')
    acc = init.targets[0].id

    def index(e, known):
        if isinstance(e, ast.Name) and e.id == acc and known:
            return acc
        if isinstance(e, ast.Constant) and isinstance(e.value, int) and not isinstance(e.value, bool) and e.value >= 0:
            return str(e.value)
        if isinstance(e, ast.BinOp) and isinstance(e.op, (ast.Add, ast.Sub)):
            return '(%s %s %s)' % (index(e.left, known), '+' if isinstance(e.op, ast.Add) else '-', index(e.right, known))
        raise U('between_otherwise_and_current: index not translatable: %s' % ast.unparse(e))

    def minus1(e):
        return isinstance(e, ast.UnaryOp) and isinstance(e.op, ast.USub) and isinstance(e.operand, ast.Constant) \
            and e.operand.value == 1

    def seq(e, known):
        if isinstance(e, ast.Name) and e.id == pl:
            return pl
        if isinstance(e, ast.Subscript) and isinstance(e.value, ast.Name) and e.value.id == pl \
                and isinstance(e.slice, ast.Slice) and e.slice.step is None:
            lo, hi = e.slice.lower, e.slice.upper
            if hi is None:
                base = pl
            elif minus1(hi):
                base = '(removelast %s)' % pl
            else:
                raise U('between_otherwise_and_current: slice upper bound must be absent or -1')
            if lo is None:
                return base
            return '(skipn (Z.to_nat %s) %s)' % (index(lo, known), base)
        raise U('between_otherwise_and_current: sequence not translatable: %s' % ast.unparse(e))
    ok = (isinstance(loop, ast.For) and not loop.orelse and isinstance(loop.target, ast.Tuple) and len(loop.target.elts) == 2
          and all(isinstance(x, ast.Name) for x in loop.target.elts)
          and isinstance(loop.iter, ast.Call) and isinstance(loop.iter.func, ast.Name) and loop.iter.func.id == 'enumerate'
          and len(loop.iter.args) == 1 and not loop.iter.keywords and len(loop.body) == 1 and isinstance(loop.body[0], ast.If)
          and not loop.body[0].orelse and len(loop.body[0].body) == 1)
    if not ok:
        raise U('between_otherwise_and_current: loop is not `for i, p in enumerate(..): if ..: %s = i`' % acc)
    iv, pv = loop.target.elts[0].id, loop.target.elts[1].id
    upd = loop.body[0].body[0]
    if not (isinstance(upd, ast.Assign) and len(upd.targets) == 1 and isinstance(upd.targets[0], ast.Name)
            and upd.targets[0].id == acc and isinstance(upd.value, ast.Name) and upd.value.id == iv):
        raise U('between_otherwise_and_current: loop body must be `%s = %s`' % (acc, iv))
    t = loop.body[0].test
    if not (isinstance(t, ast.Compare) and len(t.ops) == 1 and isinstance(t.left, ast.Name) and t.left.id == pv
            and isinstance(t.comparators[0], ast.Name) and t.comparators[0].id == 'otherwise'
            and isinstance(t.ops[0], (ast.Is, ast.IsNot))):
        raise U('between_otherwise_and_current: loop test must be `%s is [not] otherwise`' % pv)
    cond = 'is_oth (snd ip)' if isinstance(t.ops[0], ast.Is) else 'negb (is_oth (snd ip))'
    if not (isinstance(fin, ast.If) and len(fin.body) == 1 and len(fin.orelse) == 1
            and isinstance(fin.body[0], ast.Return) and isinstance(fin.orelse[0], ast.Return)
            and isinstance(fin.test, ast.Compare) and len(fin.test.ops) == 1 and isinstance(fin.test.left, ast.Name)
            and fin.test.left.id == acc and isinstance(fin.test.comparators[0], ast.Constant)
            and fin.test.comparators[0].value is None and isinstance(fin.test.ops[0], (ast.Is, ast.IsNot))):
        raise U('between_otherwise_and_current: expected `if %s is None: return .. else: return ..`' % acc)
    none_ret, some_ret = fin.body[0].value, fin.orelse[0].value
    if isinstance(fin.test.ops[0], ast.IsNot):
        none_ret, some_ret = some_ret, none_ret
    return ('(* between_otherwise_and_current: indices are positions in `%s`; python order (oldest sibling first) *)\n'
            'Definition gen_between_otherwise_and_current (%s : list cond) : list cond :=\n'
            '  let %s := fold_left (fun (%s : option Z) (ip : Z * cond) => if %s then Some (fst ip) else %s)\n'
            '                      (enum_from 0 %s) None in\n'
            '  match %s with\n  | None => %s\n  | Some %s => %s\n  end.'
            % (ast.unparse(loop.iter.args[0]), pl, acc, acc, cond, acc, seq(loop.iter.args[0], False),
               acc, seq(none_ret, False), acc, seq(some_ret, True)))


def frag_current_select(tree, out):
    fn = pyfrag.find_def(tree, '_current_select')
    st = copy.deepcopy(body(fn))
    out.append(tr_and_with_possible_none(pyfrag.find_def(tree, '_current_select.and_with_possible_none')))
    out.append(tr_between(pyfrag.find_def(tree, '_current_select.between_otherwise_and_current')))
    rest = [s for s in st if not isinstance(s, ast.FunctionDef)]
    loops = [s for s in rest if isinstance(s, ast.For)]
    if len(loops) != 1:
        raise U('_current_select: expected one loop over the stack levels')
    lv = loops[0]
    try:
        inner = lv.body[0]
        sel1 = assign_rhs(inner.body[0], 'select', 'between loop')
        add1 = inner.body[1].value.args[0]
        cur = lv.body[1]
        sel2 = assign_rhs(cur.body[1], 'select', 'current predicate')
        add2 = cur.body[2].value.args[0]
        e1, e2 = sel1.args[1], sel2.args[1]
        f1, f2 = add1.elts[1], add2.elts[1]
    except (AttributeError, IndexError):
        raise U('_current_select: loop body does not have the expected shape')
    for f in (f1, f2):
        if not (isinstance(f, ast.Constant) and isinstance(f.value, bool)):
            raise U('_current_select: the polarity stored in pred_set must be True/False')
    out.append('(* _current_select, predicates between the last otherwise and the current one:\n'
               '   select &= `%s` ; pred_set.add((predicate, %s)) *)' % (ast.unparse(e1), f1.value))
    out.append('Definition gen_between_expr (predicate : Z) : bexpr := %s.' % tr_bexpr(e1))
    out.append('Definition gen_between_flag : bool := %s.' % ('true' if f1.value else 'false'))
    out.append('(* the current predicate: select &= `%s` ; pred_set.add((predicate, %s)) *)' % (ast.unparse(e2), f2.value))
    out.append('Definition gen_current_expr (predicate : Z) : bexpr := %s.' % tr_bexpr(e2))
    out.append('Definition gen_current_flag : bool := %s.' % ('true' if f2.value else 'false'))
    out.append("""(* _current_select assembled from the pieces above; the loop skeleton is the one shape-checked below.
   `stack` is _conditions_list_stack in python order (outermost level first, oldest sibling first). *)
Definition gen_level (acc : option bexpr * list lit) (predlist : list cond) : option bexpr * list lit :=
  let acc1 :=
    fold_left (fun (acc : option bexpr * list lit) (c : cond) =>
                 match c with
                 | CP predicate => (gen_and_with_possible_none (fst acc) (Some (gen_between_expr predicate)),
                                    snd acc ++ [(predicate, gen_between_flag)])
                 | COth => acc      (* `~otherwise` would be a TypeError; the bridge proves it never occurs *)
                 end)
              (gen_between_otherwise_and_current predlist) acc in
  match last predlist COth with
  | CP predicate => (gen_and_with_possible_none (fst acc1) (Some (gen_current_expr predicate)),
                     snd acc1 ++ [(predicate, gen_current_flag)])
  | COth => acc1
  end.

Definition gen_current_select (stack : list (list cond)) : option bexpr * list lit :=
  fold_left gen_level (removelast stack) (None, []).""")
    sel1.args[1] = hole('E1')
    sel2.args[1] = hole('E2')
    add1.elts[1] = hole('F1')
    add2.elts[1] = hole('F2')
    require_stmts(rest, '''
        select = None
        pred_set = set()
        for predlist in _conditions_list_stack[:-1]:
            for predicate in between_otherwise_and_current(predlist):
                select = and_with_possible_none(select, E1)
                pred_set.add((predicate, F1))
            if predlist[-1] is not otherwise:
                predicate = predlist[-1]
                select = and_with_possible_none(select, E2)
                pred_set.add((predicate, F2))
        if select is None:
            raise PyrtlError()
        if len(select) != 1:
            raise PyrtlInternalError()
        return select, pred_set
        ''', '_current_select')


def frag_finalize(tree, out):
    fn = pyfrag.find_def(tree, '_finalize')
    st = copy.deepcopy(body(fn))
    loops = [s for s in st if isinstance(s, ast.For)]
    if len(loops) != 1 or len(loops[0].body) != 1 or not isinstance(loops[0].body[0], ast.If):
        raise U('_finalize: expected `for lhs in _predicate_map: if isinstance(lhs, MemBlock): .. else: ..`')
    top = loops[0].body[0]
    mem, wire = top.body, top.orelse
    # ---- memory branch
    try:
        init = [assign_rhs(mem[1], 'combined_enable', 'memory init'), assign_rhs(mem[2], 'combined_addr', 'memory init'),
                assign_rhs(mem[3], 'combined_data', 'memory init')]
        loop = mem[4]
        step = [assign_rhs(loop.body[0], 'combined_enable', 'memory fold'), assign_rhs(loop.body[1], 'combined_addr', 'memory fold'),
                assign_rhs(loop.body[2], 'combined_data', 'memory fold')]
        if len(loop.body) != 3:
            raise U('_finalize: the memory fold must be exactly three assignments')
    except (AttributeError, IndexError):
        raise U('_finalize: memory branch does not have the expected shape')
    base = ['addr', 'data', 'enable']
    names = list(base)
    lets = []
    for nm, e in zip(['combined_enable', 'combined_addr', 'combined_data'], init):
        lets.append('  let %s := %s in' % (nm, tr_vexpr(e, names)))
        names.append(nm)
    out.append('(* _finalize, MemBlock: first record *)')
    out.append('Definition gen_mem_init (p : bexpr) (addr data enable : vexpr) : vexpr * vexpr * vexpr :=\n%s\n'
               '  (combined_enable, combined_addr, combined_data).' % '\n'.join(lets))
    names = base + ['combined_enable', 'combined_addr', 'combined_data']
    lets = []
    for nm, e in zip(['combined_enable', 'combined_addr', 'combined_data'], step):
        lets.append('  let %s := %s in' % (nm, tr_vexpr(e, names)))
    out.append('(* _finalize, MemBlock: every later record, in order *)')
    out.append('Definition gen_mem_step (p : bexpr) (addr data enable : vexpr) (acc : vexpr * vexpr * vexpr)\n'
               '  : vexpr * vexpr * vexpr :=\n  let \'(combined_enable, combined_addr, combined_data) := acc in\n%s\n'
               '  (combined_enable, combined_addr, combined_data).' % '\n'.join(lets))
    for k, nm in ((1, 'I1'), (2, 'I2'), (3, 'I3')):
        mem[k].value = hole(nm)
    for k, nm in ((0, 'S1'), (1, 'S2'), (2, 'S3')):
        loop.body[k].value = hole(nm)
    # ---- wire / register branch
    try:
        kind = wire[0]
        reg_if, wv = kind.body[0], kind.orelse[0]
        wv_if = wv.body[0]
        ea = assign_rhs(reg_if.body[0], 'result', 'register default')
        eb = assign_rhs(reg_if.orelse[0], 'result', 'register default')
        ec = assign_rhs(wv_if.body[0], 'result', 'wire default')
        ed = assign_rhs(wv_if.orelse[0], 'result', 'wire default')
        fold = wire[2]
        stepw = assign_rhs(fold.body[0], 'result', 'wire fold')
    except (AttributeError, IndexError):
        raise U('_finalize: wire/register branch does not have the expected shape')
    out.append('(* _finalize, default of a register / wire that no active branch assigns *)')
    out.append('Definition gen_default (is_register is_wirevector in_defaults : bool) : option dsel :=\n'
               '  if is_register then (if in_defaults then Some %s else Some %s)\n'
               '  else if is_wirevector then (if in_defaults then Some %s else Some %s)\n  else None.' % (
                   tr_default(ea), tr_default(eb), tr_default(ec), tr_default(ed)))
    out.append('(* _finalize, wire / register: `result = %s` for every record, in order *)' % ast.unparse(stepw))
    out.append('Definition gen_fin_step (p : bexpr) (rhs result : vexpr) : vexpr := %s.' % tr_vexpr(stepw, ['rhs', 'result']))
    reg_if.body[0].value = hole('EA')
    reg_if.orelse[0].value = hole('EB')
    wv_if.body[0].value = hole('EC')
    wv_if.orelse[0].value = hole('ED')
    fold.body[0].value = hole('STEP')
    require_stmts(st, '''
        from .memory import MemBlock
        from pyrtl.corecircuits import select
        for lhs in _predicate_map:
            if isinstance(lhs, MemBlock):
                p, (addr, data, enable) = _predicate_map[lhs][0]
                combined_enable = I1
                combined_addr = I2
                combined_data = I3
                for p, (addr, data, enable) in _predicate_map[lhs][1:]:
                    combined_enable = S1
                    combined_addr = S2
                    combined_data = S3
                lhs._build(combined_addr, combined_data, combined_enable)
            else:
                if isinstance(lhs, Register):
                    if lhs in defaults:
                        result = EA
                    else:
                        result = EB
                elif isinstance(lhs, WireVector):
                    if lhs in defaults:
                        result = EC
                    else:
                        result = ED
                else:
                    raise PyrtlInternalError()
                predlist = _predicate_map[lhs]
                for p, rhs in predlist:
                    result = STEP
                lhs._build(result)
        ''', '_finalize')


ASSEMBLED = """(* ---- assembled from the rules above, in the statement order shape-checked by the generator ---- *)
(* _push_condition: guard, append to the current level, open a new level *)
Definition gen_push (pw : pid -> Z) (c : cond) (s : st) : option st :=
  if gen_pred_too_wide (is_oth c) (match c with CP p => pw p | COth => 0 end) then None
  else match stk s with
       | [] => None
       | cur :: rest => Some (mkSt ([] :: (c :: cur) :: rest) (pmap s) (cmap s))
       end.

(* _build: _current_select, then _check_and_add_pred_set (raise on the first conflicting earlier set, else
   record the set), then record (select, rhs) *)
Definition gen_build (l : lhs) (pl : payload) (s : st) : option st :=
  match gen_current_select (rev (map (@rev cond) (stk s))) with
  | (None, _) => None
  | (Some sel, pred_set) =>
      if existsb (fun test_set => gen_in_conflict pred_set test_set) (am_get (cmap s) l) then None
      else Some (mkSt (stk s) (am_app (pmap s) l (sel, pl)) (am_app (cmap s) l pred_set))
  end.

(* _finalize for one target *)
Definition gen_fin_one (d : defaults) (kv : lhs * list (bexpr * payload)) : lhs * fexpr :=
  match fst kv with
  | LM m =>
      (LM m,
       match snd kv with
       | [] => FMem VZero VZero VZero
       | (p0, pl0) :: rest =>
           let '(en, ad, da) :=
             fold_left (fun acc pr => gen_mem_step (fst pr) (pl_addr (snd pr)) (pl_val (snd pr)) (pl_en (snd pr)) acc)
                       rest (gen_mem_init p0 (pl_addr pl0) (pl_val pl0) (pl_en pl0)) in
           FMem en ad da
       end)
  | LW t =>
      (LW t,
       FVal (fold_left (fun acc pr => gen_fin_step (fst pr) (pl_val (snd pr)) acc) (snd kv)
               (match gen_default (match t with TReg _ => true | TWire _ => false end) true
                                  (match dflt_get d t with Some _ => true | None => false end) with
                | Some DDeclared => match dflt_get d t with Some r => VLeaf r | None => VZero end
                | Some DSelf => match t with TReg i => VSelf i | TWire i => VSelf (-1 - i) end
                | Some DZero => VZero
                | None => VZero
                end)))
  end.

(* `with conditional_assignment(defaults=d): prog` -- the with-protocol threads the module state *)
Section GenElab.
  Variable pw : pid -> Z.
  Fixpoint gen_elab_tree (t : ctree) (s : st) {struct t} : option st :=
    match t with
    | With p body =>
        match gen_push pw (CP p) s with
        | None => None
        | Some s1 =>
            match (fix go (l : list ctree) (s : st) {struct l} : option st :=
                     match l with
                     | [] => Some s
                     | x :: r => match gen_elab_tree x s with Some s' => go r s' | None => None end
                     end) body s1 with
            | None => None
            | Some s2 => pop s2
            end
        end
    | Otherwise body =>
        match gen_push pw COth s with
        | None => None
        | Some s1 =>
            match (fix go (l : list ctree) (s : st) {struct l} : option st :=
                     match l with
                     | [] => Some s
                     | x :: r => match gen_elab_tree x s with Some s' => go r s' | None => None end
                     end) body s1 with
            | None => None
            | Some s2 => pop s2
            end
        end
    | Assign t r => gen_build (LW t) (PVal r) s
    | MemAssign m a d e => gen_build (LM m) (PMem a d e) s
    end.

  Fixpoint gen_elab_forest (l : list ctree) (s : st) {struct l} : option st :=
    match l with
    | [] => Some s
    | x :: r => match gen_elab_tree x s with Some s' => gen_elab_forest r s' | None => None end
    end.

  Definition gen_elab (prog : list ctree) (d : defaults) : option (list (lhs * fexpr)) :=
    match gen_elab_forest prog init_st with
    | None => None
    | Some s => Some (map (gen_fin_one d) (pmap s))
    end.
End GenElab."""


@generator('CondRules')
def gen_cond_rules(repo):
    path = os.path.join(repo, 'pyrtl', 'conditional.py')
    tree = pyfrag.parse_file(path)
    out = ['(* GENERATED by py/genfrag_C07.py from pyrtl/conditional.py -- do not edit.\n'
           '   The pure rules of the elaborator as the source states them NOW; Front/CondRules.v proves that\n'
           '   the hand-written model Front/Cond.v is built from exactly these rules. *)\n'
           'From Coq Require Import ZArith List Bool.\n'
           'From PyRTL Require Import Front.Cond.\n'
           'Import ListNotations.\nOpen Scope Z_scope.\n']
    frag_conflict(tree, out)
    frag_state_machine(tree, out)
    frag_current_select(tree, out)
    frag_finalize(tree, out)
    # every fragment above translated and every shape check passed: assemble the functions of the state
    # machine from the regenerated rules, in the statement order that was just checked
    out.append(ASSEMBLED)
    return '\n\n'.join(out) + '\n'
